import argparse, json, os, shutil, subprocess, sys, tempfile, time
V = os.path.dirname(os.path.dirname(os.path.abspath(__file__)))
ap = argparse.ArgumentParser()
ap.add_argument('--only')
ap.add_argument('--seeded', action='store_true')
ap.add_argument('--tier', default='quick')
a = ap.parse_args()
jobs = []
if not a.seeded:
    for line in open(os.path.join(V, 'selftest', 'mutants.tsv')):
        if line.startswith('#') or not line.strip():
            continue
        prop, expect, f, sed, desc = line.rstrip('\n').split('\t')
        jobs.append(dict(prop=prop, expect=expect, kind='sed', file=f, sed=sed, desc=desc))
else:
    sd = os.path.join(V, 'seeded')
    for name in sorted(os.listdir(sd)):
        meta = os.path.join(sd, name, 'meta.json')
        if os.path.exists(meta):
            m = json.load(open(meta))
            for prop in m.get('checked_by', [m['property']]):
                jobs.append(dict(prop=prop, expect='catch', kind='patch', patch=os.path.join(sd, name, 'patch.diff'), desc=name))
if a.only:
    jobs = [j for j in jobs if j['prop'] == a.only]
rows, bad = [], 0
for j in jobs:
    scratch = tempfile.mkdtemp(prefix='pvselftest_', dir='/tmp')
    try:
        subprocess.check_call(['rsync', '-a', '--exclude', '.git', '--exclude', 'data', '/repo/', scratch + '/'])
        if j['kind'] == 'sed':
            before = open(os.path.join(scratch, j['file'])).read()
            subprocess.check_call(['sed', '-i', j['sed'], os.path.join(scratch, j['file'])])
            if open(os.path.join(scratch, j['file'])).read() == before:
                rows.append((j['prop'], j['expect'], 'NO-CHANGE', j['desc']))
                bad += 1
                continue
        else:
            subprocess.check_call(['patch', '-p1', '-s', '-d', scratch, '-i', j['patch']])
        env = dict(os.environ, VERIF_REPO=scratch)
        t = time.time()
        r = subprocess.run([os.path.join(V, 'bin', 'check'), j['prop'], '--tier', a.tier], env=env, capture_output=True, text=True)
        got = 'catch' if (r.returncode == 1 and 'VIOLATION property=%s' % j['prop'] in r.stdout) else 'pass' if r.returncode == 0 else 'exit%d' % r.returncode
        ok = got == j['expect']
        bad += 0 if ok else 1
        first = [l for l in r.stdout.splitlines() if l.startswith('VIOLATION')][:1]
        und = sum(1 for l in r.stdout.splitlines() if l.startswith('UNDECIDED'))
        rows.append((j['prop'], j['expect'], got + ('' if ok else '  <-- UNEXPECTED'), j['desc'] + ('  [%s]' % first[0][:110] if first else '') + ('  [undecided=%d]' % und if und else '') + '  (%.0fs)' % (time.time() - t)))
    finally:
        shutil.rmtree(scratch, ignore_errors=True)
        shutil.rmtree(os.path.join(V, '.scratch', os.path.basename(scratch)), ignore_errors=True)
    print('%-4s expect=%-5s got=%-22s %s' % rows[-1], flush=True)
print('%d changes, %d unexpected verdicts' % (len(rows), bad))
sys.exit(1 if bad else 0)
