#!/bin/sh
# Build /verif/.venv offline: python 3.12 (same interpreter as /venv, which has the
# repository's dependencies) + solver / contract tooling from the offline wheelhouse.
set -e
cd "$(dirname "$0")/.."
V=.venv
if [ -x "$V/bin/python" ] && "$V/bin/python" -c "import z3, jsonschema, numpy, pandas, mbi" 2>/dev/null; then
  exit 0
fi
rm -rf "$V"
/venv/bin/python -m venv "$V"
SP=$("$V/bin/python" -c "import sysconfig;print(sysconfig.get_paths()['purelib'])")
echo "import site; site.addsitedir('/venv/lib/python3.12/site-packages')" > "$SP/_repo_deps.pth"
PIP_NO_INDEX=1 "$V/bin/python" -m pip install -q --no-index --find-links /opt/veriftools/wheels \
  z3-solver cvc5 jsonschema deal icontract crosshair-tool >/dev/null
"$V/bin/python" -c "import z3, jsonschema, numpy, pandas, mbi; print('venv ok', z3.get_version_string())"
