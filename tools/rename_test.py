#!/usr/bin/env python
"""Robustness self-test: a semantics-preserving edit must not raise an alarm.

For every function of a file (or the listed ones) all local variables (assigned names, loop / comprehension / with targets; not
parameters, not global / nonlocal names) are renamed to <name>_rn throughout that function, the file is rewritten on a scratch copy
of /repo, and the given property checks are run against it with the bounded tier skipped (PV_SKIP_BOUNDED=1).  Expected: exit 0, no
VIOLATION line (UNDECIDED is fine: a contract that names a renamed local does not fit the code any more).

usage: tools/rename_test.py <file relative to repo> <Cxx,Cyy,...> [function-name-substring]"""
import ast, os, shutil, subprocess, sys, tempfile

V = os.path.dirname(os.path.dirname(os.path.abspath(__file__)))
rel, props = sys.argv[1], sys.argv[2].split(',')
only = sys.argv[3] if len(sys.argv) > 3 else None
src = open(os.path.join('/repo', rel)).read()
tree = ast.parse(src)


class Rn(ast.NodeTransformer):
    def __init__(self, names):
        self.names = names

    def visit_Name(self, n):
        if n.id in self.names:
            return ast.copy_location(ast.Name(id=n.id + '_rn', ctx=n.ctx), n)
        return n


def locals_of(fn):
    params = {a.arg for f in ast.walk(fn) if isinstance(f, (ast.FunctionDef, ast.Lambda)) for a in
              (f.args.args + f.args.kwonlyargs + f.args.posonlyargs + ([f.args.vararg] if f.args.vararg else []) + ([f.args.kwarg] if f.args.kwarg else []))}
    glob = {n for g in ast.walk(fn) if isinstance(g, (ast.Global, ast.Nonlocal)) for n in g.names}
    imported = {(a.asname or a.name).split('.')[0] for i in ast.walk(fn) if isinstance(i, (ast.Import, ast.ImportFrom)) for a in i.names}
    nested = {f.name for f in ast.walk(fn) if isinstance(f, ast.FunctionDef) and f is not fn}
    stores = {n.id for n in ast.walk(fn) if isinstance(n, ast.Name) and isinstance(n.ctx, ast.Store)}
    return stores - params - glob - imported - nested


funcs = []
for n in ast.walk(tree):
    if isinstance(n, ast.ClassDef):
        for f in n.body:
            if isinstance(f, ast.FunctionDef):
                funcs.append((n.name + '.' + f.name, f))
for f in tree.body:
    if isinstance(f, ast.FunctionDef):
        funcs.append((f.name, f))
bad = 0
for qual, fn in funcs:
    if only and only not in qual:
        continue
    names = locals_of(fn)
    mode = os.environ.get('EDIT_MODE', 'rename')
    if mode == 'rename' and not names:
        continue
    if mode == 'insert':
        # another harmless edit: a new first statement (shifts every line number, adds a local)
        new_fn = ast.parse(ast.get_source_segment(src, fn)).body[0]
        k = 1 if (new_fn.body and isinstance(new_fn.body[0], ast.Expr) and isinstance(getattr(new_fn.body[0], 'value', None), ast.Constant)) else 0
        new_fn.body[k:k] = ast.parse('_pv_dbg = None\nif _pv_dbg is not None:\n    pass').body
    else:
        new_fn = Rn(names).visit(ast.parse(ast.get_source_segment(src, fn)).body[0])
    ast.fix_missing_locations(new_fn)
    seg = ast.unparse(new_fn)
    indent = ' ' * fn.col_offset
    lines = src.split('\n')
    start = (fn.decorator_list[0].lineno if fn.decorator_list else fn.lineno) - 1
    deco = [indent + '@' + ast.unparse(d) for d in fn.decorator_list]
    body = [indent + l if l else l for l in seg.split('\n')]
    body = [l for l in body if not l.strip().startswith('@')] if fn.decorator_list else body
    new_src = '\n'.join(lines[:start] + deco + body + lines[fn.end_lineno:])
    scratch = tempfile.mkdtemp(prefix='pvrename_', dir='/tmp')
    try:
        subprocess.check_call(['rsync', '-a', '--exclude', '.git', '--exclude', 'data', '/repo/', scratch + '/'])
        open(os.path.join(scratch, rel), 'w').write(new_src)
        try:
            compile(new_src, rel, 'exec')
        except SyntaxError as e:
            print('%-45s SKIP (rewrite does not compile: %s)' % (qual, e))
            continue
        for p in props:
            r = subprocess.run([os.path.join(V, 'bin', 'check'), p], env=dict(os.environ, VERIF_REPO=scratch, PV_SKIP_BOUNDED='1'), capture_output=True, text=True)
            vio = [l for l in r.stdout.splitlines() if l.startswith('VIOLATION')]
            und = [l for l in r.stdout.splitlines() if l.startswith('UNDECIDED')]
            # with the bounded tier skipped, a property whose whole deductive tier became undecided reports CHECK-VACUOUS (exit 3)
            ok = not vio and (r.returncode == 0 or (r.returncode == 3 and 'CHECK-VACUOUS' in r.stdout and 'CHECK-CRASH' not in r.stdout))
            bad += 0 if ok else 1
            print('%-45s %s exit=%d violations=%d undecided=%d %s%s' % (qual, p, r.returncode, len(vio), len(und), '' if ok else '<-- FALSE ALARM  ',
                                                                       (vio[0][:200] if vio else '')), flush=True)
    finally:
        shutil.rmtree(scratch, ignore_errors=True)
        shutil.rmtree(os.path.join(V, '.scratch', os.path.basename(scratch)), ignore_errors=True)
print('%d false alarms' % bad)
sys.exit(1 if bad else 0)
