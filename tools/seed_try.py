#!/usr/bin/env python3
"""tools/seed_try.py Cxx A|B [check ids...] — validate a sub-agent's seeded change and run our checks against it.
Everything happens on scratch copies under /tmp that are removed afterwards; /repo is never modified."""
import json, os, shutil, subprocess, sys, tempfile, time
pid, letter = sys.argv[1], sys.argv[2]
checks = sys.argv[3:] or [pid]
src = '%s/%s/%s' % (os.environ.get('SEED_SRC_ROOT', '/tmp/wt_out'), pid, letter)
WT = '/tmp/wt/%s%s' % (pid, os.environ.get('SEED_WT_SUFFIX', ''))
patch = os.path.join(src, 'patch.diff')
out = dict(property=pid, variant=letter, ran=[])
def sh(cmd, cwd=None, env=None, timeout=3600):
    r = subprocess.run(cmd, shell=True, cwd=cwd, env=env, capture_output=True, text=True, timeout=timeout)
    return r.returncode, (r.stdout + r.stderr)
def scratch(apply):
    d = tempfile.mkdtemp(prefix='seed_%s%s_' % (pid, letter), dir='/tmp')
    subprocess.check_call(['rsync', '-a', '--exclude', '.git', '/repo/', d + '/'])
    if apply:
        rc, o = sh('patch -p1 -s -i %s' % patch, cwd=d)
        if rc:
            print('PATCH DOES NOT APPLY', o); sys.exit(2)
    return d
d1 = scratch(True)
env = dict(os.environ, PYTHONPATH='%s/src:%s' % (d1, d1))
rc, o = sh('/venv/bin/python -m pytest -q -p no:cacheprovider test 2>&1 | tail -1', cwd=d1, env=env)
out['suite_with_patch'] = o.strip()
open(os.path.join(d1, 'demo_seed.py'), 'w').write(open(os.path.join(src, 'demo.py')).read().replace(WT, d1))
t = time.time(); rc, o = sh('/venv/bin/python demo_seed.py', cwd=d1, env=env); out['demo_with_patch_exit'] = rc; out['demo_with_patch_tail'] = o.strip().splitlines()[-3:]; out['demo_seconds'] = round(time.time() - t, 1)
d0 = scratch(False)
env0 = dict(os.environ, PYTHONPATH='%s/src:%s' % (d0, d0))
open(os.path.join(d0, 'demo_seed.py'), 'w').write(open(os.path.join(src, 'demo.py')).read().replace(WT, d0))
rc, o = sh('/venv/bin/python demo_seed.py', cwd=d0, env=env0); out['demo_without_patch_exit'] = rc
shutil.rmtree(d0, ignore_errors=True)
for c in checks:
    t = time.time()
    rc, o = sh('/verif/bin/check %s --tier quick' % c, cwd='/verif', env=dict(os.environ, VERIF_REPO=d1))
    vio = [l for l in o.splitlines() if l.startswith('VIOLATION')]
    und = [l for l in o.splitlines() if l.startswith('UNDECIDED')]
    summ = [l for l in o.splitlines() if l.startswith(c + ' tier=')]
    first = None
    if vio:
        # what fired? obligation name or bounded clause from the replay file
        try:
            rp = vio[0].split('replay=')[1].split()[0]
            j = json.load(open(rp)); first = j.get('obligation') or j.get('clause')
        except Exception:
            pass
    out['ran'].append(dict(check=c, exit=rc, violations=len(vio), undecided=len(und), first=first, summary=summ[-1] if summ else o[-300:], seconds=round(time.time() - t, 1),
                           kinds=sorted({('obligation' if '-obligation-' in l else 'bounded') for l in vio})))
shutil.rmtree(d1, ignore_errors=True)
shutil.rmtree(os.path.join('/verif', '.scratch', os.path.basename(d1)), ignore_errors=True)
print(json.dumps(out, indent=1))
json.dump(out, open(os.path.join(src, 'try_result.json'), 'w'), indent=1)
