#!/usr/bin/env python3
"""tools/seed_keep.py Cxx A|B — after tools/seed_try.py confirmed a seeded change, keep it under /verif/seeded/<id>/."""
import json, os, re, shutil, sys
pid, letter = sys.argv[1], sys.argv[2]
src = '%s/%s/%s' % (os.environ.get('SEED_SRC_ROOT', '/tmp/wt_out'), pid, letter)
keep_as = os.environ.get('SEED_KEEP_AS', letter)       # second-round changes are kept as C / D
res = json.load(open(os.path.join(src, 'try_result.json')))
ok = res['suite_with_patch'].startswith('32 passed') and res['demo_with_patch_exit'] == 1 and res['demo_without_patch_exit'] == 0
if not ok:
    print('NOT CONFIRMED', res); sys.exit(1)
dst = '/verif/seeded/%s-%s' % (pid, keep_as)
os.makedirs(dst, exist_ok=True)
shutil.copy(os.path.join(src, 'patch.diff'), dst)
# the demonstration, with the agent's scratch path made overridable
demo = open(os.path.join(src, 'demo.py')).read()
open(os.path.join(dst, 'demo.py'), 'w').write(demo)
notes = open(os.path.join(src, 'NOTES.md')).read() if os.path.exists(os.path.join(src, 'NOTES.md')) else ''
open(os.path.join(dst, 'NOTES.md'), 'w').write(notes)
files = sorted(set(re.findall(r'^\+\+\+ b/(\S+)', open(os.path.join(src, 'patch.diff')).read(), re.M)))
caught = [r['check'] for r in res['ran'] if r['exit'] == 1 and r['violations'] > 0]
meta = dict(
    id='%s-%s' % (pid, keep_as), property=pid, files=files,
    author='independent sub-agent given only the property text and a scratch worktree (/tmp/wt/%s%s); nothing from /verif' % (pid, os.environ.get('SEED_WT_SUFFIX', '')),
    what_it_needs_to_manifest=(re.search(r'(?is)(needs? to manifest|when it (shows|manifests)|what (is|it) need[s]?[^\n]*)[:\s]*(.{40,600}?)(\n\n|\n#)', notes) or [None]*5)[4] or 'see NOTES.md',
    confirmed=dict(how='tools/seed_try.py: patch applied to a scratch copy of /repo HEAD under /tmp (removed afterwards); existing suite; demo with and without the patch',
                   suite_with_patch=res['suite_with_patch'], demo_exit_with_patch=res['demo_with_patch_exit'], demo_exit_without_patch=res['demo_without_patch_exit']),
    checks_run=[dict(check=r['check'], exit=r['exit'], violation_lines=r['violations'], kinds=r['kinds'], first_failing=r['first']) for r in res['ran']],
    checked_by=caught, detected=bool(caught))
json.dump(meta, open(os.path.join(dst, 'meta.json'), 'w'), indent=1)
print(dst, 'detected by', caught)
