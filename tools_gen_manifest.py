#!/usr/bin/env python3
"""Regenerates MANIFEST.json from the property modules present in pv/props (run by hand, output committed)."""
import importlib, json, os, sys
sys.path.insert(0, os.path.dirname(os.path.abspath(__file__)))
ALL = ['C%02d' % i for i in range(1, 21)]
READY = json.load(open('ready.json'))     # property modules that are finished and validated
NOTES = json.load(open('manifest_notes.json')) if os.path.exists('manifest_notes.json') else {}
checks, na = [], []
for pid in ALL:
    try:
        if pid not in READY:
            raise ModuleNotFoundError(pid)
        mod = importlib.import_module('pv.props.' + pid)
    except ModuleNotFoundError:
        na.append(dict(property_id=pid, reason=NOTES.get(pid, {}).get('na', 'check not built yet in this round (planned, see DESIGN.md section 3); not claimed')))
        continue
    p = mod.PROP
    from pv import meta
    meta.apply(p)
    checks.append(dict(
        property_id=pid,
        quick_cmd='bin/check %s --tier quick' % pid,
        thorough_cmd='bin/check %s --tier thorough' % pid,
        evidence_file='evidence/%s.json' % pid,
        replay_cmd_template='bin/check %s --replay {path}' % pid,
        engine='pv',
        level_claimed=dict(category=p.level, text=p.level_text if hasattr(p, 'level_text') else p.explanation, design_ref='DESIGN.md section 3, %s' % pid),
        level_note='; '.join(p.assumptions),
        technique=p.technique))
m = dict(
    version=1,
    setup_cmd='bin/setup.sh',
    hooks=dict(guard='PRIVATE_PGM_VERIF', enable='no hooks: contracts are sidecar files under /verif/pv/contracts and the repository is read and imported unmodified',
               baseline_off_cmd='cd /repo && /venv/bin/python -m pytest -ra -q -p no:cacheprovider --timeout=900 --continue-on-collection-errors',
               source_commits=[], add_only=True),
    engines=[dict(name='pv', path='pv/', serves_properties=[c['property_id'] for c in checks],
                  kind_free_text='home-grown VC generator over the real Python AST (pv/vc/engine.py) + z3/cvc5; sidecar contracts (pv/contracts); '
                                 'bounded run-time contract tier on the real code (pv/props/*.run_case), labelled bounded')],
    checks=checks,
    notes='Unguarded fix: commits in /repo (genuine defects, see known_findings.json): ' + ', '.join(c[:7] for c in json.load(open('fix_commits.json'))) + '. See DESIGN.md. Every check = deductive tier (obligations from /repo working tree) + bounded tier (same clauses at run time, labelled bounded).',
    not_applicable=na)
json.dump(m, open('MANIFEST.json', 'w'), indent=1)
print('checks', [c['property_id'] for c in checks], 'n/a', [n['property_id'] for n in na])
