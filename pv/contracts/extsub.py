"""Pointwise extended-real contract for Factor.__sub__ (C01 "BP-safe-sub", C10 "no NaN").

Elementwise numpy operations on aligned arrays (alignment is C14's invariant) are abstracted to ONE arbitrary cell whose
value is an extended real: a finite real, -inf, +inf or NaN.  numpy's IEEE rules for the operations the method uses:
    x == -inf            exact test
    -x                   swaps the infinities, keeps NaN
    x + y                NaN if either is NaN or if they are opposite infinities; an infinity absorbs finite values
    np.where(c, a, b)    cellwise choice
Postcondition (from the property: subtracting a message must not turn a structural zero into NaN):
    other == -inf  ->  result == self            (the subtraction is skipped)
    otherwise      ->  result == self - other
    result is NaN only if self is NaN, other is NaN, or both are +inf
"""
import ast
import z3
from ..vc import engine as E

REL = 'src/mbi/factor.py'
R, V, B = E.R, E.V, E.B


class Cell(E.Val):
    """kind: 0 finite, 1 -inf, 2 +inf, 3 NaN"""
    def __init__(self, kind, val):
        self.kind, self.val, self.taint, self.ghost = kind, val, E.FALSE, None


def cell(name):
    k = z3.Int('kind_' + name)
    return Cell(k, z3.Real('val_' + name)), z3.And(k >= 0, k <= 3)


def neg(c):
    return Cell(z3.If(c.kind == 1, 2, z3.If(c.kind == 2, 1, c.kind)), -c.val)


def add(a, b):
    nan = z3.Or(a.kind == 3, b.kind == 3, z3.And(a.kind == 1, b.kind == 2), z3.And(a.kind == 2, b.kind == 1))
    kind = z3.If(nan, 3, z3.If(z3.Or(a.kind == 1, b.kind == 1), 1, z3.If(z3.Or(a.kind == 2, b.kind == 2), 2, 0)))
    return Cell(kind, a.val + b.val)


def const(x):
    return Cell(z3.IntVal(0), z3.RealVal(x))


class CellHooks:
    """Factor objects carry their arbitrary cell in ghost['cell']; `.values` yields it; Factor(dom, cell) wraps one."""
    def attr(self, eng, st, o, name, node):
        if isinstance(o, E.Obj) and o.cls == 'Factor' and name == 'values':
            return o.ghost['cell']
        return NotImplemented

    def call(self, eng, st, name, recv, args, kw, node):
        if name == 'Factor' and len(args) == 2 and isinstance(args[1], Cell):
            return E.Obj(eng.fresh('factor', V), cls='Factor', ghost={'cell': args[1]})
        if name == 'np.where' and len(args) == 3 and isinstance(args[0], E.BoolV):
            a = args[1] if isinstance(args[1], Cell) else const(str(args[1].t)) if isinstance(args[1], E.Num) else None
            b = args[2] if isinstance(args[2], Cell) else const(str(args[2].t)) if isinstance(args[2], E.Num) else None
            if a is None or b is None:
                raise E.Unsupported('np.where operands')
            c = args[0].t
            return Cell(z3.If(c, a.kind, b.kind), z3.If(c, a.val, b.val))
        if name == 'np.isscalar' and len(args) == 1:
            return E.BoolV(z3.BoolVal(not (isinstance(args[0], E.Obj) and args[0].cls == 'Factor')))
        if recv is None and name in ('is_nan', 'is_ninf', 'is_pinf', 'is_finite') and len(args) == 1:
            c = args[0].ghost['cell'] if isinstance(args[0], E.Obj) else args[0]
            k = {'is_finite': 0, 'is_ninf': 1, 'is_pinf': 2, 'is_nan': 3}[name]
            return E.BoolV(c.kind == k)
        if recv is None and name == 'cellval' and len(args) == 1:
            c = args[0].ghost['cell'] if isinstance(args[0], E.Obj) else args[0]
            return E.Num(c.val)
        return NotImplemented

    def unary(self, eng, st, op, v, node):
        if isinstance(v, Cell) and isinstance(op, ast.USub):
            return neg(v)
        return NotImplemented

    def compare(self, eng, st, op, l, r, node):
        # x == -np.inf
        if isinstance(l, Cell) and isinstance(op, ast.Eq) and isinstance(r, E.Obj) and 'neg' in str(r.t) and 'np.inf' in str(r.t):
            return l.kind == 1
        if isinstance(l, Cell) and isinstance(op, ast.Eq) and isinstance(r, E.Ref) and r.name in ('np.inf', 'math.inf'):
            return l.kind == 2
        return NotImplemented

    def binop(self, eng, st, op, l, r, node):
        if isinstance(op, ast.Add) and isinstance(l, E.Obj) and l.cls == 'Factor' and isinstance(r, E.Obj) and r.cls == 'Factor':
            # Factor.__add__ on aligned factors is the cellwise sum (contract of __add__, C14)
            return E.Obj(eng.fresh('sum', V), cls='Factor', ghost={'cell': add(l.ghost['cell'], r.ghost['cell'])})
        if isinstance(l, Cell) and isinstance(r, Cell) and isinstance(op, ast.Add):
            return add(l, r)
        if isinstance(l, E.Num) and isinstance(r, Cell) and isinstance(op, ast.Mult) and z3.is_true(z3.simplify(l.real() == -1)):
            return neg(r)
        return NotImplemented


def _factor(name):
    def mk(eng, n):
        c, wf = cell(name)
        o = E.Obj(z3.Const(n, V), cls='Factor', ghost={'cell': c, 'wf': wf})
        return o
    return mk


SUB = dict(
    params=dict(self=_factor('self'), other=_factor('other')),
    requires=['wf_self', 'wf_other'],
    ensures={'structural-zero-in-other-leaves-self-unchanged':
                 'implies(is_ninf(other__old), (is_finite(result) == is_finite(self)) and (is_ninf(result) == is_ninf(self)) and '
                 '(is_pinf(result) == is_pinf(self)) and (is_nan(result) == is_nan(self)) and cellval(result) == cellval(self))',
             'finite-operands-subtract': 'implies(is_finite(self) and is_finite(other__old), is_finite(result) and cellval(result) == cellval(self) - cellval(other__old))',
             'minus-infinity-persists': 'implies(is_ninf(self) and (is_finite(other__old) or is_ninf(other__old)), is_ninf(result))',
             'nan-only-from-nan-or-inf-minus-inf': 'implies(is_nan(result), is_nan(self) or is_nan(other__old) or (is_pinf(self) and is_pinf(other__old)))'},
)


def module_env():
    c1, w1 = cell('self')
    c2, w2 = cell('other')
    return {'wf_self': E.BoolV(w1), 'wf_other': E.BoolV(w2)}
