"""Which oracle runs (C18 "for every marginal oracle", C16/C17 anchors): LocalInference._setup builds the oracle class and
convexity its `marginal_oracle` name stands for, over the estimator's own domain, the measured cliques and `inner_iters` sweeps;
RegionGraph.__init__ binds `belief_propagation` to the convex (Hazan-Peng-Shashua) resp. the generalised propagation routine
according to that flag."""
from ..vc.sitehooks import SiteSpecHooks

_CTOR = [dict(func=cls, arg=0, name='%s-over-the-estimators-domain' % cls, spec='same(__arg, self.domain)') for cls in ('RegionGraph', 'FactorGraph')] + \
        [dict(func=cls, arg=3, kw='convex', name='%s-convexity-matches-the-oracle-name' % cls,
              spec="same(__arg, self.marginal_oracle == 'convex' or self.marginal_oracle == 'pairwise-convex')") for cls in ('RegionGraph', 'FactorGraph')] + \
        [dict(func=cls, arg=4, kw='iters', name='%s-sweeps-per-call-are-inner_iters' % cls, spec='same(__arg, self.inner_iters)') for cls in ('RegionGraph', 'FactorGraph')]
_BRANCH = [dict(func='if', contains='RegionGraph(self.domain, cliques, total, convex=False', name='approx-builds-a-region-graph', spec="self.marginal_oracle == 'approx'")]

LI_SETUP = dict(params=dict(self='obj:LocalInference', measurements='seq:obj', total='obj:'),
                requires=['total is not None', 'self.backend != "torch"'],
                pure={'sorted': 'seq:obj', 'set': 'obj', 'RegionGraph': 'obj:RegionGraph', 'FactorGraph': 'obj:FactorGraph', 'defaultdict': 'obj', '.size': 'obj',
                      'hasattr': 'bool', 'list': 'obj', 'type': 'obj'},
                mutators={'.combine': None, '.append': None}, division='abort', sites=_CTOR, ensures={})

RG_INIT = dict(params=dict(self='obj:RegionGraph', domain='obj:Domain', cliques='obj:', total='obj:', minimal='obj:', convex='bool', iters='obj:',
                           convergence='obj:', damping='obj:'),
               requires=[], pure={'sorted': 'obj', 'set': 'obj', 'any': 'bool', '.build_graph': 'obj'}, mutators={'.append': None},
               ensures={'convex-flag-selects-hazan-peng-shashua': 'implies(convex, same(self.belief_propagation, self.hazan_peng_shashua))',
                        'otherwise-generalised-propagation': 'implies(not convex, same(self.belief_propagation, self.generalized_belief_propagation))',
                        'total-iters-damping-stored-as-given': 'same(self.total, total) and same(self.iters, iters) and same(self.damping, damping) and same(self.convex, convex)'})
FG_INIT = dict(params=dict(self='obj:FactorGraph', domain='obj:Domain', cliques='seq:obj', total='obj:', convex='bool', iters='obj:'),
               requires=[], pure={'.get_counting_numbers': 'obj', '.init_messages': 'obj', 'len': 'int'}, domain_iterates_attrs=True,
               loops={1: dict(invariant=[]), 2: dict(invariant=[])},
               ensures={'convex-flag-selects-convergent-propagation': 'implies(convex, same(self.belief_propagation, self.convergent_belief_propagation))',
                        'otherwise-loopy-propagation': 'implies(not convex, same(self.belief_propagation, self.loopy_belief_propagation))',
                        'total-iters-convexity-stored-as-given': 'same(self.total, total) and same(self.iters, iters) and same(self.convex, convex) and same(self.domain, domain)'})
ITEMS = [('src/mbi/local_inference.py', 'LocalInference._setup', LI_SETUP), ('src/mbi/region_graph.py', 'RegionGraph.__init__', RG_INIT),
         ('src/mbi/factor_graph.py', 'FactorGraph.__init__', FG_INIT)]


def hooks_for(c):
    return SiteSpecHooks(c.get('sites', []))


def fg_frame_reports():
    """FactorGraph.__init__ is verified with its helper methods treated as leaving the attributes its postcondition speaks about alone."""
    return [frame_report('src/mbi/factor_graph.py', 'FactorGraph.' + m, {'belief_propagation', 'total', 'iters', 'convex', 'domain'})
            for m in ('get_counting_numbers', 'init_messages')]


def frame_report(rel='src/mbi/region_graph.py', q='RegionGraph.build_graph', protected=None):
    """RegionGraph.__init__ is verified with `self.build_graph()` treated as leaving the attributes its postcondition speaks about
    alone; that frame condition is an obligation of its own, decided on build_graph's text: it assigns none of them."""
    import ast, time
    from .. import frontend
    from ..deductive import FunctionReport
    from ..vc.solver import Obligation
    r = FunctionReport(rel, q + ' [frame: leaves the dispatch attributes alone]')
    t0 = time.time()
    try:
        fn, _, sha = frontend.get_function(rel, q)
        r.sha = sha
        protected = set(protected or {'belief_propagation', 'total', 'iters', 'damping', 'convex'})
        hit = sorted({t.attr for n in ast.walk(fn) if isinstance(n, (ast.Assign, ast.AugAssign, ast.AnnAssign))
                      for t in (n.targets if isinstance(n, ast.Assign) else [n.target]) for t in ast.walk(t)
                      if isinstance(t, ast.Attribute) and isinstance(t.value, ast.Name) and t.value.id == 'self' and t.attr in protected} |
                     {n.args[1].value for n in ast.walk(fn) if isinstance(n, ast.Call) and ast.unparse(n.func) == 'setattr' and len(n.args) >= 2
                      and isinstance(n.args[1], ast.Constant) and n.args[1].value in protected})
        o = Obligation('%s::%s/frame#assigns-none-of-%s' % (rel, q, ','.join(sorted(protected))), [], None, function='%s::%s' % (rel, q), kind='frame')
        o.verdict = 'discharged' if not hit else 'refuted'
        o.backend, o.model = 'assignment scan of the function text', ({} if not hit else {'assigned': hit})
        o.meta = {'base': o.name}
        r.obligations = [o]
    except frontend.MissingAnchor as e:
        r.undecided = 'anchor missing: %s' % e
    r.vacuity = []
    r.seconds = time.time() - t0
    return r


def schedule_report():
    """generalized_belief_propagation reads `new[r1, r2]` for the edges in D[ru, rd] while it sweeps `self.message_order`: every such
    edge must have been scheduled EARLIER in the sweep.  build_graph's D sets only hold edges whose source is a strict descendant
    of ru (after the N & D cancellation; argument in DESIGN 3/C16, on paper), i.e. a strictly smaller region, so a schedule that
    visits source regions by non-decreasing size satisfies it.  Decided here on the text of build_graph: the loop that fills
    self.message_order iterates `sorted(<regions>, key=len)`.  Any other iterable leaves the ordering precondition UNDECIDED
    (never a violation: another valid order is conceivable); the bounded tier runs the oracle on region graphs with three levels."""
    import ast, time
    from .. import deductive, frontend
    from ..vc import solver as S
    rel, q = 'src/mbi/region_graph.py', 'RegionGraph.build_graph'
    r = deductive.FunctionReport(rel, q + ' [message schedule visits smaller source regions first]')
    t0 = time.time()
    try:
        fn, _src, sha = frontend.get_function(rel, q)
        loops = [n for n in ast.walk(fn) if isinstance(n, ast.For) and any(
            isinstance(c, ast.Call) and ast.unparse(c.func).replace(' ', '') == 'self.message_order.append' for c in ast.walk(n))]
        outer = [n for n in loops if not any(n is not m and n in ast.walk(m) for m in loops)]
        text = ast.unparse(outer[0].iter).replace(' ', '') if len(outer) == 1 else ''
        ok = text in ('sorted(regions,key=len)', 'sorted(self.regions,key=len)')
        ob = S.Obligation('%s::%s/schedule-iterates-regions-by-nondecreasing-size' % (rel, q), [], None, function='%s::%s' % (rel, q), kind='wiring')
        ob.verdict = 'discharged' if ok else 'unknown'
        ob.backend = 'syntactic (AST match)'
        ob.seconds = 0.0
        ob.reason = '' if ok else 'the loop filling self.message_order iterates %r, not sorted(regions, key=len)' % text[:80]
        ob.meta = {'base': ob.name}
        r.obligations.append(ob)
        r.sha = sha
    except frontend.MissingAnchor as e:
        r.undecided = 'anchor missing: %s' % e
    r.vacuity = []
    r.seconds = time.time() - t0
    return r


# LocalInference.mirror_descent / estimate: what runs and what is stored (C18; the total argument: C09)
_MDA = 'self.mirror_descent_auto(alpha=initial_alpha, iters=self.iters, callback=callback)'
LI_MD = dict(params=dict(self='obj:LocalInference', measurements='obj:', total='obj:', initial_alpha='obj:', callback='obj:'), requires=[],
             pure={'._setup': 'obj', '.mirror_descent_auto': 'obj'}, attr_types={('LocalInference', 'model'): 'obj:'},
             sites=[dict(func='._setup', arg=0, name='setup-on-the-callers-measurements', spec='same(__arg, measurements__old)'),
                    dict(func='._setup', arg=1, kw='total', name='setup-with-the-callers-total', spec='same(__arg, total__old)'),
                    dict(func='.mirror_descent_auto', arg='alpha', name='descent-starts-at-the-given-step', spec='same(__arg, initial_alpha__old)'),
                    dict(func='.mirror_descent_auto', arg='iters', name='descent-runs-the-estimators-iterations', spec='same(__arg, self.iters)'),
                    dict(func='.mirror_descent_auto', arg='callback', name='descent-reports-to-the-callers-callback', spec='same(__arg, callback__old)')],
             ensures={'parameters-of-the-descent-stored': 'same(self.model.potentials, %s[1])' % _MDA,
                      'tables-of-the-descent-stored': 'same(self.model.marginals, %s[2])' % _MDA,
                      'loss-of-the-descent-returned': 'same(result, %s[0])' % _MDA,
                      'one-setup-one-descent': 'ghost("n_site_setup-with-the-callers-total") == 1 and ghost("n_site_descent-runs-the-estimators-iterations") == 1'})
LI_EST = dict(params=dict(self='obj:LocalInference', measurements='obj:', total='obj:', callback='obj:', options='obj:dict'), requires=[],
              pure={'.mirror_descent': 'obj', 'callbacks.Logger': 'obj'}, attr_types={('LocalInference', 'model'): 'obj:', ('LocalInference', 'log'): 'bool'},
              sites=[dict(func='.mirror_descent', arg=0, name='solver-gets-the-callers-measurements', spec='same(__arg, measurements__old)'),
                     dict(func='.mirror_descent', arg=1, kw='total', name='solver-gets-the-callers-total', spec='same(__arg, total__old)')],
              ensures={'the-model-is-returned': 'same(result, self.model)', 'one-solver-run': 'ghost("n_site_solver-gets-the-callers-total") == 1'})
LI_ITEMS = [('src/mbi/local_inference.py', 'LocalInference.mirror_descent', LI_MD), ('src/mbi/local_inference.py', 'LocalInference.estimate', LI_EST)]


# RegionGraph.project / FactorGraph.project, the in-clique path (what LocalInference hands its caller, C18): the answer is the stored
# table of a clique that CONTAINS the requested attributes, projected on exactly the requested tuple (list -> tuple)
_REQ = 'seq_equal(__arg, attrs__old) or same(__arg, tuple(attrs__old))'
RG_PROJECT = dict(params=dict(self='obj:RegionGraph', attrs='seq:obj', maxiter='obj:', alpha='obj:'), requires=[], sequences=True,
                  pure={'set': 'obj:set', 'type': 'obj', 'CliqueVector.from_data': 'obj', 'estimate_kikuchi_marginal': 'obj', 'Factor.uniform': 'obj', 'any': 'bool',
                        'list': 'obj', 'len': 'int', '.project': 'obj', 'sum': 'obj'},
                  sites=[dict(func='if', contains='return self.marginals[cl].project(attrs)', name='answer-only-from-a-clique-that-contains-the-request', spec='set(attrs) <= set(cl)'),
                         dict(func='.project', arg=0, name='projected-on-the-requested-tuple', spec=_REQ)],
                  ensures={})
RG_PROJECT_ITEMS = [('src/mbi/region_graph.py', 'RegionGraph.project', RG_PROJECT)]


def project_hooks(c):
    from .cvec import _SetOrderHooks
    return SiteSpecHooks(c.get('sites', []), inner=_SetOrderHooks(real_dicts=(), vector_dicts=(), sites=()))


def canonical_regions_report():
    """Regions are dictionary keys: two intersections with the same attribute SET must be the same key, or a separator is represented
    twice and its message double counted (C16 exactness, C18).  Decided on build_graph's text: every intersection region added to the
    closure is `tuple(sorted(...))` of a set.  Another spelling: UNDECIDED (it may still be canonical), never a violation."""
    import ast, time
    from .. import deductive, frontend
    from ..vc import solver as S
    rel, q = 'src/mbi/region_graph.py', 'RegionGraph.build_graph'
    r = deductive.FunctionReport(rel, q + ' [intersection regions have one canonical spelling]')
    t0 = time.time()
    try:
        fn, _src, sha = frontend.get_function(rel, q)
        # names added to `regions` inside the closure loop, and how they are built
        added = []
        for n in ast.walk(fn):
            if isinstance(n, ast.Call) and ast.unparse(n.func) in ('regions.update', 'regions.add') and n.args:
                for x in ast.walk(n.args[0]):
                    if isinstance(x, ast.Name):
                        added.append(x.id)
        ok, why = bool(added), 'no region is added to the closure' if not added else ''
        for nm in set(added):
            binds = [a.value for a in ast.walk(fn) if isinstance(a, ast.Assign) for t in a.targets if isinstance(t, ast.Name) and t.id == nm]
            for b in binds:
                txt = ast.unparse(b).replace(' ', '')
                if not (txt.startswith('tuple(sorted(') and txt.endswith('))')):
                    ok, why = False, '`%s = %s` is not tuple(sorted(<set>))' % (nm, ast.unparse(b)[:60])
        ob = S.Obligation('%s::%s/intersection-regions-are-sorted-tuples' % (rel, q), [], None, function='%s::%s' % (rel, q), kind='wiring')
        ob.verdict = 'discharged' if ok else 'unknown'
        ob.backend, ob.seconds, ob.reason = 'syntactic (AST match)', 0.0, why
        ob.meta = {'base': ob.name}
        r.obligations.append(ob)
        r.sha = sha
    except frontend.MissingAnchor as e:
        r.undecided = 'anchor missing: %s' % e
    r.vacuity = []
    r.seconds = time.time() - t0
    return r
