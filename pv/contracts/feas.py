"""RegionGraph.primal_feasibility (C18: "overlapping tables agree up to the feasibility tolerance the estimator enforces").

The tolerance LocalInference enforces is a threshold on this function's value, so what the function measures is part of the
property: the mean, over the parent/child edges of the region graph, of the L1 distance between the parent's table projected on
the child and the child's table.  Site contracts pin the distance (order 1, the two tables of that edge); the mean is the
returned value."""
from ..vc.sitehooks import SiteSpecHooks

FEAS = dict(
    params=dict(self='obj:RegionGraph', mu='obj:dict'), requires=[], division='abort',
    pure={'np.linalg.norm': 'real', '.project': 'obj', '.datavector': 'obj'},
    local_types={'ans': 'real', 'count': 'int', 'err': 'real'},
    sites=[dict(func='np.linalg.norm', arg=1, kw='ord', name='distance-is-L1', spec='__arg == 1'),
           dict(func='np.linalg.norm', arg=0, name='distance-between-projected-parent-and-child',
                spec='same(__arg, mu[r].project(s).datavector() - mu[s].datavector())')],
    loops={1: dict(invariant=['count >= 0', 'ghost("n_site_distance-is-L1") == count']),
           2: dict(invariant=['count >= 0', 'ghost("n_site_distance-is-L1") == count'])},
    ensures={'mean-over-the-edges': 'result == (0 if count == 0 else ans / count)',
             'one-distance-per-edge': 'ghost("n_site_distance-is-L1") == count'},
)
ITEMS = [('src/mbi/region_graph.py', 'RegionGraph.primal_feasibility', FEAS)]


def hooks_for(c):
    return SiteSpecHooks(c.get('sites', []))
