"""Sidecar contracts for mechanisms/aim.py (C05 ledger, C06 flow).

Adjacency: add/remove one record (AIM has no bounded mode: its constructor passes `prng` into the base
class's `bounded` slot, which AIM never reads), so marginal vectors have L1 = L2 sensitivity 1.

Budget postcondition (from the property): at every *normal return* of AIM.run the ledger is <= self.rho,
and Mechanism.__init__ sets self.rho = cdp_rho(epsilon, delta) (0 when delta == 0).

Two facts about the pinned code that the contract states rather than hides:
 * rounds < 0.9 * (#one-way marginals) makes the initial spend exceed rho; the very next statement takes
   np.sqrt of a negative `remaining`, the NaN epsilon reaches prng.choice, which raises before anything further is
   released, and run() never returns.  sqrt='abort' encodes exactly this (rule 2.3(2) of DESIGN.md); the bounded
   tier replays such settings and checks that no output is produced.
 * `1 / (2*0.9*remaining)` divides by a numpy scalar; remaining == 0 gives sigma = inf, epsilon = 0 under
   IEEE arithmetic (nothing is released on that path).  The real-arithmetic proof assumes the divisor non-zero there
   (listed as an unchecked assumption).
"""
import z3
from ..vc import engine as E
from . import mech_common as M

REL = 'mechanisms/aim.py'
S1 = S2 = z3.RealVal(1)
ENV = M.sens_module_env(S1, S2)
ATTR = {('AIM', 'rho'): 'real', ('AIM', 'rounds'): 'int', ('AIM', 'max_model_size'): 'real', ('AIM', 'structural_zeros'): 'obj:dict',
        ('AIM', 'prng'): 'obj:prng'}


class AimHooks(M.MechHooks):
    def init(self, eng, st):
        super().init(eng, st)
        for k, v in self.cfg.get('ghost0', {}).items():
            st.ghost[k] = z3.RealVal(v)

    def call(self, eng, st, name, recv, args, kw, node):
        short = name.split('.')[-1]
        if short == 'exponential_mechanism' and recv is not None and isinstance(recv, E.Obj) and recv.cls == 'AIM':
            # contract of Mechanism.exponential_mechanism (C20): log-odds eps/(2*sensitivity) * (q_i - q_j)
            b = dict(zip(['qualities', 'epsilon', 'sensitivity'], args))
            b.update(kw)
            return self.select(eng, st, b['qualities'], b['epsilon'], b['sensitivity'], node)
        if short == 'gaussian_noise' and recv is not None and isinstance(recv, E.Obj) and recv.cls == 'AIM':
            # contract of Mechanism.gaussian_noise, proved in C20: draws prng.normal(0, sigma, size)
            return self.noise(eng, st, 'normal', [E.Num(z3.RealVal(0)), args[0], args[1]], {}, node)
        return super().call(eng, st, name, recv, args, kw, node)


def hooks_for(contract):
    cfg = dict(sens1=S1, sens2=S2, ghost0=contract.get('ghost0', {}))
    cfg.update(contract.get('hook_cfg', {}))
    return AimHooks(cfg)


def _answers(eng, name):
    return E.Obj(z3.Const(name, E.V), cls='dict', taint=E.TRUE,
                 ghost={'elem_ghost': {'shape': ('privvec', S1, S2)}, 'len_taint': E.FALSE})


# AIM.worst_approximated as a callee; its clause `ledger` is proved on its own body below (WORST): errors[cl] has
# sensitivity |wgt| (L-sens), the declared sensitivity max |wgt| dominates each, Mechanism.exponential_mechanism (C20)
# selects with log-odds eps/(2*declared): eps-DP, i.e. eps^2/8-zCDP (L-dp).
WORST_CALLEE = dict(
    arg_names=['candidates', 'answers', 'model', 'eps', 'sigma'],
    requires=['public(candidates)', 'public(model)', 'public(eps)', 'public(sigma)'],
    ghost_modifies=['ledger_rho', 'ledger_eps'], returns='obj:', returns_public=True,
    ensures={'ledger': 'ghost("ledger_rho") <= ledger_rho__pre + eps*eps/8'},
)

def _answers_param(eng, name):
    return _answers(eng, name)


WORST = dict(
    params=dict(self='obj:AIM', candidates='dict:real', answers=_answers_param, model='obj:model', eps='real', sigma='real'),
    attr_types=ATTR, requires=['eps >= 0'], sqrt='nan',
    local_types={'wgt': 'real'},
    ghost0={'maxsens:errors': 0.0, 'maxval:sensitivity': 0.0},
    # the declared sensitivity (max |wgt|) dominates the sensitivity |wgt| * SENS1 of every score
    loops={1: dict(invariant=['ghost("maxsens:errors") >= 0', 'ghost("maxval:sensitivity") >= 0',
                              'ghost("maxsens:errors") <= SENS1 * ghost("maxval:sensitivity")'])},
    ensures={'ledger': 'ghost("ledger_rho") <= ledger_rho__pre + eps*eps/8'},
)

RUN = dict(
    params=dict(self='obj:AIM', data=M.dataset_param(), W='obj:list'), attr_types=ATTR,
    requires=['ghost("ledger_rho") == 0', 'self.rho >= 0', 'self.rounds >= 0'],
    sqrt='abort', ieee_zero_division_assumed_away=('scaled:remaining',),
    local_types={'t': 'int', 'terminate': 'bool', 'sigma': 'npreal', 'epsilon': 'npreal', 'rho_used': 'npreal', 'cl': 'obj:',
                 'x': 'obj:', 'y': 'obj:', 'n': 'obj:', 'z': 'obj:', 'w': 'obj:', 'Q': 'obj:', 'I': 'obj:', 'remaining': 'npreal',
                 'size_limit': 'obj:', 'small_candidates': 'obj:dict', 'model': 'obj:model'},
    loops={1: dict(invariant=['sigma > 0', 'ghost("ledger_rho") <= _it*0.5/(sigma*sigma)']),
           2: dict(invariant=['sigma > 0', 'epsilon >= 0', 't >= 0', 'ghost("ledger_rho") <= rho_used',
                              'implies(t >= 1, rho_used <= self.rho)', 'implies(terminate, t >= 1)'])},
    ensures={'budget': 'ghost("ledger_rho") <= self.rho'},
)

MECH_INIT = dict(
    params=dict(self='obj:Mechanism', epsilon='real', delta='real', bounded='obj:', prng='obj:'),
    requires=[], ensures={'rho-is-the-converted-budget': 'self.rho == (0 if delta == 0 else cdp_rho(epsilon, delta))'},
)

REG = {'.worst_approximated': WORST_CALLEE}
REG_INIT = {'cdp_rho': M.CDP_RHO}

FUNCTIONS = [('AIM.worst_approximated', WORST, {}), ('AIM.run', RUN, REG)]
EXTRA = [('mechanisms/mechanism.py', 'Mechanism.__init__', MECH_INIT, REG_INIT)]
