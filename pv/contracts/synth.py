"""Sidecar contract for GraphicalModel.synthetic_data's inner synthetic_col (C11): row count of one generated column.

Array values are abstracted to their size and the sum of their entries.  Extern contracts (numpy, assumed; reals for floats):
  (c * a).sum() == c * a.sum();   np.modf(a) = (frac, integ) with frac + integ == a entrywise, hence sums add,
  0 <= frac.sum() < max(1, a.size) for a >= 0, integ.sum() an integer >= 0;
  np.random.choice(n, k, False, p) returns k pairwise distinct indices (ValueError -> path ends otherwise);
  integ[idx] += 1 with distinct idx adds len(idx) to integ.sum();
  np.repeat(np.arange(n), integ) has integ.sum() entries, all in [0, n);  shuffle permutes in place;
  np.random.choice(n, k, True, p) returns k indices.
Postcondition (from the property): the column has exactly `total` rows.
"""
import ast
import z3
from ..vc import engine as E

REL = 'src/mbi/graphical_model.py'
QUAL = 'GraphicalModel.synthetic_data.synthetic_col'
R, I, V = E.R, E.I, E.V


def arr(eng, name, s, n, integer=False, cnt=None):
    return E.Obj(eng.fresh(name, V), cls='ndarray', ghost={'sum': s, 'size': n, 'int': integer, 'count': cnt})


class SynthHooks:
    def attr(self, eng, st, o, name, node):
        if isinstance(o, E.Obj) and o.cls == 'ndarray' and name == 'size':
            return E.Num(o.g('size'))
        return NotImplemented

    def call(self, eng, st, name, recv, args, kw, node):
        short = name.split('.')[-1]
        if recv is not None and isinstance(recv, E.Obj) and recv.cls == 'ndarray':
            if short == 'sum' and not args:
                s = recv.g('sum')
                return E.Num(s, npy=True)
            if short == 'astype':
                return recv
        if recv is None and name == 'veclen' and len(args) == 1:
            return E.Num(args[0].g('len'))
        if name == 'np.modf' and args and isinstance(args[0], E.Obj):
            a = args[0]
            sf, si = eng.fresh('sum_frac', R), eng.fresh('sum_integ', I)
            n = a.g('size')
            st.assume(z3.And(sf + z3.ToReal(si) == a.g('sum'), sf >= 0, si >= 0, z3.Implies(n > 0, sf < z3.ToReal(n)), z3.Implies(n <= 0, sf == 0)))
            return E.Tup([arr(eng, 'frac', sf, n), arr(eng, 'integ', z3.ToReal(si), n, integer=True)])
        if name == 'np.random.choice' and len(args) == 4:
            n, k, replace = args[0], args[1], args[2]
            st.assume(k.real() >= 0)                      # numpy raises ValueError for a negative sample size
            o = E.Obj(eng.fresh('idx', V), cls='ndarray', ghost={'len': k.real(), 'distinct': z3.Not(eng.truth(st, replace)), 'size': n.t})
            return o
        if name == 'np.arange' and len(args) == 1:
            return E.Obj(eng.fresh('arange', V), cls='arange', ghost={'n': args[0].t})
        if name == 'np.repeat' and len(args) == 2 and isinstance(args[0], E.Obj) and args[0].cls == 'arange':
            return E.Obj(eng.fresh('vals', V), cls='ndarray', ghost={'len': args[1].g('sum'), 'size': args[0].g('n')})
        if name == 'np.random.shuffle':
            return E.Const(None)
        return NotImplemented

    def binop(self, eng, st, op, l, r, node):
        for a, b in ((l, r), (r, l)):
            if isinstance(a, E.Obj) and a.cls == 'ndarray' and a.g('sum') is not None and isinstance(b, E.Num):
                if isinstance(op, ast.Mult):
                    return arr(eng, 'scaled', a.g('sum') * b.real(), a.g('size'))
                if isinstance(op, ast.Div) and a is l:
                    return arr(eng, 'scaled', a.g('sum') / b.real(), a.g('size'))
        return NotImplemented

    def setitem(self, eng, st, tgt, o, k, val, node):
        # integ[idx] += 1 : the engine evaluates integ[idx] + 1 and stores it back; with pairwise distinct indices the
        # sum grows by the number of indices (extern contract of numpy fancy-index assignment)
        if isinstance(o, E.Obj) and o.cls == 'ndarray' and isinstance(k, E.Obj) and k.g('len') is not None and isinstance(node, ast.AugAssign) \
                and isinstance(node.op, ast.Add) and isinstance(node.value, ast.Constant) and isinstance(node.value.value, int):
            inc = node.value.value
            eng.oblige(st, 'increment/indices-pairwise-distinct@L%d' % node.lineno, k.g('distinct'), kind='numpy-precondition')
            new = arr(eng, 'integ_inc', o.g('sum') + inc * k.g('len'), o.g('size'), integer=True)
            eng.rebind(st, tgt.value, new)
            return True
        return NotImplemented

    def getitem(self, eng, st, o, k, node):
        if isinstance(o, E.Obj) and o.cls == 'ndarray' and isinstance(k, E.Obj):
            return E.Obj(eng.fresh('picked', V), cls='picked')
        return NotImplemented


def _counts(eng, name):
    s, n = z3.Real('sum_counts'), z3.Int('n_cells')
    return arr(eng, name, s, n)


def contract(method):
    return dict(
        params=dict(counts=_counts, total='int'),
        requires=['total >= 0', 'counts.sum() > 0', 'counts.size >= 1'],
        division='abort',
        ensures={'exactly-the-requested-number-of-rows': 'veclen(result) == total'},
        module_env={'method': E.Const(method)},
        setitem_counts=True,
    )


ITEMS = [(REL, QUAL, contract('round'), 'round'), (REL, QUAL, contract('sample'), 'sample')]
