"""Sidecar contract for GraphicalModel.synthetic_data's inner synthetic_col (C11): row count of one generated column.

Array values are abstracted to their size and the sum of their entries.  Extern contracts (numpy, assumed; reals for floats):
  (c * a).sum() == c * a.sum();   np.modf(a) = (frac, integ) with frac + integ == a entrywise, hence sums add,
  0 <= frac.sum() < max(1, a.size) for a >= 0, integ.sum() an integer >= 0;
  np.random.choice(n, k, False, p) returns k pairwise distinct indices (ValueError -> path ends otherwise);
  integ[idx] += 1 with distinct idx adds len(idx) to integ.sum();
  np.repeat(np.arange(n), integ) has integ.sum() entries, all in [0, n);  shuffle permutes in place;
  np.random.choice(n, k, True, p) returns k indices.
Postcondition (from the property): the column has exactly `total` rows.

ONE-CELL VIEW (added): next to size and sum every array carries its value at ONE arbitrary, fixed cell i (a symbolic index, so
what is proved holds for every cell).  Extern contracts at that cell: scaling multiplies it; np.modf splits it into an integer
part >= 0 and a fraction in [0, 1); np.random.choice never returns an index whose probability is 0 (numpy draws from the support
of p; without replacement it raises when the support is too small); `integ[idx] += 1` with pairwise distinct idx adds 1 at the
cell iff the cell is among idx; np.repeat(np.arange(n), integ) holds value i exactly integ[i] times.
Postconditions (from the property), for both methods: no row falls in a cell of zero mass; for method 'round': the number of rows
in the cell differs from its expected count  counts[i] * total / counts.sum()  by less than 1 - a rounding error that does not
grow with the number of rows.
"""
import ast
import z3
from ..vc import engine as E

REL = 'src/mbi/graphical_model.py'
QUAL = 'GraphicalModel.synthetic_data.synthetic_col'
R, I, V = E.R, E.I, E.V


def arr(eng, name, s, n, integer=False, cnt=None, cell=None):
    return E.Obj(eng.fresh(name, V), cls='ndarray', ghost={'sum': s, 'size': n, 'int': integer, 'count': cnt, 'cell': cell})


CELL_IN, SUM_IN = z3.Real('counts_at_cell_i'), z3.Real('sum_counts')


class SynthHooks:
    def init(self, eng, st):
        # counts >= 0 entrywise (a table of expected counts): the cell is one nonnegative summand of the sum (precondition)
        st.assume(z3.And(CELL_IN >= 0, CELL_IN <= SUM_IN))

    def attr(self, eng, st, o, name, node):
        if isinstance(o, E.Obj) and o.cls == 'ndarray' and name == 'size':
            return E.Num(o.g('size'))
        return NotImplemented

    def call(self, eng, st, name, recv, args, kw, node):
        short = name.split('.')[-1]
        if recv is not None and isinstance(recv, E.Obj) and recv.cls == 'ndarray':
            if short == 'sum' and not args:
                s = recv.g('sum')
                return E.Num(s, npy=True)
            if short == 'astype':
                return recv
        if recv is None and name == 'veclen' and len(args) == 1:
            return E.Num(args[0].g('len'))
        if recv is None and name == 'rows_in_cell' and len(args) == 1:          # spec: how often the result holds the value i
            return E.Num(args[0].g('cellcount'))
        if recv is None and name == 'cell_in' and not args:                      # spec: counts[i] on entry
            return E.Num(CELL_IN, npy=True)
        if recv is None and name == 'sum_in' and not args:                       # spec: counts.sum() on entry
            return E.Num(SUM_IN, npy=True)
        if name == 'np.modf' and args and isinstance(args[0], E.Obj):
            a = args[0]
            sf, si = eng.fresh('sum_frac', R), eng.fresh('sum_integ', I)
            n = a.g('size')
            st.assume(z3.And(sf + z3.ToReal(si) == a.g('sum'), sf >= 0, si >= 0, z3.Implies(n > 0, sf < z3.ToReal(n)), z3.Implies(n <= 0, sf == 0)))
            fc = ic = None
            if a.g('cell') is not None:
                fc, ici = eng.fresh('frac_i', R), eng.fresh('integ_i', I)
                ic = z3.ToReal(ici)
                # entrywise split of a nonnegative number; the cell is one of the summands of the two sums
                st.assume(z3.And(fc + ic == a.g('cell'), fc >= 0, fc < 1, z3.Implies(a.g('cell') >= 0, ici >= 0), fc <= sf, z3.Implies(a.g('cell') >= 0, ic <= z3.ToReal(si))))
            return E.Tup([arr(eng, 'frac', sf, n, cell=fc), arr(eng, 'integ', z3.ToReal(si), n, integer=True, cell=ic)])
        if name == 'np.random.choice' and len(args) == 4:
            n, k, replace = args[0], args[1], args[2]
            st.assume(k.real() >= 0)                      # numpy raises ValueError for a negative sample size
            p = args[3]
            pc = p.g('cell') if isinstance(p, E.Obj) else None
            sel = eng.fresh('cell_i_drawn', z3.BoolSort())           # some returned index equals i
            times = eng.fresh('times_i_drawn', I)                    # how many returned indices equal i
            st.assume(z3.And(times >= 0, (times > 0) == sel, times <= z3.ToInt(k.real()) if k.is_int else times >= 0))
            if pc is not None:
                st.assume(z3.Implies(sel, pc > 0))                   # numpy never draws an index of probability 0
            # (a probability vector the one-cell view knows nothing about leaves the draw unconstrained)
            o = E.Obj(eng.fresh('idx', V), cls='ndarray', ghost={'len': k.real(), 'distinct': z3.Not(eng.truth(st, replace)), 'size': n.t,
                                                                'sel': sel, 'cellcount': z3.ToReal(times)})
            return o
        if name == 'np.arange' and len(args) == 1:
            return E.Obj(eng.fresh('arange', V), cls='arange', ghost={'n': args[0].t})
        if name == 'np.repeat' and len(args) == 2 and isinstance(args[0], E.Obj) and args[0].cls == 'arange':
            return E.Obj(eng.fresh('vals', V), cls='ndarray', ghost={'len': args[1].g('sum'), 'size': args[0].g('n'), 'cellcount': args[1].g('cell')})
        if name == 'np.random.shuffle':
            return E.Const(None)
        return NotImplemented

    def binop(self, eng, st, op, l, r, node):
        for a, b in ((l, r), (r, l)):
            if isinstance(a, E.Obj) and a.cls == 'ndarray' and a.g('sum') is not None and isinstance(b, E.Num):
                c = a.g('cell')
                if isinstance(op, ast.Mult):
                    return arr(eng, 'scaled', a.g('sum') * b.real(), a.g('size'), cell=None if c is None else c * b.real())
                if isinstance(op, ast.Div) and a is l:
                    return arr(eng, 'scaled', a.g('sum') / b.real(), a.g('size'), cell=None if c is None else c / b.real())
                if isinstance(op, ast.Add):
                    return arr(eng, 'shifted', a.g('sum') + z3.ToReal(a.g('size')) * b.real(), a.g('size'), cell=None if c is None else c + b.real())
        return NotImplemented

    def setitem(self, eng, st, tgt, o, k, val, node):
        # integ[idx] += 1 : the engine evaluates integ[idx] + 1 and stores it back; with pairwise distinct indices the
        # sum grows by the number of indices (extern contract of numpy fancy-index assignment)
        if isinstance(o, E.Obj) and o.cls == 'ndarray' and isinstance(k, E.Obj) and k.g('len') is not None and isinstance(node, ast.AugAssign) \
                and isinstance(node.op, ast.Add) and isinstance(node.value, ast.Constant) and isinstance(node.value.value, int):
            inc = node.value.value
            eng.oblige(st, 'increment/indices-pairwise-distinct@L%d' % node.lineno, k.g('distinct'), kind='numpy-precondition')
            c = o.g('cell')
            if c is not None:
                # distinct indices (obliged above): the cell is incremented once iff it is among them
                c = eng.fresh('integ_i_unknown', R) if k.g('sel') is None else c + z3.If(k.g('sel'), z3.RealVal(inc), z3.RealVal(0))
            new = arr(eng, 'integ_inc', o.g('sum') + inc * k.g('len'), o.g('size'), integer=True, cell=c)
            eng.rebind(st, tgt.value, new)
            return True
        return NotImplemented

    def getitem(self, eng, st, o, k, node):
        if isinstance(o, E.Obj) and o.cls == 'ndarray' and isinstance(k, E.Obj):
            return E.Obj(eng.fresh('picked', V), cls='picked')
        return NotImplemented


def _counts(eng, name):
    s, n = SUM_IN, z3.Int('n_cells')
    return arr(eng, name, s, n, cell=CELL_IN)


def contract(method):
    return dict(
        params=dict(counts=_counts, total='int'),
        requires=['total >= 0', 'counts.sum() > 0', 'counts.size >= 1'],
        division='abort',
        ensures=dict({'exactly-the-requested-number-of-rows': 'veclen(result) == total',
                      'no-row-in-a-cell-of-zero-mass': 'implies(cell_in() == 0, rows_in_cell(result) == 0)'},
                     **({'rounding-error-per-cell-below-one': 'abs(rows_in_cell(result) - cell_in() * total / sum_in()) < 1'} if method == 'round' else {})),
        module_env={'method': E.Const(method)},
        setitem_counts=True,
    )


ITEMS = [(REL, QUAL, contract('round'), 'round'), (REL, QUAL, contract('sample'), 'sample')]


def replay(ob):
    """Replay a refuted synthetic_col obligation through the real GraphicalModel.synthetic_data on a one-attribute model (its single
    column is generated by one synthetic_col call): expected counts (0.5, 0.3, 0.2, 0) * rows, rows from the counter-model's `total`
    (default 997); checked: row count, no row in the zero cell, per-cell rounding error < 1 (round mode)."""
    import re
    import numpy as np
    from .. import env
    env.ensure_repo_importable()
    if 'synthetic_col' not in ob.name:
        return None
    rows = 997
    for k, v in (ob.model or {}).items():
        if k == 'total':
            try:
                rows = max(1, min(int(str(v)), 10 ** 6))
            except ValueError:
                pass
    method = 'sample' if '[sample]' in ob.name else 'round'
    from mbi import Domain, Factor, GraphicalModel, CliqueVector
    dom = Domain(['a'], [4])
    p = np.array([0.5, 0.3, 0.2, 0.0])
    model = GraphicalModel(dom, [('a',)], total=float(rows))
    with np.errstate(divide='ignore'):
        model.potentials = CliqueVector({('a',): Factor(dom, np.log(p))})
    model.marginals = model.belief_propagation(model.potentials)
    np.random.seed(11)
    try:
        data = model.synthetic_data(rows=rows, method=method)
    except Exception as e:
        return dict(reproduced=True, inputs=dict(rows=rows, method=method, probabilities=p.tolist()), raised='%s: %s' % (type(e).__name__, e))
    col = np.asarray(data.df['a'].values)
    counts = np.bincount(col, minlength=4)[:4]
    bad_rows = len(col) != rows
    bad_zero = counts[3] != 0
    bad_round = method == 'round' and bool(np.any(np.abs(counts - p * rows) >= 1 - 1e-9))
    return dict(reproduced=bool(bad_rows or bad_zero or bad_round), inputs=dict(rows=rows, method=method, probabilities=p.tolist(), numpy_seed=11),
                generated_rows=int(len(col)), counts=counts.tolist(), expected_counts=(p * rows).tolist())
