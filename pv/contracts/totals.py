"""Sidecar contracts for the total-estimation code (C09), four copies:
   FactoredInference._setup, LocalInference._setup, public_inference.estimate_total, mixture_inference.estimate_total.

From the property statement: a total supplied by the caller is used exactly; otherwise the total is
    max(1, (sum_i e_i / v_i) / (sum_i 1 / v_i)),   e_i = <w_i, y_i>,  v_i = noise_i^2 <w_i, w_i>,
over exactly the measurements whose query can express the overall count (w_i = the solution of Q_i^T w = 1 returned by the
least-squares solver passes the row-space test), and 1 when there is no such measurement.

lsmr / np.dot / np.allclose / np.sum are pure uninterpreted callees: the proof is about which values are combined how,
for every measurement list; that lsmr returns the minimum-norm solution is an ASSUMED extern contract, refuted for the
default maxiter by the bounded tier on the pre-fix tree (see known_findings.json, C09).
"""
from ..vc.sitehooks import SiteSpecHooks

ENV = {}
PURE = {'lsmr': 'obj', 'np.dot': 'real', 'np.allclose': 'bool', 'np.sum': 'real', 'np.ones': 'obj', '.dot': 'obj', 'max': 'real'}
FORMULA = 'max(1, (1.0 / np.sum(1.0 / variances)) * np.sum(estimates / variances))'

# solver options (tolerances, iteration limits) are deliberately not part of the contract
APPEND_SITES = [
    dict(func='np.append', arg=1, name='appended-variance-or-estimate',
         spec='same(__arg, noise**2 * np.dot(v, v)) or same(__arg, np.dot(v, y))'),
    dict(func='lsmr', arg=0, name='solves-the-transposed-system', spec='same(__arg, Q.T)'),
    dict(func='lsmr', arg=1, name='right-hand-side-is-the-ones-vector', spec='same(__arg, np.ones(Q.shape[1]))'),
    # "exactly those measurements whose queries can express the overall count": a measurement contributes exactly when the
    # solver's answer reproduces the ones vector (residual test), not on the solver's own exit status
    dict(func='if', contains='np.append(variances', name='contributes-iff-the-ones-vector-is-reproduced',
         spec='np.allclose(Q.T.dot(v), np.ones(Q.shape[1]))'),
]
COMMON = dict(pure=PURE, unpack_types={'noise': 'real'}, local_types={'variances': 'arr:real', 'estimates': 'arr:real'},
              division='abort', sqrt='nan')


class ModelCtorHooks:
    """The model constructors of _setup: each call yields a fresh object whose `total` attribute is the constructor's third
    argument (the constructor contract `self.total is total` is checked on the three __init__ bodies: pv/ded/C09.py),
    so that the postcondition can say what the INSTALLED model's total is, whichever way the model was obtained."""
    def __init__(self, ctor_names):
        self.ctors = set(ctor_names)

    def call(self, eng, st, name, recv, args, kw, node):
        from ..vc import engine as E
        if recv is None and name in self.ctors and len(args) >= 3:
            o = E.Obj(eng.fresh('built_model', E.V), cls=name)
            st.fields[(str(o.t), 'total')] = args[2]
            return o
        return NotImplemented


def setup_contract(cls, ctor_names):
    sites = list(APPEND_SITES)
    for nm in ctor_names:
        sites.append(dict(func=nm, arg=2, name='model-total',
                          spec='same(__arg, total__old) if total__old is not None else '
                               '(same(__arg, 1) if len(estimates) == 0 else same(__arg, %s))' % FORMULA))
    # the installed model's own total is the total in force (a model kept from an earlier call carries that call's total)
    return dict(COMMON, params=dict(self='obj:' + cls, measurements='seq:obj', total='obj:'), requires=[], sites=sites,
                ctor_names=list(ctor_names),
                uses_locals=['total'],
                ensures={'installed-model-carries-the-total-in-force': 'same(self.model.total, total)'})


EST_TOTAL = dict(COMMON, params=dict(measurements='seq:obj'), requires=[], sites=list(APPEND_SITES),
                 ensures={'formula': 'same(result, 1) if len(estimates) == 0 else same(result, %s)' % FORMULA})

# "a total supplied by the caller is used exactly": estimate() hands its own `total` argument to whichever solver runs
ESTIMATE = dict(params=dict(self='obj:FactoredInference', measurements='obj:', total='obj:', engine='obj:', callback='obj:', options='obj:dict'),
                requires=[], pure={'.fix_measurements': 'obj', 'callbacks.Logger': 'obj'}, attr_types={('FactoredInference', 'log'): 'bool', ('FactoredInference', 'model'): 'obj:'},
                sites=[dict(func='.' + nm, arg=1, kw='total', name='solver-gets-the-callers-total', spec='same(__arg, total__old)')
                       for nm in ('mirror_descent', 'dual_averaging', 'interior_gradient')] +
                      # which solver runs, on what: the engine named by the caller, on the normalised measurement list
                      [dict(func='.' + nm, arg=0, name='solver-gets-the-normalised-measurements', spec='same(__arg, self.fix_measurements(measurements__old))')
                       for nm in ('mirror_descent', 'dual_averaging', 'interior_gradient')] +
                      [dict(func='if', contains='self.%s(measurements, total, **options)' % nm, name='engine-%s-runs-%s' % (eng_, nm), spec="engine == '%s'" % eng_)
                       for eng_, nm in (('MD', 'mirror_descent'), ('RDA', 'dual_averaging'), ('IG', 'interior_gradient'))],
                ensures={'the-model-is-returned': 'same(result, self.model)'})

# the deprecated alias hands every argument on unchanged
INFER = dict(params=dict(self='obj:FactoredInference', measurements='obj:', total='obj:', engine='obj:', callback='obj:', options='obj:dict'),
             requires=[], pure={'.estimate': 'obj', 'warnings.warn': 'obj'},
             sites=[dict(func='.estimate', arg=i, name='infer-hands-on-%s' % nm, spec='same(__arg, %s__old)' % nm)
                    for i, nm in enumerate(('measurements', 'total', 'engine', 'callback', 'options'))],
             ensures={'returns-what-estimate-returns': 'same(result, self.estimate(measurements, total, engine, callback, options))'})

# (file, qualified name, contract)
ITEMS = [
    ('src/mbi/inference.py', 'FactoredInference._setup', setup_contract('FactoredInference', ['GraphicalModel'])),
    ('src/mbi/local_inference.py', 'LocalInference._setup', setup_contract('LocalInference', ['RegionGraph', 'FactorGraph'])),
    ('src/mbi/inference.py', 'FactoredInference.estimate', ESTIMATE),
    ('src/mbi/inference.py', 'FactoredInference.infer', INFER),
    ('src/mbi/public_inference.py', 'estimate_total', EST_TOTAL),
    ('src/mbi/mixture_inference.py', 'estimate_total', EST_TOTAL),
]


def hooks_for(contract):
    inner = ModelCtorHooks(contract['ctor_names']) if contract.get('ctor_names') else None
    return SiteSpecHooks(contract.get('sites', []), inner=inner)
