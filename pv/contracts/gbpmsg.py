"""RegionGraph.generalized_belief_propagation (C16): the parent-to-child message equations of generalised (region-graph) belief
propagation, value-level (pv/vc/linvec.py).  With N, D, B the message sets build_graph attaches to every edge / region:

    candidate   n[ru,rd] = LSE_{ru \\ rd}( pot[ru] + sum_{(a,b) in N[ru,rd]} m[a,b] )  -  sum_{(a,b) in D[ru,rd]} n[a,b],     then centred
    damping     m[ru,rd] <- 0.5 * m[ru,rd] + 0.5 * n[ru,rd]
    belief      b[r]     = potentials[r] + sum_{(a,b) in B[r]} m[a,b],  normalised to self.total, stored as exp

(Yedidia, Freeman, Weiss: parent-to-child algorithm, as implemented.)  Which sets N, D, B are is build_graph's business and is
decided by the bounded exactness clause; here: that the update uses them as the algorithm prescribes."""
from ..vc.linvec import LinHooks

REL = 'src/mbi/region_graph.py'
_B = 'potentials[r] + sum(self.messages[r1, r2] for r1, r2 in self.B[r])'
SITES = [
    dict(container='new', nth=1, of=2, name='candidate-message-equation',
         spec='same(__arg, (pot[ru] + sum(self.messages[r1, r2] for r1, r2 in self.N[ru, rd])).logsumexp(tuple(set(ru) - set(rd))) - sum(new[r1, r2] for r1, r2 in self.D[ru, rd]))'),
    dict(container='new', nth=2, of=2, name='candidate-message-centred', spec='same(__arg, new[ru, rd] - new[ru, rd].logsumexp())'),
    dict(container='self.messages', nth=1, of=1, name='damped-update', spec='same(__arg, 0.5 * self.messages[ru, rd] + 0.5 * new[ru, rd])'),
    dict(container='marginals', nth=1, of=1, name='belief-equation',
         spec='same(__arg, ((%s) + (np.log(self.total) - (%s).logsumexp())).exp())' % (_B, _B)),
]
GBP = dict(
    params=dict(self='obj:RegionGraph', potentials='obj:dict', callback='obj:'),
    attr_types={('RegionGraph', 'total'): 'real', ('RegionGraph', 'iters'): 'int'}, requires=['self.total > 0'], division='abort', numeric_objects=True,
    pure={'tuple': 'obj:tuple', 'set': 'obj:set', 'CliqueVector': 'obj', '.project': 'obj', 'Factor.zeros': 'obj', 'np.log': 'real'},
    uses_locals=['pot', 'new', 'num', 'denom', 'diff', 'marginals', 'belief'],
    sites=SITES, ensures={},
)
ITEM = (REL, 'RegionGraph.generalized_belief_propagation', GBP)


def hooks():
    return LinHooks(real_dicts=(), vector_dicts=('new', 'pot', 'self.messages', 'marginals'), sites=SITES)
