"""Sidecar contracts for mechanisms/adaptive_grid.py (C05 ledger, C06 flow).

Adjacency: add/remove one record.  Budget: rho_1 + rho_2 + rho_3 = rho = cdp_rho(epsilon, delta) for both
split modes; step 1 measures every member of step1_all at most once (counting lemma count_len_lt),
step 2 is the MST-style selection, step 3 measures every selected query once.

ASSUMED (stated in the source as "Q has sensitivity 1 by construction", enforced at every release by the bounded
tier): every stacked query matrix [Q1; Q2] built from get_identity / get_aggregate has column 2-norm <= 1.
ASSUMED AWAY: rho == 0 (delta >= 1) makes the numpy divisions 0.5 / rho_step infinite; nothing finite is released then.
"""
import z3
from ..vc import engine as E
from . import mech_common as M

REL = 'mechanisms/adaptive_grid.py'
S1 = S2 = z3.RealVal(1)
ENV = M.sens_module_env(S1, S2)


class AdaHooks(M.MechHooks):
    def call(self, eng, st, name, recv, args, kw, node):
        if name == 'sparse.vstack':
            tt = E.t_or(*[a.taint for a in args])
            if isinstance(args[0], E.Tup):
                tt = E.t_or(tt, *[x.taint for x in args[0].items])
            eng.note('ASSUMED: stacked query matrix [Q1; Q2] has column 2-norm <= 1 ("sensitivity 1 by construction")')
            return E.Obj(eng.fresh('Q', E.V), cls='matrix', taint=tt, ghost={'colnorm2_le': z3.RealVal(1)})
        return super().call(eng, st, name, recv, args, kw, node)


def hooks_for(contract):
    cfg = dict(sens1=S1, sens2=S2)
    cfg.update(contract.get('hook_cfg', {}))
    return AdaHooks(cfg)


SELECT = dict(
    params=dict(data=M.dataset_param(), model='obj:model', rho='real', targets='obj:list'),
    requires=['rho >= 0'], sqrt='nan', local_types={'idx': 'int'},
    loops={2: dict(invariant=['i >= 0', 'ghost("ledger_rho") <= ledger_rho__pre + i*(epsilon*SENS1)*(epsilon*SENS1)/8'])},
    ensures={'ledger': 'ghost("ledger_rho") <= ledger_rho__pre + SENS1*SENS1*rho'},
)
SELECT_CALLEE = dict(
    arg_names=['data', 'model', 'rho', 'targets'], defaults={'targets': '[]'},
    requires=['rho >= 0', 'public(rho)', 'public(model)', 'public(targets)'],
    ghost_modifies=['ledger_rho', 'ledger_eps'], returns='seq:obj', returns_public=True,
    ensures={'ledger': 'ghost("ledger_rho") <= ledger_rho__pre + SENS1*SENS1*rho'},
)

_C1 = '0.5/(step1_sigma*step1_sigma)'
_C3 = '0.5/(step3_sigma*step3_sigma)'


def adagrid(split_ty):
    req = ['ghost("ledger_rho") == 0']
    if split_ty != 'none':
        req += ['forall(lambda j: split_strategy[j] > 0, 0, 3)']
    return dict(
        params=dict(data=M.dataset_param(), epsilon='real', delta='real', threshold='real', targets='obj:list',
                    split_strategy=split_ty, mbi_args='obj:dict'),
        requires=req, sqrt='nan',
        pure={'downward_closure': 'seq:obj'},
        ieee_zero_division_assumed_away=('rho_step_1', 'rho_step_3'),
        local_types={'k': 'int', 'cl': 'obj:', 'mu': 'obj:', 'y': 'obj:', 'Q': 'obj:', 'Q1': 'obj:', 'Q2': 'obj:', 'I': 'obj:', 'est': 'obj:'},
        loops={
            # outer loop over clique sizes: everything of size < k has been measured (at most) once
            1: dict(invariant=['k >= 1', 'implies(len(step1_all) == 0, ghost("ledger_rho") == 0)',
                               'implies(len(step1_all) > 0, ghost("ledger_rho") <= count_len_lt(step1_all, k)*' + _C1 + ')']),
            # inner loop over the cliques of size k
            3: dict(invariant=['_it <= len(split)', 'implies(len(step1_all) == 0, ghost("ledger_rho") == 0)',
                               'implies(len(step1_all) > 0, ghost("ledger_rho") <= (count_len_lt(step1_all, k) + _it)*' + _C1 + ')']),
            2: dict(invariant=['implies(len(step2_queries) == 0, ghost("ledger_rho") <= rho_step_1 + rho_step_2)',
                               'implies(len(step2_queries) > 0, ghost("ledger_rho") <= rho_step_1 + rho_step_2 + _it*' + _C3 + ')']),
        },
        ensures={'budget': 'ghost("ledger_rho") <= cdp_rho(epsilon, delta)'},
    )


REG = {'cdp_rho': M.CDP_RHO, 'select': SELECT_CALLEE}
FUNCTIONS = [
    ('select', SELECT, {}),
    ('adagrid', adagrid('none'), REG),
    ('adagrid', adagrid('seq:real'), REG),
]
LABELS = ['', 'default split', 'split_strategy given']
