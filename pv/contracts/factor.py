"""Sidecar contracts for src/mbi/factor.py (C14: factor algebra is addressed by attribute name).

Representation invariant of a Factor f (pv/vc/ndlabels.py for the label model of numpy arrays):
    axis p of f.values is labelled f.domain.attrs[p] and has size f.domain.shape[p]
Every operation must re-establish it for its result: the obligations that carry the property are the
preconditions of the Factor constructor and of the numpy calls (moveaxis / broadcast_to / elementwise ops)
at the call sites inside each method.  With the invariant in place, the value-level statement "the result at
assignment x is op(self(x), other(x))" is numpy's elementwise semantics on aligned axes (trusted base).
"""
from . import domain as D
from ..vc.ndlabels import FactorHooks

REL = 'src/mbi/factor.py'
ENV = {}
ATTR = dict(D.ATTR)
ATTR[('Factor', 'domain')] = 'obj:Domain'


def finv(f):
    return ['not flat(%s.values)' % f,
            'len(labels(%s.values)) == len(%s.domain.attrs)' % (f, f),
            'forall(lambda p: same(labels(%s.values)[p], %s.domain.attrs[p]), 0, len(%s.domain.attrs))' % (f, f, f),
            'forall(lambda p: dims(%s.values)[p] == %s.domain.shape[p], 0, len(%s.domain.attrs))' % (f, f, f)] + \
        D.inv('%s.domain' % f) + \
        ['forall(lambda p: real_name(%s.domain.attrs[p]), 0, len(%s.domain.attrs))' % (f, f)]


def finv_named(f, prefix):
    names = ['not-flat', 'one-axis-per-attribute', 'axes-labelled-by-domain-order', 'axis-sizes-from-domain']
    return {'%s:%s' % (prefix, n): t for n, t in zip(names, finv(f)[:4])}


def dom_ok(d):
    return D.inv(d) + ['forall(lambda p: real_name(%s.attrs[p]), 0, len(%s.attrs))' % (d, d)]


BASE = dict(attr_types=ATTR, sequences=True)

AXES_CALLEE = dict(arg_names=['attrs'], returns='seq:int', pure=True,
                   requires=['forall(lambda i: attrs[i] in self.attrs, 0, len(attrs))'],
                   ensures=dict(D.AXES['ensures']))
CONTAINS_CALLEE = dict(arg_names=['other'], returns='bool', pure=True, requires=[], ensures=dict(D.CONTAINS['ensures']))
MERGE_CALLEE = dict(arg_names=['other'], returns='obj:Domain', pure=True, requires=[], ensures=dict(D.MERGE['ensures']))

AGREE = 'forall(lambda i: domain.config[self.domain.attrs[i]] == self.domain.config[self.domain.attrs[i]], 0, len(self.domain.attrs))'

EXPAND = dict(BASE, params=dict(self='obj:Factor', domain='obj:Domain'),
              requires=finv('self') + dom_ok('domain') + [AGREE],
              ensures=dict({'on-the-requested-domain': 'same(result.domain, domain)'}, **finv_named('result', 'result-invariant')))
TRANSPOSE = dict(BASE, params=dict(self='obj:Factor', attrs='seq:obj'),
                 requires=finv('self') + [D.distinct('attrs')],
                 ensures=dict({'axes-in-requested-order': 'seq_equal(result.domain.attrs, attrs)'}, **finv_named('result', 'result-invariant')))

REG = {'.axes': AXES_CALLEE, '.contains': CONTAINS_CALLEE, '.project': D.PROJECT_CALLEE, '.marginalize': D.MARGINALIZE_CALLEE,
       '.merge': MERGE_CALLEE, 'Domain': D.DOMAIN_CALLEE}

FUNCTIONS = [
    ('Factor.expand', EXPAND, REG, ''),
    ('Factor.transpose', TRANSPOSE, REG, ''),
]


def hooks_for(contract):
    return FactorHooks()
