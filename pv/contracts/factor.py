"""Sidecar contracts for src/mbi/factor.py (C14: factor algebra is addressed by attribute name).

Representation invariant of a Factor f (pv/vc/ndlabels.py for the label model of numpy arrays):
    axis p of f.values is labelled f.domain.attrs[p] and has size f.domain.shape[p]
Every operation must re-establish it for its result: the obligations that carry the property are the
preconditions of the Factor constructor and of the numpy calls (moveaxis / broadcast_to / elementwise ops)
at the call sites inside each method.  With the invariant in place, the value-level statement "the result at
assignment x is op(self(x), other(x))" is numpy's elementwise semantics on aligned axes (trusted base).
"""
from . import domain as D
from ..vc.ndlabels import FactorHooks

REL = 'src/mbi/factor.py'
ENV = {}
ATTR = dict(D.ATTR)
ATTR[('Factor', 'domain')] = 'obj:Domain'


def finv(f):
    return ['not flat(%s.values)' % f,
            'len(labels(%s.values)) == len(%s.domain.attrs)' % (f, f),
            'forall(lambda p: same(labels(%s.values)[p], %s.domain.attrs[p]), 0, len(%s.domain.attrs))' % (f, f, f),
            'forall(lambda p: dims(%s.values)[p] == %s.domain.shape[p], 0, len(%s.domain.attrs))' % (f, f, f)] + \
        D.inv('%s.domain' % f) + \
        ['forall(lambda p: real_name(%s.domain.attrs[p]), 0, len(%s.domain.attrs))' % (f, f)]


def finv_named(f, prefix):
    names = ['not-flat', 'one-axis-per-attribute', 'axes-labelled-by-domain-order', 'axis-sizes-from-domain']
    return {'%s:%s' % (prefix, n): t for n, t in zip(names, finv(f)[:4])}


def dom_ok(d):
    return D.inv(d) + ['forall(lambda p: real_name(%s.attrs[p]), 0, len(%s.attrs))' % (d, d)]


BASE = dict(attr_types=ATTR, sequences=True)

AXES_CALLEE = dict(arg_names=['attrs'], returns='seq:int', pure=True,
                   requires=['forall(lambda i: attrs[i] in self.attrs, 0, len(attrs))'],
                   ensures=dict(D.AXES['ensures']))
CONTAINS_CALLEE = dict(arg_names=['other'], returns='bool', pure=True, requires=[], ensures=dict(D.CONTAINS['ensures']))

AGREE = 'forall(lambda i: domain.config[self.domain.attrs[i]] == self.domain.config[self.domain.attrs[i]], 0, len(self.domain.attrs))'

EXPAND = dict(BASE, params=dict(self='obj:Factor', domain='obj:Domain'),
              requires=finv('self') + dom_ok('domain') + [AGREE],
              ensures=dict({'on-the-requested-domain': 'same(result.domain, domain)'}, **finv_named('result', 'result-invariant')))
TRANSPOSE = dict(BASE, params=dict(self='obj:Factor', attrs='seq:obj'),
                 requires=finv('self') + [D.distinct('attrs')],
                 ensures=dict({'axes-in-requested-order': 'seq_equal(result.domain.attrs, attrs)'}, **finv_named('result', 'result-invariant')))

def _bind_domain(argname):
    def bind(eng, st, bound, res, node):
        st.fields[(str(res.t), 'domain')] = bound[argname]
    return bind


EXPAND_CALLEE = dict(arg_names=['domain'], returns='obj:Factor', bind=_bind_domain('domain'),
                     requires=['all_in(self.domain.attrs, domain.attrs)', AGREE] + dom_ok('domain'),
                     ensures=finv_named('result', 'inv'))

# two factors may only be combined if they agree on the sizes of the attributes they share
AGREE_SHARED = ('forall(lambda i: implies(other.domain.attrs[i] in self.domain.attrs, '
                'self.domain.config[other.domain.attrs[i]] == other.domain.config[other.domain.attrs[i]]), 0, len(other.domain.attrs))')
_MERGE_ENS = {k: v for k, v in D.MERGE['ensures'].items() if k != 'size-is-product'}
_MERGE_ENS.update(D.MERGE_RESULT_INVARIANT_ASSUMED)
MERGE_CALLEE = dict(arg_names=['other'], returns='obj:Domain', pure=True, requires=[], ensures=_MERGE_ENS)

_BIN_ENS = dict({'on-the-merged-domain': 'same(result.domain, self.domain.merge(other.domain)) or same(result.domain, self.domain)'},
                **finv_named('result', 'result-invariant'))
BINARY = dict(BASE, params=dict(self='obj:Factor', other='obj:Factor'),
              requires=finv('self') + finv('other') + [AGREE_SHARED], ensures=_BIN_ENS)
def _bind_merged(eng, st, bound, res, node):
    import ast as _ast
    env = dict(bound)
    s2 = st.fork()
    s2.env.update(env)
    eng._spec_mode = getattr(eng, '_spec_mode', 0) + 1
    try:
        dom = eng.ev(s2, _ast.parse('self.domain.merge(other.domain)', mode='eval').body)
    finally:
        eng._spec_mode -= 1
    for f_ in s2.path[len(st.path):]:
        st.assume(f_)
    st.fields[(str(res.t), 'domain')] = dom


BINARY_CALLEE = dict(arg_names=['other'], returns='obj:Factor', requires=[AGREE_SHARED], bind=_bind_merged,
                     ensures=finv_named('result', 'inv'))
DIV = dict(BASE, params=dict(self='obj:Factor', other='obj:Factor'),
           requires=finv('self') + finv('other') + ['all_in(other.domain.attrs, self.domain.attrs)',
                                                    'forall(lambda i: self.domain.config[other.domain.attrs[i]] == other.domain.config[other.domain.attrs[i]], 0, len(other.domain.attrs))'],
           ensures=dict({'on-the-dividend-domain': 'same(result.domain, self.domain)'}, **finv_named('result', 'result-invariant')))
INPLACE = dict(BASE, params=dict(self='obj:Factor', other='obj:Factor'),
               requires=finv('self') + finv('other') + ['all_in(other.domain.attrs, self.domain.attrs)',
                                                        'forall(lambda i: self.domain.config[other.domain.attrs[i]] == other.domain.config[other.domain.attrs[i]], 0, len(other.domain.attrs))'],
               ensures=dict({'same-object': 'same(result, self)'}, **finv_named('self', 'self-invariant-kept')))
UNARY = dict(BASE, params=dict(self='obj:Factor', out='none'), requires=finv('self'),
             ensures=dict({'same-domain': 'same(result.domain, self.domain)'}, **finv_named('result', 'result-invariant')))

def _bind_marginalize(eng, st, bound, res, node):
    """Domain.marginalize's proven clauses (members, coverage, order) determine its result uniquely as the in-order
    selection of self.attrs not in attrs (selection uniqueness, a lemma of the sequence theory).

    When the same method has already removed axes from the values with numpy (np.sum / logsumexp / max over
    axis=self.domain.axes(attrs)), the two selections are related by the LEMMA
        for every position p of self.attrs:   p in axes   <=>   self.attrs[p] in attrs
    which is emitted as an obligation of its own and discharged by the solver from the contract of Domain.axes (axes[k] is a
    position of attrs[k]), distinctness of self.attrs and the membership axioms, with the instances of its two-line paper proof
    supplied as hints (k1 = position of p in axes, k2 = position of self.attrs[p] in attrs).  With the lemma, marginalize's
    result enumerates exactly the positions numpy kept, in the same (increasing) order: it is introduced over numpy's own
    position function, so that the constructor preconditions of Factor(newdom, values) reduce to the invariant of self."""
    from ..vc.arrays import Arr
    selfd, attrs = bound['self'], bound['attrs']
    A = eng.getattr(st, selfd, 'attrs', node)
    S = eng.getattr(st, selfd, 'shape', node)
    if isinstance(attrs, E.Tup):
        attrs = eng.arr_from_tup(attrs)
    keep = lambda e, s, i: z3.Not(e.membership(s, attrs, A.at(e, s, i)))
    idx_filters = [o for (_b, _k, o) in st.__dict__.get('_filters', []) if getattr(o, 'keep_idx', None) is not None and getattr(o, 'axes', 0) is None]
    if idx_filters:
        # basic indexing removed the axes whose index entry is an integer (Factor.condition): the LEMMA
        #     for every position p of self.attrs:   entry p is slice(None)   <=>   self.attrs[p] not in attrs
        # relates numpy's selection to marginalize's; the result is then introduced over numpy's own position function
        out_np = idx_filters[-1]
        keep_np = out_np.keep_idx
        p = eng.fresh('lemma_p', E.I)
        s2 = st.fork()
        s2.assume(z3.And(p >= 0, p < A.n))
        goal = keep_np(eng, s2, p) == keep(eng, s2, p)
        eng.oblige(s2, 'lemma/kept-axis-positions-are-the-positions-of-the-attributes-without-evidence@L%d' % node.lineno, goal, kind='lemma')
        eng.add_qfact(st, lambda e, s, i: z3.Implies(z3.And(i >= 0, i < A.n), keep_np(e, s, i) == keep(e, s, i)), name='lemma:index-positions')
        pos = out_np.pos
        kept = Arr(out_np.n, lambda e, s, j: A.at(e, s, pos(j)), name='kept-attrs')
        kept.pos, kept.inv, kept.src = pos, out_np.inv, A
        st.fields[(str(res.t), 'attrs')] = kept
        st.fields[(str(res.t), 'shape')] = Arr(out_np.n, lambda e, s, j: S.at(e, s, pos(j)), name='kept-shape')
        return
    np_filters = [o for (_b, _k, o) in st.__dict__.get('_filters', []) if getattr(o, 'axes', None) is not None]
    if np_filters:
        out_np = np_filters[-1]
        axes, keep_np = out_np.axes, out_np.keep_idx
        p = eng.fresh('lemma_p', E.I)
        s2 = st.fork()
        s2.assume(z3.And(p >= 0, p < A.n))
        x = A.at(eng, s2, p)
        k1, _m1 = eng.first_index(s2, axes, E.Num(p))
        k2, _m2 = eng.first_index(s2, attrs, x)
        ak2 = axes.at(eng, s2, k2)
        eng.hint_instances(s2, [p, k1, k2, ak2.t if isinstance(ak2, E.Num) else k2])
        goal = keep_np(eng, s2, p) == keep(eng, s2, p)
        eng.oblige(s2, 'lemma/removed-axis-positions-are-the-positions-of-the-marginalised-attributes@L%d' % node.lineno, goal, kind='lemma')
        # the lemma, for use below (instantiated by E-matching wherever a position is mentioned)
        eng.add_qfact(st, lambda e, s, i: z3.Implies(z3.And(i >= 0, i < A.n), keep_np(e, s, i) == keep(e, s, i)), name='lemma:axes-positions')
        pos = out_np.pos
        kept = Arr(out_np.n, lambda e, s, j: A.at(e, s, pos(j)), name='kept-attrs')
        kept.pos, kept.inv, kept.src = pos, out_np.inv, A
        st.assume(out_np.src.n == A.n) if False else None
        st.fields[(str(res.t), 'attrs')] = kept
        st.fields[(str(res.t), 'shape')] = Arr(out_np.n, lambda e, s, j: S.at(e, s, pos(j)), name='kept-shape')
        return
    kept = eng.make_filter(st, A, keep, name='kept-attrs')
    pos = kept.pos
    st.fields[(str(res.t), 'attrs')] = kept
    st.fields[(str(res.t), 'shape')] = Arr(kept.n, lambda e, s, j: S.at(e, s, pos(j)), name='kept-shape')


import z3
from ..vc import engine as E
MARGINALIZE_SELECTION = dict(D.MARGINALIZE_CALLEE, pure=False, bind=_bind_marginalize)

_RED_REQ = ['all_in(attrs, self.domain.attrs)', D.distinct('attrs')]
REDUCE = dict(BASE, params=dict(self='obj:Factor', attrs='seq:obj'), requires=finv('self') + _RED_REQ,
              ensures=dict({'remaining:' + k: (v % dict(r='result.domain.attrs')).replace('self.attrs', 'self.domain.attrs')
                            for k, v in D._COMPLEMENT.items()},
                           **finv_named('result', 'result-invariant')))

_REMAINING = {'remaining:' + k: (v % dict(r='result.domain.attrs')).replace('self.attrs', 'self.domain.attrs') for k, v in D._COMPLEMENT.items()}
_RESULT_FULL = dict(finv_named('result', 'inv'), **dict(D.inv_named('result.domain', 'inv-domain'),
                    **{'inv:real-names': 'forall(lambda p: real_name(result.domain.attrs[p]), 0, len(result.domain.attrs))',
                       'inv:sizes-of-self': 'forall(lambda p: result.domain.config[result.domain.attrs[p]] == self.domain.config[result.domain.attrs[p]], 0, len(result.domain.attrs))'}))
REDUCE = dict(REDUCE, ensures=dict(REDUCE['ensures'], **{k.replace('inv', 'result-invariant', 1): v for k, v in _RESULT_FULL.items() if k not in ('inv:not-flat', 'inv:one-axis-per-attribute', 'inv:axes-labelled-by-domain-order', 'inv:axis-sizes-from-domain')}))
# conditioning on evidence {attribute: value}: the attributes with evidence disappear, the others keep the order of self
# (evidence naming attributes outside the factor is ignored; integer values in range are the caller's business: value level)
CONDITION = dict(BASE, params=dict(self='obj:Factor', evidence='dict:int'), dict_in_is_key_membership=True, domain_iterates_attrs=True,
                 requires=finv('self'),
                 ensures=dict({'remaining:' + k: (v % dict(r='result.domain.attrs')).replace('self.attrs', 'self.domain.attrs').replace(' attrs)', ' evidence.keys())')
                               for k, v in D._COMPLEMENT.items()},
                              **{k.replace('inv', 'result-invariant', 1): v for k, v in _RESULT_FULL.items()}))
# callee contracts of the aggregations and of transpose, as used by Factor.project
REDUCE_CALLEE = dict(arg_names=['attrs'], returns='obj:Factor', requires=list(_RED_REQ), ensures=dict(_REMAINING, **_RESULT_FULL))
TRANSPOSE_CALLEE = dict(arg_names=['attrs'], returns='obj:Factor',
                        requires=['all_in(attrs, self.domain.attrs)', 'all_in(self.domain.attrs, attrs)', D.distinct('attrs')],
                        ensures=dict({'axes-in-requested-order': 'seq_equal(result.domain.attrs, attrs)',
                                      'inv:sizes-of-self': 'forall(lambda p: result.domain.config[attrs[p]] == self.domain.config[attrs[p]], 0, len(attrs))'},
                                     **finv_named('result', 'inv')))
PROJECT = dict(BASE, params=dict(self='obj:Factor', attrs='seq:obj', agg='obj:'),
               requires=finv('self') + ['all_in(attrs, self.domain.attrs)', D.distinct('attrs'), "agg == 'sum' or agg == 'logsumexp'"],
               ensures=dict({'axes-in-requested-order': 'seq_equal(result.domain.attrs, attrs)',
                             'sizes-of-self': 'forall(lambda p: result.domain.config[attrs[p]] == self.domain.config[attrs[p]], 0, len(attrs))'},
                            **finv_named('result', 'result-invariant')))

REG = {'.axes': AXES_CALLEE, '.contains': CONTAINS_CALLEE, '.project': D.PROJECT_CALLEE, '.marginalize': D.MARGINALIZE_CALLEE,
       '.merge': MERGE_CALLEE, 'Domain': D.DOMAIN_CALLEE, '.expand': EXPAND_CALLEE, '.__add__': BINARY_CALLEE}

INVERT_CALLEE = dict(arg_names=['attrs'], returns='seq:obj', pure=True, requires=[],
                     ensures={k: v % dict(r='result') for k, v in D._COMPLEMENT.items()})
REG_RED = dict(REG)
REG_RED['.marginalize'] = MARGINALIZE_SELECTION
REG_RED['.invert'] = INVERT_CALLEE

# Aggregations (sum / logsumexp / max over named axes) and project built on them.  The obligation "numpy's positional axis
# removal yields the attribute order of Domain.marginalize" is carried by the positions-of-attributes LEMMA (an obligation of its
# own, see _bind_marginalize) and by model-based instantiation of the solver's answers (pv/vc/arrays.py: refine).
REG_PROJ = dict(REG)
REG_PROJ.update({'.sum': REDUCE_CALLEE, '.logsumexp': REDUCE_CALLEE, '.transpose': TRANSPOSE_CALLEE})
AGGREGATIONS = [('Factor.condition', CONDITION, REG_RED, 'evidence dict'), ('Factor.sum', REDUCE, REG_RED, 'attribute list'), ('Factor.logsumexp', REDUCE, REG_RED, 'attribute list'),
                ('Factor.max', REDUCE, REG_RED, 'attribute list'), ('Factor.project', PROJECT, REG_PROJ, '')]
STRETCH = AGGREGATIONS

FUNCTIONS = [
    ('Factor.expand', EXPAND, REG, ''),
    ('Factor.transpose', TRANSPOSE, REG, ''),
    ('Factor.__add__', BINARY, REG, ''),
    ('Factor.__mul__', BINARY, REG, ''),
    ('Factor.logaddexp', BINARY, REG, ''),
    ('Factor.__sub__', BINARY, REG, ''),
    ('Factor.__truediv__', DIV, REG, 'divisor domain contained'),
    ('Factor.__iadd__', INPLACE, REG, ''),
    ('Factor.__imul__', INPLACE, REG, ''),
    ('Factor.exp', UNARY, REG, 'out=None'),
    ('Factor.log', UNARY, REG, 'out=None'),
    ('Factor.copy', UNARY, REG, 'out=None'),
] + AGGREGATIONS


def hooks_for(contract):
    return FactorHooks()
