"""Sidecar contracts for src/mbi/inference.py — solver loops (C08 coherence, C10 structural zeros).

Abstract predicates on CliqueVector values (uninterpreted; their algebra below is the *assumed* extended-real
arithmetic of numpy at the level of whole parameter / marginal vectors — listed in the trusted base):

  carries(x)   x has -inf at every declared structural-zero cell and no NaN / +inf anywhere
  finite(x)    every entry of x is a finite real
  zeroed(m)    m (a vector of marginals) has zero mass at every declared cell and no NaN

  A1  carries(a) and finite(b)        ->  carries(a - b), carries(a + b)
  A2  finite(b)                       ->  finite(c * b)            (c a finite scalar)
  A3  zeroed(a) [and zeroed(b)]       ->  zeroed(c * a), zeroed(a + b)
  A4  carries(theta)                  ->  zeroed(BP(theta))       (BP-zero, bounded-checked in C01/C10)
  A5  finite(gradient returned by _marginal_loss)
  A6  x.combine(structural_zeros) : finite(x) or carries(x) before  ->  carries(x) after
  A7  zeros vectors are finite;  A8  finite +- finite is finite

`belief_propagation`, `_marginal_loss`, `mle`, `dot` are pure uninterpreted callees, so the coherence
obligations (stored marginals == BP(stored parameters)) are pure equational reasoning over the real AST.
"""
import ast
import z3
from ..vc import engine as E

REL = 'src/mbi/inference.py'
V, B = E.V, E.B
ENV = {}


def pred(eng, name, v):
    return eng.uf(name, V, B)(eng.to_V(v) if not isinstance(v, E.Bound) else eng.to_V(eng.bound_as_value(None, v)))


class InferHooks:
    def call(self, eng, st, name, recv, args, kw, node):
        short = name.split('.')[-1]
        if recv is None and name in ('carries', 'finite', 'zeroed') and len(args) == 1:
            return E.BoolV(pred(eng, name, args[0]))
        if short == 'zeros' and (recv is not None or name in ('CliqueVector.zeros', 'Factor.zeros')):
            o = E.Obj(eng.fresh('zeros', V), cls='Factor', ghost={'finite': True})
            st.assume(pred(eng, 'finite', o))
            return o
        if name == 'CliqueVector' and len(args) == 1:
            o = E.Obj(eng.fresh('cliquevector', V), cls='CliqueVector')
            eg = (getattr(args[0], 'ghost', None) or {}).get('elem_ghost') or {}
            if eg.get('finite'):
                st.assume(pred(eng, 'finite', o))          # A7
            return o
        return NotImplemented

    def after_pure(self, eng, st, key, res, recv, args):
        if key == '.belief_propagation' and args:
            st.assume(z3.Implies(pred(eng, 'carries', args[0]), pred(eng, 'zeroed', res)))      # A4
        if key == '._marginal_loss':
            g = E.Obj(eng.uf('getitem', V, V, V)(res.t, eng.to_V(E.Num(z3.IntVal(1)))))
            st.assume(pred(eng, 'finite', g))                                                  # A5

    def binop(self, eng, st, op, l, r, node):
        if not (isinstance(l, E.Obj) or isinstance(r, E.Obj)):
            return NotImplemented
        if isinstance(l, (E.Obj, E.Num)) and isinstance(r, (E.Obj, E.Num)):
            name = {ast.Add: 'add', ast.Sub: 'sub', ast.Mult: 'mul', ast.Div: 'div'}.get(type(op))
            if name is None:
                return NotImplemented
            res = E.Obj(eng.uf('op_' + name, V, V, V)(eng.to_V(l), eng.to_V(r)), taint=E.t_or(l.taint, r.taint))
            P = lambda n, v: pred(eng, n, v)
            if name in ('add', 'sub') and isinstance(l, E.Obj) and isinstance(r, E.Obj):
                st.assume(z3.Implies(z3.And(P('carries', l), P('finite', r)), P('carries', res)))       # A1
                st.assume(z3.Implies(z3.And(P('finite', l), P('finite', r)), P('finite', res)))         # A8
                if name == 'add':
                    st.assume(z3.Implies(z3.And(P('carries', r), P('finite', l)), P('carries', res)))
                    st.assume(z3.Implies(z3.And(P('zeroed', l), P('zeroed', r)), P('zeroed', res)))     # A3
            if name in ('mul', 'div'):
                vec = l if isinstance(l, E.Obj) else r
                sc = r if vec is l else l
                if isinstance(sc, E.Num) and not (name == 'div' and vec is r):
                    st.assume(z3.Implies(P('finite', vec), P('finite', res)))                           # A2
                    st.assume(z3.Implies(P('zeroed', vec), P('zeroed', res)))                           # A3
            return res
        return NotImplemented


def _combine(eng, st, recv, args, new, node):
    """A6 for x.combine(self.structural_zeros); combining anything else preserves carries (warm start adds old parameters,
    which are finite or -inf)."""
    P = lambda n, v: pred(eng, n, v)
    arg = args[0]
    is_zeros = isinstance(arg, E.Obj) and 'structural_zeros' in str(arg.t)
    if is_zeros:
        st.assume(z3.Implies(z3.Or(P('finite', recv), P('carries', recv)), P('carries', new)))
    else:
        st.assume(z3.Implies(P('carries', recv), P('carries', new)))


def _setup_effect(eng, st, bound, res, node):
    """Callee contract of _setup as used by the solvers (its parameter part is verified below on its own body):
    self.model is a fresh model whose potentials carry the structural zeros."""
    selfo = bound['self']
    model = E.Obj(eng.fresh('model', V), cls='GraphicalModel')
    pots = E.Obj(eng.fresh('potentials0', V), cls='CliqueVector')
    st.fields[(str(selfo.t), 'model')] = model
    st.fields[(str(model.t), 'potentials')] = pots
    # note: `marginals` is deliberately NOT in st.fields: a fresh model has no such attribute
    st.assume(pred(eng, 'carries', pots))
    return E.Const(None)


SETUP_CALLEE = dict(arg_names=['measurements', 'total'], requires=[], ensures={}, effect=_setup_effect)

PURE = {'.belief_propagation': 'obj', '._marginal_loss': 'obj', '.mle': 'obj', '.dot': 'real', '._lipschitz': 'real',
        'callable': 'bool', 'stepsize': 'real', 'float': 'real'}
ATTR = {('FactoredInference', 'iters'): 'int', ('GraphicalModel', 'total'): 'real'}
COMMON = dict(attr_types=ATTR, pure=PURE, mutators={'.combine': _combine}, sqrt='nan', division='abort')

COHERENT = 'implies(assigned(model, "marginals"), same(model.marginals, model.belief_propagation(model.potentials)))'
REFIT = 'implies(assigned(model, "marginals"), same(model.potentials, model.mle(model.marginals)))'

MD = dict(COMMON,
    params=dict(self='obj:FactoredInference', measurements='obj:list', total='obj:', stepsize='obj:', callback='obj:'),
    local_types={'alpha': 'real'},
    loops={1: dict(invariant=['same(mu, model.belief_propagation(theta))', 'same(ans, self._marginal_loss(mu))', 'carries(theta)']),
           2: dict(invariant=['same(mu, model.belief_propagation(theta))', 'same(ans, self._marginal_loss(mu))',
                              'carries(theta)', 'carries(omega)', 'finite(dL)'])},
    # C03 (Armijo rule shape): a line-search step is accepted exactly when the loss decrease of the candidate computed from
    # omega - alpha*dL is at least 0.5*alpha*<dL, nu - mu_candidate>  (or line search is off)
    sites=[dict(func='if', contains='break', name='C03:armijo-acceptance-test',
                spec='nols or (curr_loss - self._marginal_loss(model.belief_propagation(omega - alpha*dL))[0] >= '
                     '0.5*alpha*dL.dot(nu - model.belief_propagation(omega - alpha*dL)))')],
    ensures={'C08:marginals-are-BP-of-stored-parameters': COHERENT,
             'C10:stored-parameters-carry-structural-zeros': 'carries(model.potentials)',
             'C10:stored-marginals-zero-at-declared-cells': 'implies(assigned(model, "marginals"), zeroed(model.marginals))'})

RDA = dict(COMMON,
    params=dict(self='obj:FactoredInference', measurements='obj:list', total='obj:', lipschitz='none', callback='obj:'),
    loops={1: dict(invariant=['zeroed(w)', 'zeroed(v)', 'finite(gbar)'])},
    ensures={'C08:parameters-refit-from-returned-marginals': REFIT,
             'C10:stored-marginals-zero-at-declared-cells': 'implies(assigned(model, "marginals"), zeroed(model.marginals))'})

IG = dict(COMMON,
    params=dict(self='obj:FactoredInference', measurements='obj:list', total='obj:', lipschitz='none', c='real', sigma='real', callback='obj:'),
    loops={1: dict(invariant=['zeroed(x)', 'zeroed(z)', 'carries(theta)'])},
    ensures={'C08:parameters-refit-from-returned-marginals': REFIT,
             'C10:stored-marginals-zero-at-declared-cells': 'implies(assigned(model, "marginals"), zeroed(model.marginals))'})

REG = {'._setup': SETUP_CALLEE}

# The callee contract above, checked on _setup's own body (known-total path; the total-estimation loop does not touch the
# potentials): the potentials of the model it installs carry the structural zeros on the cold AND the warm-start path.
SETUP_ZEROS = dict(
    attr_types={**ATTR, ('FactoredInference', 'model'): 'obj:GraphicalModel'},
    pure={'sorted': 'seq:obj', 'set': 'obj', 'GraphicalModel': 'obj:GraphicalModel', 'defaultdict': 'obj', '.size': 'obj', 'hasattr': 'bool', 'list': 'obj'},
    mutators={'.combine': _combine, '.append': None}, division='abort',
    params=dict(self='obj:FactoredInference', measurements='seq:obj', total='obj:'),
    requires=['total is not None', 'self.backend != "torch"'],
    ensures={'C10:installed-potentials-carry-structural-zeros': 'carries(self.model.potentials)'})

FUNCTIONS = [
    ('FactoredInference.mirror_descent', MD, REG),
    ('FactoredInference.dual_averaging', RDA, REG),
    ('FactoredInference.interior_gradient', IG, REG),
    ('FactoredInference._setup', SETUP_ZEROS, {}),
]


def hooks_for(contract):
    if contract.get('sites'):
        from ..vc.sitehooks import SiteSpecHooks
        return SiteSpecHooks(contract['sites'], inner=InferHooks())
    return InferHooks()
