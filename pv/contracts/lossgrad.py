"""`_marginal_loss` (FactoredInference and its copy in LocalInference): loss and gradient in the ONE-CELL INSTANCE.

What is proved, for every real Q, x, y, every noise > 0, every number of cliques and of measurements per clique and for both
metrics: when all matrices and vectors are 1x1 (so `A @ B` is the product, `A.T` is A, `.sum()` / `abs` / `sign` act on one
number), the value accumulated into `loss` is

        sum over measurements   0.5 * ((Q x - y) / noise)^2            (metric L2)
                                |Q x - y| / noise                       (metric L1)

and the vector handed to `Factor(mu2.domain, grad)` — the measurement's contribution to the gradient — is its derivative in x

        Q (Q x - y) / noise^2                                           (metric L2)
        Q sign(Q x - y) / noise                                         (metric L1)

This is an instance, not the n-dimensional statement (matrix calculus is outside the verifier; the general statement is decided by
finite differences in the bounded tier).  It is the instance in which every weighting error shows: a lost or doubled 1/noise factor,
a missing 0.5, a transposed sign.  The code is executed symbolically as written; only the meaning of `@`, `.T`, `abs`, `.sum()`,
`np.sign`, `.project`, `.datavector` on one-cell operands is supplied here.
"""
import ast
import z3
from ..vc import engine as E
from ..vc import solver as S

R, V = E.R, E.V
ENV = {}


class OneCellHooks:
    def __init__(self, public=False):
        self.public = public

    def init(self, eng, st):
        st.ghost['L_spec'] = z3.RealVal(0)
        st.ghost['n_grad_sites'] = z3.IntVal(0)

    def loop_item(self, eng, st, itv, k, node):
        if isinstance(node, ast.For) and ast.unparse(node.iter).replace(' ', '') in ('self.groups[cl]', 'self.measurements'):
            q, y, s = eng.fresh('Q', R), eng.fresh('y', R), eng.fresh('noise', R)
            st.assume(s > 0)                                  # "positive noise scales"
            return E.Tup([E.Num(q, npy=True), E.Num(y, npy=True), E.Num(s, npy=True), E.Obj(eng.fresh('proj', V))], 'tuple')
        return NotImplemented

    def attr(self, eng, st, o, name, node):
        if name == 'T' and isinstance(o, E.Num):
            return o                                          # transpose of a 1x1 matrix
        return NotImplemented

    def binop(self, eng, st, op, l, r, node):
        if isinstance(op, ast.MatMult) and isinstance(l, E.Num) and isinstance(r, E.Num):
            return E.Num(l.real() * r.real(), npy=True)       # 1x1 matrix product
        return NotImplemented

    def call(self, eng, st, name, recv, args, kw, node):
        short = name.split('.')[-1]
        if short == 'project' and recv is not None:
            return E.Obj(eng.fresh('mu2', V), cls='Factor', ghost={'projection_of': (recv, args[0] if args else None)})
        if short == 'datavector' and recv is not None:
            # the vector the query matrix multiplies is the clique marginal projected on the measurement's own attribute tuple
            # (also when that tuple is a permutation of the whole clique: Q and y follow the measurement's order)
            src = (getattr(recv, 'ghost', None) or {}).get('projection_of')
            ok = E.FALSE
            if self.public:
                # PublicInference: marginals are keyed by the measurements' own attribute tuples, no projection in between
                if 'marginals' in st.env and 'cl' in st.env:
                    ok = eng.to_V(recv) == eng.to_V(eng.ev(st, ast.parse('marginals[cl]', mode='eval').body))
            elif src is not None and src[1] is not None and 'mu' in st.env and 'proj' in st.env:
                ok = z3.And(eng.to_V(src[0]) == eng.to_V(st.env['mu']), eng.to_V(src[1]) == eng.to_V(st.env['proj']))
            eng.oblige(st, 'site/query-applies-to-marginal-projected-on-the-measurement-attributes@L%d' % node.lineno, ok, kind='call-site')
            return E.Num(eng.fresh('x', R), npy=True)         # the one cell of the projected marginal
        if name == 'abs' and len(args) == 1 and isinstance(args[0], E.Num):
            a = args[0].real()
            return E.Num(z3.If(a >= 0, a, -a), npy=True)
        if short == 'sum' and recv is not None and isinstance(recv, E.Num) and not args:
            return recv                                       # sum of a one-cell vector
        if (name == 'np.sign' and len(args) == 1 and isinstance(args[0], E.Num)) or (short == 'sign' and isinstance(recv, E.Num)):
            a = (args[0] if name == 'np.sign' else recv).real()
            return E.Num(z3.If(a > 0, z3.RealVal(1), z3.If(a < 0, z3.RealVal(-1), z3.RealVal(0))), npy=True)
        if name == 'hasattr':
            return E.BoolV(eng.fresh('hasattr', z3.BoolSort()))
        if short == 'Factor' and len(args) == 2:
            # the measurement's contribution to the gradient: site contract, and the ghost loss advances by the specified term
            env = {'__arg': args[1]}
            metric_l1 = eng.truth(st, eng.ev(st, ast.parse("metric == 'L1'", mode='eval').body))
            for label, cond, gspec, lspec in (
                    ('L2', z3.Not(metric_l1), 'Q * (Q * x - y) / (noise * noise)', '0.5 * ((Q * x - y) / noise) * ((Q * x - y) / noise)'),
                    ('L1', metric_l1, 'Q * (1 if Q * x - y > 0 else (-1 if Q * x - y < 0 else 0)) / noise', 'abs(Q * x - y) / noise')):
                s2 = st.fork()
                s2.assume(cond)
                if S.satisfiable(s2.path) is False:
                    continue
                if not isinstance(args[1], E.Num):
                    eng.oblige(s2, 'site/gradient-contribution-is-a-number-in-the-one-cell-instance[%s]@L%d' % (label, node.lineno), E.FALSE, kind='call-site')
                    continue
                t, facts = eng.spec('__arg == ' + gspec, s2, env, mode='prove')
                for f in facts:
                    s2.assume(f)
                eng.oblige(s2, 'site/gradient-contribution-is-derivative-of-loss-term[%s]@L%d' % (label, node.lineno), t, kind='call-site')
                s3 = st.fork()
                eng._spec_mode = getattr(eng, '_spec_mode', 0) + 1
                try:
                    lt = eng.ev(s3, ast.parse(lspec, mode='eval').body)
                finally:
                    eng._spec_mode -= 1
                st.ghost['L_spec'] = z3.If(cond, st.ghost['L_spec'] + lt.real(), st.ghost['L_spec'])
            st.ghost['n_grad_sites'] = st.ghost['n_grad_sites'] + 1
            return E.Obj(eng.fresh('gradterm', V), cls='Factor')
        return NotImplemented


def _contract(cls):
    return dict(
        params=dict(self='obj:' + cls, marginals='obj:dict', metric='obj:'), uses_locals=['Q', 'x', 'y', 'noise', 'mu', 'proj', 'loss', 'cl'],
        requires=['metric is not None', 'not callable(metric)'],
        pure={'callable': 'bool', 'CliqueVector': 'obj', '.zeros': 'obj'}, division='abort',
        local_types={'loss': 'real'},
        loops={1: dict(invariant=['loss == ghost("L_spec")']), 2: dict(invariant=['loss == ghost("L_spec")'])},
        ensures={'loss-is-the-sum-of-the-specified-terms': 'result[0] == ghost("L_spec")'},
    )


def _contract_public():
    c = _contract('PublicInference')
    c['uses_locals'] = ['Q', 'x', 'y', 'noise', 'mu', 'loss', 'cl']
    c['loops'] = {1: dict(invariant=['loss == ghost("L_spec")'])}
    return c


PUBLIC_ITEMS = [('src/mbi/public_inference.py', 'PublicInference._marginal_loss', _contract_public(), 'C19')]

ITEMS = [('src/mbi/inference.py', 'FactoredInference._marginal_loss', _contract('FactoredInference'), 'C04'),
         ('src/mbi/local_inference.py', 'LocalInference._marginal_loss', _contract('LocalInference'), 'C18')]


def replay(prop, ob):
    """Replay a refuted one-cell obligation on the real method: the counter-model's Q, x, y, noise become 1x1 arrays on a one-cell
    domain; the returned loss is compared with the specified term and the returned gradient with a central finite difference of the
    returned loss (independent of the specification)."""
    if 'one-cell' not in ob.name:
        return None
    import re
    import numpy as np
    from .. import env
    env.ensure_repo_importable()
    from fractions import Fraction

    def val(prefix, default):
        for k, v in (ob.model or {}).items():
            if re.match(r'^%s!\d+$' % prefix, k):
                try:
                    return float(Fraction(str(v).replace('?', '')))
                except (ValueError, ZeroDivisionError):
                    pass
        return default
    Q, x, y, noise = val('Q', 2.0), val('x', 1.0), val('y', 0.5), val('noise', 3.0)
    metric = 'L1' if '[L1]' in ob.name else 'L2'
    local = 'LocalInference' in ob.name
    from mbi import Domain, Factor
    if local:
        from mbi.local_inference import LocalInference as Est
    else:
        from mbi import FactoredInference as Est
    dom = Domain(['a'], [1])
    cl = ('a',)
    if 'PublicInference' in ob.name:
        import pandas as pd
        from mbi import Dataset, PublicInference as Est
        est = Est(Dataset(pd.DataFrame({'a': [0]}), dom), metric=metric)
        est.measurements = [(np.array([[Q]]), np.array([y]), noise, cl)]
    else:
        est = Est(dom, metric=metric)
        est.groups = {cl: [(np.array([[Q]]), np.array([y]), noise, cl)]}

    def run(xv):
        loss, grad = est._marginal_loss({cl: Factor(dom.project(cl), np.array([xv], dtype=float))})
        return float(loss), float(np.asarray(grad[cl].datavector())[0])
    loss, grad = run(x)
    h = 1e-6 * max(1.0, abs(x))
    fd = (run(x + h)[0] - run(x - h)[0]) / (2 * h)
    r = (Q * x - y) / noise
    spec_loss = abs(r) if metric == 'L1' else 0.5 * r * r
    spec_grad = (Q * np.sign(r) / noise) if metric == 'L1' else Q * r / noise
    tol = 1e-4 * (1 + abs(fd) + abs(spec_grad))
    kink = metric == 'L1' and abs(Q * x - y) <= 2 * h * abs(Q)
    bad_grad = (not kink) and abs(grad - fd) > tol
    bad_loss = abs(loss - spec_loss) > 1e-9 * (1 + abs(spec_loss))
    return dict(reproduced=bool(bad_grad or bad_loss), inputs=dict(Q=Q, x=x, y=y, noise=noise, metric=metric, estimator=Est.__name__),
                returned_loss=loss, specified_loss=spec_loss, returned_gradient=grad, finite_difference_of_returned_loss=fd,
                specified_gradient=float(spec_grad))
