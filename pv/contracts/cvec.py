"""CliqueVector arithmetic is clique by clique (C14: "collections of factors combine clique by clique"; the solvers of C03 / C10
compute with these vectors) — ONE-KEY VIEW, value-level (pv/vc/linvec.py).

Every method builds its result with a dict comprehension over the cliques of `self`.  The comprehension is evaluated for ONE
arbitrary clique k of self (a symbolic key, so what is proved holds for every clique); the tables self[k], other[k] are opaque
atoms and values are linear combinations of atoms with real coefficients.  Python semantics used: a dict comprehension over the
keys of a dict (pairwise distinct) yields exactly those keys, each mapped to the element expression evaluated at that key.

    __mul__ / __rmul__ (const):  result[k] = const * self[k]
    zeros / ones / uniform (domain, cliques):  result[k] = Factor.zeros|ones|uniform(domain.project(k)) for exactly the listed cliques
    __add__ (scalar):            result[k] = self[k] + other
    __add__ (vector):            result[k] = self[k] + other[k]
    __sub__:                     result    = self + (-1) * other          (vector level, over the two contracts above)
    exp / log:                   result[k] = self[k].exp() / .log()
and in every case the result has exactly the cliques of self.
"""
import ast
import z3
from ..vc import engine as E
from ..vc.linvec import LinHooks, LinV

REL = 'src/mbi/clique_vector.py'
V = E.V
K = z3.Const('arbitrary_clique_of_self', V)


class CVHooks(LinHooks):
    def __init__(self, over='self'):
        LinHooks.__init__(self, real_dicts=(), vector_dicts=(), sites=())
        self.over = over            # the collection whose members the comprehension ranges over (self, or the `cliques` argument)

    def loop_item(self, eng, st, itv, k, node):
        # the comprehension ranges over the cliques of self: evaluate it at the arbitrary clique
        if isinstance(node, ast.DictComp) and isinstance(itv, E.Obj) and str(itv.t) == self.over:
            g = node.generators
            # exactly the cliques of self: one unfiltered generator over self whose key expression is the loop variable itself
            plain = len(g) == 1 and isinstance(g[0].target, ast.Name) and isinstance(node.key, ast.Name) and node.key.id == g[0].target.id
            # True: exactly the keys of self; False: a filtered selection of them (some clique may be missing); None: a shape this
            # contract does not recognise (inconclusive, never a violation)
            self._keys_of_self = (not g[0].ifs) if plain else None
            self._at_k = True
            return E.Obj(K)
        self._keys_of_self, self._at_k = None, False
        return NotImplemented

    def call(self, eng, st, name, recv, args, kw, node):
        if recv is None and name == 'CliqueVector' and len(args) == 1 and isinstance(args[0], E.Obj) and args[0].cls == 'dict':
            g = args[0].ghost or {}
            shape = getattr(self, '_keys_of_self', None)
            ok = eng.fresh('havoc_comprehension_shape', z3.BoolSort()) if shape is None else (E.TRUE if shape else E.FALSE)
            at_k = g.get('elem') if getattr(self, '_at_k', False) else None      # only a comprehension evaluated AT k says anything about k
            self._keys_of_self, self._at_k = None, False
            return E.Obj(eng.fresh('cliquevector', V), cls='CliqueVector', ghost={'at_k': at_k, 'keys_of_self': ok})
        if recv is None and name == 'at_k' and len(args) == 1:
            v = (getattr(args[0], 'ghost', None) or {}).get('at_k')
            if v is None:
                raise E.Unsupported('result is not a CliqueVector built from a comprehension over self')
            return v
        if recv is None and name == 'k' and not args:
            return E.Obj(K)
        if recv is None and name == 'same_cliques_as_self' and len(args) == 1:
            return E.BoolV((getattr(args[0], 'ghost', None) or {}).get('keys_of_self', E.FALSE))
        if recv is not None and isinstance(recv, E.Obj) and str(recv.t) == 'self' and name == 'keys' and not args:
            return recv                                     # iterating d.keys() is iterating d
        if name == 'np.isscalar' and len(args) == 1:
            return E.BoolV(E.TRUE if isinstance(args[0], E.Num) else E.FALSE)
        return LinHooks.call(self, eng, st, name, recv, args, kw, node)


BASE = dict(division='abort', numeric_objects=True, requires=[])
SAME_KEYS = {'exactly-the-cliques-of-self': 'same_cliques_as_self(result)'}
MUL = dict(BASE, params=dict(self='obj:CliqueVector', const='real'),
           ensures=dict(SAME_KEYS, **{'clique-by-clique:const-times-own-table': 'same(at_k(result), const * self[k()])'}))
ADD_SCALAR = dict(BASE, params=dict(self='obj:CliqueVector', other='real'),
                  ensures=dict(SAME_KEYS, **{'clique-by-clique:own-table-plus-scalar': 'same(at_k(result), self[k()] + other)'}))
ADD_VECTOR = dict(BASE, params=dict(self='obj:CliqueVector', other='obj:CliqueVector'),
                  ensures=dict(SAME_KEYS, **{'clique-by-clique:own-table-plus-others-table-of-the-same-clique': 'same(at_k(result), self[k()] + other[k()])'}))
SUB = dict(BASE, params=dict(self='obj:CliqueVector', other='obj:CliqueVector'),
           ensures={'self-plus-minus-one-times-other': 'same(result, self + (-1) * other)'})
RMUL = dict(BASE, params=dict(self='obj:CliqueVector', const='real'), pure={'.__mul__': 'obj'},
            ensures={'delegates-to-mul-with-the-same-constant': 'same(result, self.__mul__(const))'})
EXP = dict(BASE, params=dict(self='obj:CliqueVector'),
           ensures=dict(SAME_KEYS, **{'clique-by-clique:exp-of-own-table': 'same(at_k(result), self[k()].exp())'}))
LOG = dict(BASE, params=dict(self='obj:CliqueVector'),
           ensures=dict(SAME_KEYS, **{'clique-by-clique:log-of-own-table': 'same(at_k(result), self[k()].log())'}))

# constructors over a list of cliques: one table per listed clique, on the domain projected onto that clique
def _ctor(fn):
    return dict(BASE, params=dict(domain='obj:Domain', cliques='obj:list'), pure={'Factor.zeros': 'obj', 'Factor.ones': 'obj', 'Factor.uniform': 'obj', '.project': 'obj'}, over='cliques',
                ensures={'exactly-the-listed-cliques': 'same_cliques_as_self(result)',
                         'clique-by-clique:%s-table-on-the-projected-domain' % fn: 'same(at_k(result), Factor.%s(domain.project(k())))' % fn})


CTOR_ITEMS = [('CliqueVector.%s' % fn, _ctor(fn), '') for fn in ('zeros', 'ones', 'uniform')]

ITEMS = [('CliqueVector.__mul__', MUL, 'const'), ('CliqueVector.__rmul__', RMUL, 'const'), ('CliqueVector.__add__', ADD_SCALAR, 'scalar'),
         ('CliqueVector.__add__', ADD_VECTOR, 'vector'), ('CliqueVector.__sub__', SUB, ''), ('CliqueVector.exp', EXP, ''), ('CliqueVector.log', LOG, '')]


# combine (warm start, structural zeros): every table of `other` is added to a clique of self that CONTAINS its clique, at most
# once (the `break` right after the update), and nothing else is written.  Site contracts on the real loop body.
COMBINE_SITES = [
    dict(func='[]=', container='self', name='combine:adds-the-others-table-to-the-containing-clique',
         spec='same(__key, cl2) and same(__arg, self[cl2] + other[cl])'),
    dict(func='if', contains='self[cl2] += other[cl]', name='combine:only-into-a-clique-that-contains-the-others-clique', spec='set(cl) <= set(cl2)'),
]
COMBINE = dict(params=dict(self='obj:CliqueVector', other='obj:CliqueVector'), requires=[], division='abort', numeric_objects=True,
               pure={'set': 'obj:set'}, sites=COMBINE_SITES, ensures={})


class _SetOrderHooks(LinHooks):
    """Inclusion between two opaque sets: a <= b and b >= a are the same fact (one uninterpreted relation `subset`)."""
    def compare(self, eng, st, op, l, r, node):
        if isinstance(l, E.Obj) and isinstance(r, E.Obj) and l.cls == 'set' and r.cls == 'set' and isinstance(op, (ast.LtE, ast.GtE)):
            sub = eng.uf('subset', V, V, z3.BoolSort())
            a, b = (l, r) if isinstance(op, ast.LtE) else (r, l)
            return sub(eng.to_V(a), eng.to_V(b))
        return NotImplemented


def combine_hooks():
    from ..vc.sitehooks import SiteSpecHooks
    return SiteSpecHooks(COMBINE_SITES, inner=_SetOrderHooks(real_dicts=(), vector_dicts=(), sites=()))


def combine_break_report():
    """`at most once`: in CliqueVector.combine the in-place update is immediately followed by `break` (decided on the text; any other
    shape leaves the clause UNDECIDED, never a violation)."""
    import time
    from .. import deductive, frontend
    from ..vc import solver as S
    q = 'CliqueVector.combine'
    r = deductive.FunctionReport(REL, q + ' [a table of other is added at most once]')
    t0 = time.time()
    try:
        fn, _src, sha = frontend.get_function(REL, q)
        ok, found = False, 0
        for n in ast.walk(fn):
            for blk in (getattr(n, 'body', None), getattr(n, 'orelse', None)):
                if not isinstance(blk, list):
                    continue
                for i, s_ in enumerate(blk):
                    if isinstance(s_, ast.AugAssign) and isinstance(s_.target, ast.Subscript) and ast.unparse(s_.target.value) == 'self':
                        found += 1
                        ok = i + 1 < len(blk) and isinstance(blk[i + 1], ast.Break)
        ob = S.Obligation('%s::%s/update-is-followed-by-break' % (REL, q), [], None, function='%s::%s' % (REL, q), kind='wiring')
        ob.verdict = 'discharged' if (ok and found == 1) else 'unknown'
        ob.backend, ob.seconds = 'syntactic (AST match)', 0.0
        ob.reason = '' if ob.verdict == 'discharged' else '%d in-place updates of self found; the one update followed by `break` was expected' % found
        ob.meta = {'base': ob.name}
        r.obligations.append(ob)
        r.sha = sha
    except frontend.MissingAnchor as e:
        r.undecided = 'anchor missing: %s' % e
    r.vacuity = []
    r.seconds = time.time() - t0
    return r


def reports():
    from .. import deductive
    reps = [deductive.verify_function(REL, q, c, hooks=CVHooks(c.get('over', 'self')), prefix='%s::%s%s[one-key view]' % (REL, q, '[%s]' % label if label else ''))
            for q, c, label in ITEMS + CTOR_ITEMS]
    reps.append(deductive.verify_function(REL, 'CliqueVector.combine', COMBINE, hooks=combine_hooks(), prefix='%s::CliqueVector.combine[site contracts]' % REL))
    reps.append(combine_break_report())
    return reps


def replay(ob):
    """Replay a refuted CliqueVector obligation on the real class: two cliques with random tables, the scalar from the counter-model
    (default 2.5); the real method's result is compared key by key with the operation applied to the tables with numpy."""
    import re
    import numpy as np
    from .. import env
    env.ensure_repo_importable()
    from fractions import Fraction
    m = re.search(r'CliqueVector\.(__mul__|__rmul__|__add__|__sub__|exp|log|combine)', ob.name)
    if not m:
        return None
    meth = m.group(1)
    c = 2.5
    for k, v in (ob.model or {}).items():
        if re.match(r'^(const|other)$', k):
            try:
                c = float(Fraction(str(v).replace('?', '')))
            except (ValueError, ZeroDivisionError):
                pass
    from mbi import Domain, Factor, CliqueVector
    rng = np.random.RandomState(7)
    dom = Domain(['a', 'b', 'c'], [2, 3, 2])
    cliques = [('a',), ('a', 'b'), ('b', 'c')]
    mk = lambda: CliqueVector({cl: Factor(dom.project(cl), rng.rand(*dom.project(cl).shape) + 0.5) for cl in cliques})
    x, y = mk(), mk()
    scalar = '[scalar]' in ob.name
    try:
        if meth in ('__mul__', '__rmul__'):
            got, exp = getattr(x, meth)(c), {cl: c * x[cl].values for cl in cliques}
        elif meth == '__add__':
            got, exp = (x + c, {cl: x[cl].values + c for cl in cliques}) if scalar else (x + y, {cl: x[cl].values + y[cl].values for cl in cliques})
        elif meth == '__sub__':
            got, exp = x - y, {cl: x[cl].values - y[cl].values for cl in cliques}
        elif meth in ('exp', 'log'):
            got, exp = getattr(x, meth)(), {cl: getattr(np, meth)(x[cl].values) for cl in cliques}
        else:
            # combine: a table on ('a',) goes into the first clique of self that contains it, once
            before = {cl: x[cl].values.copy() for cl in cliques}
            small = CliqueVector({('b',): Factor(dom.project(('b',)), rng.rand(3) + 0.5)})
            x.combine(small)
            got = x
            exp = dict(before)
            exp[('a', 'b')] = before[('a', 'b')] + small[('b',)].values[None, :]
    except Exception as e:
        return dict(reproduced=True, inputs=dict(method=meth, scalar=c), raised='%s: %s' % (type(e).__name__, e))
    bad = [str(cl) for cl in cliques if cl not in got or not np.allclose(np.asarray(got[cl].values, dtype=float), exp[cl], rtol=1e-12, atol=1e-12)]
    extra = [str(cl) for cl in got if cl not in cliques]
    return dict(reproduced=bool(bad or extra), inputs=dict(method=meth, scalar=c, cliques=[list(cl) for cl in cliques], tables='numpy RandomState(7).rand + 0.5'),
                cliques_with_wrong_tables=bad, unexpected_cliques=extra)
