"""Site contracts for GraphicalModel.project (C02 "laid out in the requested attribute order"): whichever path answers the
query (cached clique marginal or variable elimination), the value returned is `<factor>.project(attrs)` with the requested
attribute tuple; Factor.project's own contract (result axes in the requested order) is C14's."""
from ..vc.sitehooks import SiteSpecHooks

REL = 'src/mbi/graphical_model.py'
ENV = {}
PROJECT = dict(
    params=dict(self='obj:GraphicalModel', attrs='obj:'),
    pure={'tuple': 'obj', 'hasattr': 'bool', 'set': 'obj', 'greedy_order': 'obj', 'variable_elimination_logspace': 'obj', 'list': 'obj',
          '.invert': 'obj', '.values': 'obj', 'type': 'obj'},
    requires=[],
    # the scan over the cliques either returns (after one projection) or goes on without having projected anything
    loops={1: dict(invariant=['ghost("n_site_final-projection-onto-the-requested-tuple") == 0'])},
    sites=[dict(func='.project', arg=0, name='final-projection-onto-the-requested-tuple',
                spec='same(__arg, tuple(attrs__old) if type(attrs__old) is list else attrs__old)'),
           dict(func='variable_elimination_logspace', arg=2, name='normalised-to-the-model-total', spec='same(__arg, self.total)'),
           dict(func='.invert', arg=0, name='eliminates-exactly-the-other-attributes',
                spec='same(__arg, tuple(attrs__old) if type(attrs__old) is list else attrs__old)')],
    # whichever path answers, the value handed back went through exactly one `.project(<requested tuple>)`: a path that returns
    # a stored table as it is would hand out that table's own axis order
    ensures={'every-answer-is-a-projection-onto-the-requested-tuple': 'ghost("n_site_final-projection-onto-the-requested-tuple") == 1'},
)
FUNCTIONS = [('GraphicalModel.project', PROJECT, {}, '')]


def hooks_for(contract):
    return SiteSpecHooks(contract.get('sites', []))
