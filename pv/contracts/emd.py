"""The update equations of the two remaining iterative routines, value-level (pv/vc/linvec.py).

public_inference.entropic_mirror_descent (C19):   logQ = logP - alpha * dL,  then shifted by  log(total) - logsumexp(logQ)  (so that
exp(logQ) sums to total),  Q = exp(logQ);  an accepted step installs logQ, its loss and its gradient;  the step doubles while no
step was ever rejected and halves on rejection.

FactorGraph.clique_marginals (C16):   belief(cl) = potential(cl) + sum of the variable-to-factor messages of cl's variables
(scaled by 1/v[cl] for the convex variant), normalised to self.total and stored as exp."""
from ..vc.linvec import LinHooks

EMD_SITES = [
    dict(local='logQ', nth=1, of=2, name='emd:gradient-step-in-log-space', spec='same(__arg, logP - alpha * dL)'),
    dict(local='logQ', nth=2, of=2, name='emd:renormalised-to-the-total', spec='same(__arg, logQ + (np.log(total) - logsumexp(logQ)))'),
    dict(local='Q', nth=1, of=1, name='emd:candidate-weights', spec='same(__arg, np.exp(logQ))'),
    dict(local='logP', nth=2, of=2, name='emd:accepted-step-installs-the-candidate', spec='same(__arg, logQ)'),
    dict(local='alpha', nth=2, of=3, name='emd:step-doubles', spec='__arg == alpha * 2'),
    dict(local='alpha', nth=3, of=3, name='emd:step-halves-on-rejection', spec='__arg == alpha * 0.5'),
]
EMD = dict(params=dict(loss_and_grad='obj:', x0='obj:', total='real', iters='int'), requires=['total > 0'], division='abort', numeric_objects=True,
           pure={'loss_and_grad': 'obj', '.dot': 'real', 'np.nextafter': 'real', 'np.log': 'real'}, local_types={'alpha': 'real', 'begun': 'bool'},
           uses_locals=['logP', 'logQ', 'Q', 'P', 'alpha', 'dL', 'loss', 'new_loss'], sites=EMD_SITES, ensures={})

CM_SITES = [
    dict(local='belief', nth=1, of=3, name='clique-belief:potential-plus-incoming-messages', spec='same(__arg, potentials[cl] + sum(mu_n[n][cl] for n in cl))'),
    dict(local='belief', nth=2, of=3, name='clique-belief:convex-scaling', spec='same(__arg, belief * (1.0 / as_real(v[cl])))'),
    dict(local='belief', nth=3, of=3, name='clique-belief:normalised-to-the-total', spec='same(__arg, belief + (np.log(self.total) - belief.logsumexp()))'),
    dict(container='marginals', nth=1, of=1, name='clique-belief:stored-as-exp', spec='same(__arg, belief.exp())'),
]
CM = dict(params=dict(self='obj:FactorGraph', mu_n='obj:dict', mu_f='obj:dict', potentials='obj:dict'),
          attr_types={('FactorGraph', 'total'): 'real', ('FactorGraph', 'convex'): 'bool'}, requires=['self.total > 0'], division='abort', numeric_objects=True,
          pure={'CliqueVector': 'obj', 'np.log': 'real'}, unpack_types={}, uses_locals=['belief', 'marginals'], sites=CM_SITES, ensures={})

ITEMS = [('src/mbi/public_inference.py', 'entropic_mirror_descent', EMD, EMD_SITES, 'C19'),
         ('src/mbi/factor_graph.py', 'FactorGraph.clique_marginals', CM, CM_SITES, 'C16')]


def hooks(sites):
    return LinHooks(real_dicts=('v',), vector_dicts=('marginals',), sites=sites, tables_are_factors=sites is not EMD_SITES)
