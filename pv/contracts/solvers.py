"""The update equations of the three estimation algorithms (C03: "the model returned ... attains the minimum"), value-level
(pv/vc/linvec.py: parameter / marginal / gradient vectors are opaque atoms, equality of linear combinations over the reals).

mirror descent (Beck & Teboulle)        theta <- omega - alpha * dL            inside the line search, from the iterate omega the
                                                                               outer iteration started with
regularised dual averaging (Xiao 2010)  c = 2/(t+1);  u = (1-c) w + c v;  gbar <- (1-c) gbar + c g(u);
                                        theta <- -t(t+1)/(4L+beta)/total * gbar;  v <- BP(theta);  w <- (1-c) w + c v
interior gradient (Auslender-Teboulle)  a = (sqrt((c l)^2 + 4 c l) - l c)/2;  y = (1-a) x + a z;  c <- c (1-a);
                                        theta <- theta - a/c/total * g(y);  z <- BP(theta);  x <- (1-a) x + a z

That these iterations converge to the constrained optimum is the cited theory (assumed; the bounded tier of C03 certifies the
attained loss); what is proved is that the code performs them: every coefficient, sign and operand of every update."""
from ..vc.linvec import LinHooks

REL = 'src/mbi/inference.py'
_COMMON = dict(attr_types={('FactoredInference', 'iters'): 'int', ('GraphicalModel', 'total'): 'real', ('FactoredInference', 'model'): 'obj:GraphicalModel'},
               division='abort', numeric_objects=True, sqrt='nan',
               pure={'.belief_propagation': 'obj', '._marginal_loss': 'obj', '.mle': 'obj', '._lipschitz': 'real', 'callable': 'bool', 'CliqueVector': 'obj',
                     '.dot': 'real', 'np.isscalar': 'bool', 'float': 'real', '._setup': 'obj'},
               mutators={'.combine': None})

RDA_SITES = [
    dict(local='c', nth=1, of=1, name='rda:mixing-weight', spec='__arg == 2.0 / (t + 1)'),
    dict(local='u', nth=1, of=1, name='rda:query-point', spec='same(__arg, (1 - c) * w + c * v)'),
    dict(local='gbar', nth=2, of=2, name='rda:averaged-gradient', spec='same(__arg, (1 - c) * gbar + c * g)'),
    dict(local='theta', nth=2, of=2, name='rda:parameters-from-the-averaged-gradient', spec='same(__arg, -t * (t + 1) / (4 * L + beta) / self.model.total * gbar)'),
    dict(local='v', nth=2, of=2, name='rda:marginals-of-the-new-parameters', spec='same(__arg, model.belief_propagation(theta))'),
    dict(local='w', nth=2, of=2, name='rda:averaged-iterate', spec='same(__arg, (1 - c) * w + c * v)'),
]
RDA = dict(_COMMON, params=dict(self='obj:FactoredInference', measurements='obj:list', total='obj:', lipschitz='none', callback='obj:'),
           requires=[], local_types={}, uses_locals=['c', 'u', 'gbar', 'theta', 'v', 'w', 'g', 'L', 'beta', 't'], sites=RDA_SITES, ensures={})

IG_SITES = [
    dict(local='a', nth=1, of=1, name='ig:step', spec='__arg * 2 == np.sqrt((c * l) ** 2 + 4 * c * l) - l * c'),
    dict(local='y', nth=2, of=2, name='ig:query-point', spec='same(__arg, (1 - a) * x + a * z)'),
    dict(local='c', nth=1, of=1, name='ig:shrinking-factor', spec='__arg == c * (1 - a)'),
    dict(local='theta', nth=2, of=2, name='ig:gradient-step-on-the-parameters', spec='same(__arg, theta - a / c / total * g)'),
    dict(local='z', nth=2, of=2, name='ig:marginals-of-the-new-parameters', spec='same(__arg, model.belief_propagation(theta))'),
    dict(local='x', nth=2, of=2, name='ig:averaged-iterate', spec='same(__arg, (1 - a) * x + a * z)'),
]
IG = dict(_COMMON, params=dict(self='obj:FactoredInference', measurements='obj:list', total='obj:', lipschitz='none', c='real', sigma='real', callback='obj:'),
          requires=[], local_types={}, uses_locals=['a', 'x', 'y', 'z', 'theta', 'g', 'l', 'L'], sites=IG_SITES, ensures={})

MD_SITES = [
    dict(local='theta', nth=2, of=2, name='md:step-from-the-iterate-the-iteration-started-with', spec='same(__arg, omega - alpha * dL)'),
    dict(local='mu', nth=2, of=2, name='md:marginals-of-the-candidate', spec='same(__arg, model.belief_propagation(theta))'),
    dict(local='omega', nth=1, of=1, name='md:iteration-starts-from-the-current-parameters', spec='same(__arg, theta)'),
]
MD = dict(_COMMON, params=dict(self='obj:FactoredInference', measurements='obj:list', total='obj:', stepsize='obj:', callback='obj:'),
          requires=[], local_types={'alpha': 'real'}, uses_locals=['theta', 'omega', 'dL', 'alpha', 'mu', 'nu'], sites=MD_SITES, ensures={})

ITEMS = [('FactoredInference.dual_averaging', RDA, RDA_SITES), ('FactoredInference.interior_gradient', IG, IG_SITES), ('FactoredInference.mirror_descent', MD, MD_SITES)]


def hooks(sites):
    return LinHooks(real_dicts=(), vector_dicts=(), sites=sites)
