"""Bulk and Kronecker-product queries (C02), value-level (pv/vc/linvec.py: tables are opaque atoms, table operations deterministic
uninterpreted maps, scalars real).

GraphicalModel.calculate_many_marginals (Koller & Friedman 10.3):
    conditional[(Cj, Ci)] = marginals[Cj] / marginals[Cj].project(sep[(Cj, Ci)])             for neighbouring cliques
    results[(Ci, Cj)] = results[(Cj, Ci)] = marginals[Ci] * conditional[(Cj, Cl)]              if the predecessor Cl of Cj is Ci
                                          = (results[(Ci, Cl)] * conditional[(Cj, Cl)]).sum(set(Cl) - set(Ci) - set(Cj))   otherwise
    answers[proj] = results[attr].project(proj)   only for a key attr with set(proj) <= set(attr);  self.project(proj) otherwise
  and the marginals it works from are belief_propagation(self.potentials).
  (That these equations yield the pairwise joint marginals is the textbook argument - assumed; the bounded tier compares every
  answer with the explicit joint.)

GraphicalModel.krondot:
    the factors are exp(potentials[cl]) for the model's cliques plus, for the i-th attribute of the domain, the i-th matrix as a
    factor over ('<attr>-answer', attr);  the attributes of the domain are eliminated;  the answer axes are put in domain order;
    the result is scaled by total / exp(logZ) with logZ = belief_propagation(self.potentials, logZ=True).
"""
from ..vc.linvec import LinHooks

REL = 'src/mbi/graphical_model.py'

CMM_SITES = [
    dict(container='conditional', nth=1, of=1, name='bulk:conditional-of-a-clique-given-its-separator',
         spec='same(__arg, self.marginals[Cj] / self.marginals[Cj].project(sep[(Cj, Ci)]))'),
    dict(container='results', nth=1, of=4, name='bulk:adjacent-cliques:marginal-times-conditional', spec='same(__arg, self.marginals[Ci] * conditional[(Cj, pred[Ci][Cj])])'),
    dict(container='results', nth=2, of=4, name='bulk:adjacent-cliques:stored-under-both-orders', spec='same(__arg, results[(Ci, Cj)])'),
    dict(container='results', nth=3, of=4, name='bulk:distant-cliques:chained-through-the-predecessor',
         spec='same(__arg, (results[(Ci, pred[Ci][Cj])] * conditional[(Cj, pred[Ci][Cj])]).sum(set(pred[Ci][Cj]) - set(Ci) - set(Cj)))'),
    dict(container='results', nth=4, of=4, name='bulk:distant-cliques:stored-under-both-orders', spec='same(__arg, results[(Ci, Cj)])'),
    dict(container='answers', nth=1, of=2, name='bulk:answer-projected-from-a-covering-pairwise-marginal', spec='same(__arg, results[attr].project(proj))'),
    dict(container='answers', nth=2, of=2, name='bulk:otherwise-the-single-query-path', spec='same(__arg, self.project(proj))'),
]
CMM = dict(params=dict(self='obj:GraphicalModel', projections='obj:list'), requires=[], division='abort', numeric_objects=True,
           pure={'.belief_propagation': 'obj', 'nx.floyd_warshall_predecessor_and_distance': 'obj', 'sorted': 'obj', 'itertools.combinations': 'obj', 'set': 'obj:set',
                 '.project': 'obj', '.canonical': 'obj'},
           uses_locals=['conditional', 'results', 'answers', 'sep', 'pred', 'Ci', 'Cj', 'attr', 'proj'], sites=CMM_SITES,
           ensures={'works-from-the-marginals-of-the-stored-parameters': 'same(self.marginals, self.belief_propagation(self.potentials))'})

KRON_SITES = [
    dict(local='logZ', nth=1, of=1, name='kron:log-partition-function-of-the-stored-parameters', spec='__arg == self.belief_propagation(self.potentials, logZ=True)'),
    dict(local='elim', nth=1, of=1, name='kron:the-attributes-of-the-domain-are-eliminated', spec='same(__arg, self.domain.attrs)'),
    dict(local='d', nth=1, of=1, name='kron:query-factor-over-answer-axis-and-attribute', spec="same(__arg, Domain(['%s-answer' % attr, attr], Q.shape))"),
    dict(local='result', nth=1, of=2, name='kron:variable-elimination-over-potentials-and-query-factors', spec='same(__arg, variable_elimination(factors, elim))'),
    dict(local='result', nth=2, of=2, name='kron:answer-axes-in-domain-order', spec="same(__arg, result.transpose(['%s-answer' % a for a in elim]))"),
]
KRON = dict(params=dict(self='obj:GraphicalModel', matrices='obj:list'), requires=[], division='abort', numeric_objects=True, result_name='returned',
            pure={'.belief_propagation': 'real', 'all': 'bool', 'zip': 'obj', 'type': 'obj', 'Domain': 'obj', 'variable_elimination': 'obj', '.transpose': 'obj',
                  '.datavector': 'obj', 'np.exp': 'real'},
            mutators={'.append': None}, attr_types={('GraphicalModel', 'total'): 'real'},
            uses_locals=['logZ', 'result', 'factors', 'elim', 'd', 'attr', 'Q'], sites=KRON_SITES,
            ensures={'kron:answers-scaled-by-total-over-the-partition-function':
                     'same(returned, result.datavector(flatten=False) * (self.total / np.exp(logZ)))'})

ITEMS = [(REL, 'GraphicalModel.calculate_many_marginals', CMM, CMM_SITES), (REL, 'GraphicalModel.krondot', KRON, KRON_SITES)]


BRANCH_SITES = [
    dict(func='if', contains='answers[proj] = results[attr].project(proj)', name='bulk:a-pairwise-marginal-answers-only-the-projections-it-covers', spec='set(proj) <= set(attr)'),
    dict(func='if', contains='X = self.marginals[Ci]', name='bulk:adjacent-means-the-predecessor-is-the-other-clique', spec='pred[Ci][Cj] == Ci'),
]


def hooks(sites):
    from ..vc.sitehooks import SiteSpecHooks
    from .cvec import _SetOrderHooks
    inner = _SetOrderHooks(real_dicts=(), vector_dicts=('conditional', 'results', 'answers'), sites=sites)
    if sites is CMM_SITES:
        return SiteSpecHooks(BRANCH_SITES, inner=inner)
    return inner
