"""Bulk and Kronecker-product queries (C02), value-level (pv/vc/linvec.py: tables are opaque atoms, table operations deterministic
uninterpreted maps, scalars real).

GraphicalModel.calculate_many_marginals (Koller & Friedman 10.3):
    conditional[(Cj, Ci)] = marginals[Cj] / marginals[Cj].project(sep[(Cj, Ci)])             for neighbouring cliques
    results[(Ci, Cj)] = results[(Cj, Ci)] = marginals[Ci] * conditional[(Cj, Cl)]              if the predecessor Cl of Cj is Ci
                                          = (results[(Ci, Cl)] * conditional[(Cj, Cl)]).sum(set(Cl) - set(Ci) - set(Cj))   otherwise
    answers[proj] = results[attr].project(proj)   only for a key attr with set(proj) <= set(attr);  self.project(proj) otherwise
  and the marginals it works from are belief_propagation(self.potentials).
  (That these equations yield the pairwise joint marginals is the textbook argument - assumed; the bounded tier compares every
  answer with the explicit joint.)

GraphicalModel.krondot:
    the factors are exp(potentials[cl]) for the model's cliques plus, for the i-th attribute of the domain, the i-th matrix as a
    factor over ('<attr>-answer', attr);  the attributes of the domain are eliminated;  the answer axes are put in domain order;
    the result is scaled by total / exp(logZ) with logZ = belief_propagation(self.potentials, logZ=True).
"""
from ..vc.linvec import LinHooks

REL = 'src/mbi/graphical_model.py'

CMM_SITES = [
    dict(container='conditional', nth=1, of=1, name='bulk:conditional-of-a-clique-given-its-separator',
         spec='same(__arg, self.marginals[Cj] / self.marginals[Cj].project(sep[(Cj, Ci)]))'),
    dict(container='results', nth=1, of=4, name='bulk:adjacent-cliques:marginal-times-conditional', spec='same(__arg, self.marginals[Ci] * conditional[(Cj, pred[Ci][Cj])])'),
    dict(container='results', nth=2, of=4, name='bulk:adjacent-cliques:stored-under-both-orders', spec='same(__arg, results[(Ci, Cj)])'),
    dict(container='results', nth=3, of=4, name='bulk:distant-cliques:chained-through-the-predecessor',
         spec='same(__arg, (results[(Ci, pred[Ci][Cj])] * conditional[(Cj, pred[Ci][Cj])]).sum(set(pred[Ci][Cj]) - set(Ci) - set(Cj)))'),
    dict(container='results', nth=4, of=4, name='bulk:distant-cliques:stored-under-both-orders', spec='same(__arg, results[(Ci, Cj)])'),
    dict(container='answers', nth=1, of=2, name='bulk:answer-projected-from-a-covering-pairwise-marginal', spec='same(__arg, results[attr].project(proj))'),
    dict(container='answers', nth=2, of=2, name='bulk:otherwise-the-single-query-path', spec='same(__arg, self.project(proj))'),
]
CMM = dict(params=dict(self='obj:GraphicalModel', projections='obj:list'), requires=[], division='abort', numeric_objects=True,
           pure={'.belief_propagation': 'obj', 'nx.floyd_warshall_predecessor_and_distance': 'obj', 'sorted': 'obj', 'itertools.combinations': 'obj', 'set': 'obj:set',
                 '.project': 'obj', '.canonical': 'obj'},
           uses_locals=['conditional', 'results', 'answers', 'sep', 'pred', 'Ci', 'Cj', 'attr', 'proj'], sites=CMM_SITES,
           ensures={'works-from-the-marginals-of-the-stored-parameters': 'same(self.marginals, self.belief_propagation(self.potentials))'})

KRON_SITES = [
    dict(local='logZ', nth=1, of=1, name='kron:log-partition-function-of-the-stored-parameters', spec='__arg == self.belief_propagation(self.potentials, logZ=True)'),
    dict(local='elim', nth=1, of=1, name='kron:the-attributes-of-the-domain-are-eliminated', spec='same(__arg, self.domain.attrs)'),
    dict(local='d', nth=1, of=1, name='kron:query-factor-over-answer-axis-and-attribute', spec="same(__arg, Domain(['%s-answer' % attr, attr], Q.shape))"),
    dict(local='result', nth=1, of=2, name='kron:variable-elimination-over-potentials-and-query-factors', spec='same(__arg, variable_elimination(factors, elim))'),
    dict(local='result', nth=2, of=2, name='kron:answer-axes-in-domain-order', spec="same(__arg, result.transpose(['%s-answer' % a for a in elim]))"),
]
KRON = dict(params=dict(self='obj:GraphicalModel', matrices='obj:list'), requires=[], division='abort', numeric_objects=True, result_name='returned',
            pure={'.belief_propagation': 'real', 'all': 'bool', 'zip': 'obj', 'type': 'obj', 'Domain': 'obj', 'variable_elimination': 'obj', '.transpose': 'obj',
                  '.datavector': 'obj', 'np.exp': 'real'},
            mutators={'.append': None}, attr_types={('GraphicalModel', 'total'): 'real'},
            uses_locals=['logZ', 'result', 'factors', 'elim', 'd', 'attr', 'Q'], sites=KRON_SITES,
            ensures={'kron:answers-scaled-by-total-over-the-partition-function':
                     'same(returned, result.datavector(flatten=False) * (self.total / np.exp(logZ)))'})

ITEMS = [(REL, 'GraphicalModel.calculate_many_marginals', CMM, CMM_SITES), (REL, 'GraphicalModel.krondot', KRON, KRON_SITES)]


BRANCH_SITES = [
    dict(func='if', contains='answers[proj] = results[attr].project(proj)', name='bulk:a-pairwise-marginal-answers-only-the-projections-it-covers', spec='set(proj) <= set(attr)'),
    dict(func='if', contains='X = self.marginals[Ci]', name='bulk:adjacent-means-the-predecessor-is-the-other-clique', spec='pred[Ci][Cj] == Ci'),
]


def hooks(sites):
    from ..vc.sitehooks import SiteSpecHooks
    from .cvec import _SetOrderHooks
    inner = _SetOrderHooks(real_dicts=(), vector_dicts=('conditional', 'results', 'answers'), sites=sites)
    if sites is CMM_SITES:
        return SiteSpecHooks(BRANCH_SITES, inner=inner)
    return inner


def replay(ob):
    """Native replay of refuted krondot / calculate_many_marginals obligations: a chain model a-b, b-c, c-d with random potentials and
    total 50; every pairwise bulk answer and a Kronecker-product query with random matrices are compared with the explicit joint."""
    if not any(k in ob.name for k in ('krondot', 'calculate_many_marginals')):
        return None
    import itertools
    import numpy as np
    from .. import env
    env.ensure_repo_importable()
    from mbi import Domain, Factor, GraphicalModel, CliqueVector
    rng = np.random.RandomState(5)
    attrs, shape = ['a', 'b', 'c', 'd'], [2, 3, 2, 3]
    dom = Domain(attrs, shape)
    cliques = [('a', 'b'), ('b', 'c'), ('c', 'd')]
    total = 50.0
    model = GraphicalModel(dom, cliques, total=total)
    model.potentials = CliqueVector({cl: Factor(dom.project(cl), rng.randn(*dom.project(cl).shape)) for cl in model.cliques})
    joint = np.zeros(shape)
    for cl in model.cliques:
        f = model.potentials[cl]
        idx = [attrs.index(x) for x in f.domain.attrs]
        joint = joint + f.values.reshape([shape[i] if i in idx else 1 for i in range(4)]) if list(f.domain.attrs) == [attrs[i] for i in sorted(idx)] else \
            joint + np.moveaxis(f.values, range(len(idx)), np.argsort(np.argsort(idx))).reshape([shape[i] if i in idx else 1 for i in range(4)])
    joint = np.exp(joint - joint.max())
    joint = joint * total / joint.sum()
    bad = []
    try:
        if 'krondot' in ob.name:
            mats = [rng.randn(2, n) for n in shape]
            got = np.asarray(model.krondot(mats), dtype=float)
            want = np.einsum('abcd,ia,jb,kc,ld->ijkl', joint, *mats)
            if got.shape != want.shape or not np.allclose(got, want, rtol=1e-8, atol=1e-8):
                bad.append('krondot')
        else:
            projs = [tuple(p) for p in itertools.permutations(attrs, 2)]
            ans = model.calculate_many_marginals(projs)
            for p in projs:
                i, j = attrs.index(p[0]), attrs.index(p[1])
                want = joint.sum(axis=tuple(k for k in range(4) if k not in (i, j)))
                want = want if i < j else want.T
                got = np.asarray(ans[p].datavector(flatten=False), dtype=float) if p in ans else None
                if got is None or got.shape != want.shape or not np.allclose(got, want, rtol=1e-8, atol=1e-8):
                    bad.append('bulk answer %r' % (p,))
    except Exception as e:
        return dict(reproduced=True, inputs=dict(model='chain a-b, b-c, c-d; shape 2,3,2,3; potentials RandomState(5).randn; total 50'), raised='%s: %s' % (type(e).__name__, e))
    return dict(reproduced=bool(bad), inputs=dict(model='chain a-b, b-c, c-d; shape 2,3,2,3; potentials RandomState(5).randn; total 50'), wrong=bad[:6])
