"""The normalisation idiom (lemma L-norm) as contracts: every table an oracle returns sums to the total.

Log-space vectors / factors v are abstracted to  esum(v) = sum_x exp(v(x))  (> 0 when some cell is finite; the
all-minus-infinity table is excluded by `requires`), scalars that are logarithms to the number they are the log of:

    np.log(t)                 scalar with exp = t          (t > 0)
    v.logsumexp(), logsumexp(v)   scalar with exp = esum(v)
    c1 - c2, c1 + c2          exp = exp(c1) / exp(c2),  exp(c1) * exp(c2)
    v + c, v += c, v - c      esum * exp(c),  esum / exp(c)        (c a scalar as above)
    v.exp(), np.exp(v)        a table whose entries sum to esum(v)  (and are >= 0)
    anything else             a vector with unknown positive esum
These are identities of exp / log over the reals (assumed: reals for floats, finite sums).

Site contracts: every value stored into the returned dict of marginals, and every returned table, sums to the total.
"""
import ast
import z3
from ..vc import engine as E

R, V, I = E.R, E.V, E.I
ENV = {}


def lv(eng, st, name, esum=None, cls='logvec'):
    s = esum if esum is not None else eng.fresh('esum', R)
    st.assume(s > 0)
    return E.Obj(eng.fresh(name, V), cls=cls, ghost={'esum': s})


def table(eng, name, total_sum):
    return E.Obj(eng.fresh(name, V), cls='table', ghost={'sum': total_sum})


def logscalar(eng, st, expv, name='logc'):
    st.assume(expv > 0)
    return E.Num(eng.fresh(name, R), npy=True, ghost={'exp': expv})


class LogNormHooks:
    def __init__(self, sites=()):
        self.sites = list(sites)

    def init(self, eng, st):
        for s in self.sites:
            st.ghost.setdefault('n_site_' + s['name'], z3.IntVal(0))

    def esum(self, v):
        return (getattr(v, 'ghost', None) or {}).get('esum')

    def expof(self, v):
        return (getattr(v, 'ghost', None) or {}).get('exp')

    def attr(self, eng, st, o, name, node):
        return NotImplemented

    def havoc_ghost_value(self, eng, st, old):
        g = getattr(old, 'ghost', None) or {}
        if 'esum' in g:
            s = eng.fresh('esum', R)
            st.assume(s > 0)
            return {'esum': s}
        if 'sum' in g:
            out = dict(g)
            out['sum'] = eng.fresh('sum', R)
            return out
        return g or None

    def call(self, eng, st, name, recv, args, kw, node):
        short = name.split('.')[-1]
        if recv is None and name == 'esum' and len(args) == 1:
            s = self.esum(args[0])
            if s is None:
                raise E.Unsupported('esum of a value that is not a log-space vector')
            return E.Num(s)
        if recv is None and name == 'exp_of' and len(args) == 1:
            x = self.expof(args[0])
            if x is None:
                return E.Num(eng.fresh('exp_of_untracked', R))      # unknown: nothing can be proved about it
            return E.Num(x)
        if recv is None and name == 'vecsum' and len(args) == 1:
            s = (getattr(args[0], 'ghost', None) or {}).get('sum')
            if s is None:
                raise E.Unsupported('vecsum of a value that is not a normalised table')
            return E.Num(s)
        if name in ('np.log', 'math.log') and len(args) == 1 and isinstance(args[0], E.Num) and self.expof(args[0]) is None:
            return logscalar(eng, st, args[0].real(), 'log')
        if name in ('np.log',) and len(args) == 1 and isinstance(args[0], E.Obj) and (args[0].ghost or {}).get('sum') is not None:
            # log of a non-negative vector with known sum: a log-vector whose exp-sum is that sum
            return lv(eng, st, 'logvec', args[0].g('sum'))
        if short == 'logsumexp' and ((recv is not None and not args) or (recv is None and len(args) == 1)):
            v = recv if recv is not None else args[0]
            es = self.esum(v)
            if es is None:
                es = eng.fresh('esum', R)
                st.assume(es > 0)
                if isinstance(v, E.Obj):
                    v.ghost = dict(v.ghost or {}, esum=es)       # remember: later uses of v see the same exp-sum
                    v.cls = v.cls or 'logvec'
            return logscalar(eng, st, es, 'lse')
        if (short == 'exp' and recv is not None and not args) or (name == 'np.exp' and len(args) == 1 and isinstance(args[0], E.Obj)):
            v = recv if recv is not None else args[0]
            es = self.esum(v)
            if es is None:
                return table(eng, 'exp', eng.fresh('unknown_sum', R))
            return table(eng, 'exp', es)
        if short == 'sum' and recv is not None and not args and isinstance(recv, E.Obj):
            s = (recv.ghost or {}).get('sum')
            if s is None:
                s = eng.fresh('sum', R)
                recv.ghost = dict(recv.ghost or {}, sum=s)
                recv.cls = recv.cls or 'table'
            return E.Num(s, npy=True)
        if short in ('transpose', 'project', 'expand', 'copy') and recv is not None and self.esum(recv) is not None and short in ('transpose', 'copy'):
            return lv(eng, st, short, self.esum(recv))
        return NotImplemented

    def unary(self, eng, st, op, v, node):
        if isinstance(op, ast.USub) and isinstance(v, E.Num) and self.expof(v) is not None:
            return E.Num(-v.real(), npy=True, ghost={'exp': 1 / self.expof(v)})       # exp(-c) = 1 / exp(c)
        return NotImplemented

    def binop(self, eng, st, op, l, r, node):
        # scalar logs
        el, er = self.expof(l), self.expof(r)
        if isinstance(l, E.Num) and isinstance(r, E.Num) and el is not None and er is not None:
            if isinstance(op, ast.Sub):
                return E.Num(l.real() - r.real(), npy=True, ghost={'exp': el / er})
            if isinstance(op, ast.Add):
                return E.Num(l.real() + r.real(), npy=True, ghost={'exp': el * er})
        # vector +- log-scalar
        for a, b in ((l, r), (r, l)):
            es = self.esum(a)
            if es is not None and isinstance(b, E.Num) and self.expof(b) is not None:
                if isinstance(op, ast.Add):
                    return lv(eng, st, 'shifted', es * self.expof(b))
                if isinstance(op, ast.Sub) and a is l:
                    return lv(eng, st, 'shifted', es / self.expof(b))
        # table * scalar
        for a, b in ((l, r), (r, l)):
            s = (getattr(a, 'ghost', None) or {}).get('sum')
            if s is not None and isinstance(a, E.Obj) and isinstance(b, E.Num):
                if isinstance(op, ast.Mult):
                    return table(eng, 'scaled', s * b.real())
                if isinstance(op, ast.Div) and a is l:
                    return table(eng, 'scaled', s / b.real())
        # vector + plain number (x0 + tiny): sum grows by n * number
        if isinstance(l, E.Obj) and l.cls == 'table' and isinstance(r, E.Num) and isinstance(op, ast.Add) and l.g('n') is not None:
            o = table(eng, 'plus', l.g('sum') + z3.ToReal(l.g('n')) * r.real())
            o.ghost['n'] = l.g('n')
            return o
        # any other combination involving a log-vector: unknown positive exp-sum
        if (isinstance(l, E.Obj) and l.cls == 'logvec') or (isinstance(r, E.Obj) and r.cls == 'logvec'):
            return lv(eng, st, 'combined')
        return NotImplemented

    def setitem(self, eng, st, tgt, o, k, val, node):
        for site in self.sites:
            if site.get('container') and isinstance(tgt.value, ast.Name) and tgt.value.id == site['container']:
                t, facts = eng.spec(site['spec'], st, {'__arg': val, '__key': k}, mode='prove')
                s2 = st.fork()
                for x in facts:
                    s2.assume(x)
                eng.oblige(s2, 'site/%s@L%d' % (site['name'], node.lineno), t, kind='store-site')
                st.ghost['n_site_' + site['name']] = st.ghost.get('n_site_' + site['name'], z3.IntVal(0)) + 1
        return NotImplemented


def potentials_param(eng, name):
    return E.Obj(z3.Const(name, V), cls='dict', ghost={'elem_ghost': {'esum': None}})


# ------------------------------------------------------------------ C19: public_inference.entropic_mirror_descent
def _x0(eng, name):
    o = table(eng, name, z3.Real('sum_x0'))
    o.ghost['n'] = z3.Int('n_public')
    return o

EMD = dict(
    params=dict(loss_and_grad='obj:', x0=_x0, total='real', iters='int'),
    requires=['total > 0', 'vecsum(x0) > 0'], division='abort',
    pure={'np.nextafter': 'real', 'loss_and_grad': 'obj', '.dot': 'real'},
    local_types={'alpha': 'real', 'begun': 'bool', 'loss': 'obj:', 'dL': 'obj:', 'new_loss': 'obj:', 'new_dL': 'obj:'},
    module_env={'n_public': E.Num(z3.Int('n_public'))},
    loops={1: dict(invariant=['esum(logP) == total or esum(logP) * vecsum(x0) == total * (vecsum(x0) + n_public * np.nextafter(0, 1))'])},
    ensures={'weights-sum-to-total-or-initial-mass':
             'vecsum(result) == total or vecsum(result) * vecsum(x0) == total * (vecsum(x0) + n_public * np.nextafter(0, 1))'},
)

# ------------------------------------------------------------------ exact inference: variable_elimination_logspace
VE = dict(
    module_env={},
    params=dict(potentials='obj:list', elim='obj:list', total='real'),
    requires=['total > 0'], division='abort',
    pure={'reduce': 'obj:logvec'},
    ensures={'answer-sums-to-total': 'vecsum(result) == total'},
)

ORACLE_ATTR = {('RegionGraph', 'total'): 'real', ('FactorGraph', 'total'): 'real', ('RegionGraph', 'iters'): 'int', ('FactorGraph', 'iters'): 'int',
               ('RegionGraph', 'damping'): 'real', ('FactorGraph', 'convex'): 'bool'}


def oracle(cls, container, extra_ensures=None):
    return dict(params=dict(self='obj:' + cls, potentials='obj:dict', callback='obj:', mu_n='obj:', mu_f='obj:'), attr_types=ORACLE_ATTR,
                requires=['self.total > 0'], division='abort', module_env={},
                sites=[dict(container=container, name='returned-table', spec='vecsum(__arg) == self.total')],
                ensures=dict({'at-least-the-normalising-store-exists': 'True'}, **(extra_ensures or {})))


FG_PROJECT = dict(params=dict(self='obj:FactorGraph', attrs='obj:'), attr_types=ORACLE_ATTR, requires=['self.total > 0'], division='abort',
                  module_env={}, ensures={'answer-sums-to-total': 'vecsum(result) == self.total'})

# ------------------------------------------------------------------ exact inference: GraphicalModel.belief_propagation
class BPHooks(LogNormHooks):
    """Final normalisation of belief propagation under the calibration lemma.

    L-cal (ASSUMED here; it is the sum-product theorem that the bounded tier of C01 decides on explicit joints): once every
    message of a valid schedule has been passed, all clique beliefs have the same exp-sum Z.  Every read of `beliefs[...]` is
    therefore a log-vector with exp-sum Z.  What is proved on top of it: the table stored for every clique and returned is
    exp(belief + log(total) - logZ) with logZ the log of that same Z, hence sums to self.total; with logZ=True the returned
    scalar is log Z."""

    def init(self, eng, st):
        LogNormHooks.init(self, eng, st)
        self.Z = z3.Real('Z_calibrated')
        st.assume(self.Z > 0)
        st.ghost['n_exp_sites'] = z3.IntVal(0)
        st.ghost['n_site_stored'] = z3.IntVal(0)

    def getitem(self, eng, st, o, k, node):
        if isinstance(node.value, ast.Name) and node.value.id == 'beliefs':
            last = st.__dict__.get('_bp_last')
            if last is not None and z3.eq(last[0], eng.to_V(k)):
                return last[1]                       # the value this path has just stored under the same key
            return lv(eng, st, 'belief', self.Z)
        return NotImplemented

    def call(self, eng, st, name, recv, args, kw, node):
        short = name.split('.')[-1]
        if short == 'exp' and recv is not None and self.esum(recv) is not None:
            s2 = st.fork()
            t, facts = eng.spec('__es == self.total', s2, {'__es': E.Num(self.esum(recv))}, mode='prove')
            for f in facts:
                s2.assume(f)
            eng.oblige(s2, 'site/exponentiated-belief-has-exp-sum-total@L%d' % node.lineno, t, kind='call-site')
            st.ghost['n_exp_sites'] = st.ghost['n_exp_sites'] + 1
        return LogNormHooks.call(self, eng, st, name, recv, args, kw, node)

    def setitem(self, eng, st, tgt, o, k, val, node):
        if isinstance(tgt.value, ast.Name) and tgt.value.id == 'beliefs':
            st._bp_last = (eng.to_V(k), val)
        if isinstance(tgt.value, ast.Name) and tgt.value.id == 'beliefs' and (getattr(val, 'ghost', None) or {}).get('sum') is not None:
            s2 = st.fork()
            t, facts = eng.spec('vecsum(__arg) == self.total', s2, {'__arg': val}, mode='prove')
            for f in facts:
                s2.assume(f)
            eng.oblige(s2, 'site/stored-marginal-sums-to-total@L%d' % node.lineno, t, kind='store-site')
            st.ghost['n_site_stored'] = st.ghost.get('n_site_stored', z3.IntVal(0)) + 1
        return NotImplemented


BP = dict(params=dict(self='obj:GraphicalModel', potentials='obj:dict', logZ='bool'), uses_locals=['beliefs'],
          attr_types={('GraphicalModel', 'total'): 'real'}, requires=['self.total > 0'], division='abort', module_env={},
          pure={'CliqueVector': 'obj'},
          loops={1: dict(invariant=[]), 2: dict(invariant=['ghost("n_exp_sites") == _it2', 'ghost("n_site_stored") == _it2'])},
          ensures={'logZ-is-the-log-of-the-common-normaliser': 'implies(logZ__old, exp_of(result) == Z_calibrated)',
                   'every-clique-table-normalised-and-stored':
                   'implies(not logZ__old, ghost("n_exp_sites") == len(self.cliques) and ghost("n_site_stored") == len(self.cliques))'})

# ------------------------------------------------------------------ exact inference: GraphicalModel.datavector
class DataVectorHooks(LogNormHooks):
    def init(self, eng, st):
        LogNormHooks.init(self, eng, st)
        st.ghost['n_expand_sites'] = z3.IntVal(0)

    """The full-vector query: the table on the attributes covered by the cliques sums to 1, is repeated over the attributes that
    are in no clique and rescaled.  Extern contracts used: expanding a table f onto a larger domain D repeats every cell
    |D| / |dom f| times (numpy broadcasting), so its sum is multiplied by that ratio; Domain.size() is the (positive) cell count
    (C15); Factor.datavector() keeps the cells (C14) and `vector * number` scales the sum."""

    def size_of(self, eng, st, dom):
        t = eng.uf('domain_cells', V, R)(eng.to_V(dom))
        st.assume(t > 0)
        return t

    def call(self, eng, st, name, recv, args, kw, node):
        short = name.split('.')[-1]
        if name == 'sum' and recv is None and len(args) == 1:
            return lv(eng, st, 'sum_of_potentials')            # a log-space factor: unknown positive exp-sum
        if short == 'size' and recv is not None and not args and isinstance(recv, (E.Obj, E.Bound)):
            return E.Num(self.size_of(eng, st, recv if isinstance(recv, E.Obj) else eng.bound_as_value(st, recv)), npy=True)
        if short == 'expand' and recv is not None and len(args) == 1 and (getattr(recv, 'ghost', None) or {}).get('sum') is not None:
            # the full vector is laid out on the model's own domain (Factor.expand puts the axes in that domain's order, C14)
            s2 = st.fork()
            t, facts = eng.spec('same(__arg, self.domain)', s2, {'__arg': args[0]}, mode='prove')
            for f in facts:
                s2.assume(f)
            eng.oblige(s2, 'site/table-expanded-onto-the-models-domain@L%d' % node.lineno, t, kind='call-site')
            st.ghost['n_expand_sites'] = st.ghost.get('n_expand_sites', z3.IntVal(0)) + 1
            small = self.size_of(eng, st, eng.getattr(st, recv, 'domain', node))
            big = self.size_of(eng, st, args[0])
            return table(eng, 'expanded', recv.g('sum') * big / small)
        if short == 'datavector' and recv is not None and (getattr(recv, 'ghost', None) or {}).get('sum') is not None:
            return table(eng, 'vector', recv.g('sum'))
        return LogNormHooks.call(self, eng, st, name, recv, args, kw, node)


GM_DATAVECTOR = dict(params=dict(self='obj:GraphicalModel', flatten='bool'), attr_types={('GraphicalModel', 'total'): 'real'},
                     requires=['self.total > 0'], division='abort', module_env={},
                     ensures={'full-vector-sums-to-total': 'vecsum(result) == self.total',
                              'laid-out-on-the-models-domain': 'ghost("n_expand_sites") == 1'})
DV_ITEM = ('src/mbi/graphical_model.py', 'GraphicalModel.datavector', GM_DATAVECTOR)

ITEMS = [('src/mbi/region_graph.py', 'RegionGraph.generalized_belief_propagation', oracle('RegionGraph', 'marginals'), 'C16'),
         ('src/mbi/region_graph.py', 'RegionGraph.hazan_peng_shashua', oracle('RegionGraph', 'mu'), 'C17'),
         ('src/mbi/factor_graph.py', 'FactorGraph.clique_marginals', oracle('FactorGraph', 'marginals'), 'C16'),
         ('src/mbi/factor_graph.py', 'FactorGraph.project', FG_PROJECT, 'C16'),
         ('src/mbi/public_inference.py', 'entropic_mirror_descent', EMD, 'C19'),
         ('src/mbi/graphical_model.py', 'variable_elimination_logspace', VE, 'C02')]
BP_ITEM = ('src/mbi/graphical_model.py', 'GraphicalModel.belief_propagation', BP)
