"""More update equations, value-level (pv/vc/linvec.py).

GraphicalModel.mle (C08: "stored potentials are mle(stored marginals)"):   for the cliques in the model's order, with `seen` the
attributes of the cliques before it,   potential(cl) = log marginal(cl) - log marginal(cl) projected on (seen ∩ cl)
(the factorisation of a decomposable distribution along its junction tree; valid in running-intersection order - L-mle).

LocalInference.mirror_descent_auto (C18):   theta <- theta - alpha * dL,   mu = BP(theta)   per iteration;  on an increase of the
loss after the first 50 iterations alpha is halved (and the oracle's damping moved half-way towards 0.9)."""
from ..vc.linvec import LinHooks

MLE_SITES = [
    dict(container='potentials', nth=1, of=1, name='mle:log-marginal-minus-log-of-its-projection-on-the-attributes-already-covered',
         spec='same(__arg, marginals[cl].log() - marginals[cl].project(new).log())'),
    dict(local='new', nth=1, of=1, name='mle:attributes-already-covered-by-the-cliques-before', spec='same(__arg, tuple(variables & set(cl)))'),
]
MLE = dict(params=dict(self='obj:GraphicalModel', marginals='obj:dict'), requires=[], division='abort', numeric_objects=True,
           pure={'CliqueVector': 'obj', 'set': 'obj:set', 'tuple': 'obj:tuple', '.project': 'obj'}, mutators={'.update': None},
           uses_locals=['potentials', 'variables', 'new'], sites=MLE_SITES, ensures={})

MDA_SITES = [
    dict(local='theta', nth=2, of=2, name='local-md:gradient-step', spec='same(__arg, theta - alpha * dL)'),
    dict(local='mu', nth=2, of=3, name='local-md:marginals-of-the-new-parameters', spec='same(__arg, model.belief_propagation(theta))'),
    dict(local='alpha', nth=1, of=1, name='local-md:step-halved-on-an-increase', spec='__arg == alpha * 0.5'),
]
MDA = dict(params=dict(self='obj:LocalInference', alpha='real', iters='int', callback='obj:'), requires=[], division='abort', numeric_objects=True,
           attr_types={('LocalInference', 'model'): 'obj:', ('LocalInference', 'log'): 'bool'},
           pure={'.belief_propagation': 'obj', '._marginal_loss': 'obj', 'deepcopy': 'obj', '.primal_feasibility': 'real', '.mirror_descent_auto': 'obj'},
           local_types={'l': 'real', 'prev_l': 'real', 'l0': 'real'}, uses_locals=['theta', 'mu', 'alpha', 'dL'], sites=MDA_SITES, ensures={})

ITEMS = [('src/mbi/graphical_model.py', 'GraphicalModel.mle', MLE, MLE_SITES, 'C08'),
         ('src/mbi/local_inference.py', 'LocalInference.mirror_descent_auto', MDA, MDA_SITES, 'C18')]


def hooks(sites):
    return LinHooks(real_dicts=(), vector_dicts=('potentials',), sites=sites)


def feasibility_stop_report():
    """"overlapping tables agree up to the feasibility tolerance the estimator enforces" (C18): in mirror_descent_auto the extra sweeps stop
    exactly when the oracle's own feasibility measure of the CURRENT tables is below a numeric constant (whatever it is: that constant IS
    the enforced tolerance), and the tables tested are the ones returned (no re-assignment of `mu` between the test and the `break`).
    Decided on the text; another shape leaves the clause UNDECIDED."""
    import ast, time
    from .. import deductive, frontend
    from ..vc import solver as S
    rel, q = 'src/mbi/local_inference.py', 'LocalInference.mirror_descent_auto'
    r = deductive.FunctionReport(rel, q + ' [extra sweeps stop on the oracle\'s feasibility measure of the current tables]')
    t0 = time.time()
    try:
        fn, _src, sha = frontend.get_function(rel, q)
        ok, why = False, 'no `if <oracle>.primal_feasibility(mu) < <constant>: break` found in a loop'
        for loop in [n for n in ast.walk(fn) if isinstance(n, ast.For)]:
            for st_ in loop.body:
                if isinstance(st_, ast.If) and len(st_.body) == 1 and isinstance(st_.body[0], ast.Break) and isinstance(st_.test, ast.Compare) \
                        and len(st_.test.ops) == 1 and isinstance(st_.test.ops[0], (ast.Lt, ast.LtE)) and isinstance(st_.test.comparators[0], ast.Constant) \
                        and isinstance(st_.test.comparators[0].value, (int, float)) and isinstance(st_.test.left, ast.Call) \
                        and ast.unparse(st_.test.left.func).endswith('.primal_feasibility') and len(st_.test.left.args) == 1:
                    tested = ast.unparse(st_.test.left.args[0])
                    returned = [ast.unparse(x.value.elts[-1]) for x in ast.walk(fn) if isinstance(x, ast.Return) and isinstance(x.value, ast.Tuple)]
                    first = loop.body[0] is st_
                    ok = first and returned and all(t == tested for t in returned)
                    why = '' if ok else 'the tables tested (%s) are not the ones returned (%s), or are re-assigned before the test' % (tested, returned)
        ob = S.Obligation('%s::%s/extra-sweeps-stop-when-the-returned-tables-pass-the-oracles-feasibility-test' % (rel, q), [], None, function='%s::%s' % (rel, q), kind='wiring')
        ob.verdict = 'discharged' if ok else 'unknown'
        ob.backend, ob.seconds, ob.reason = 'syntactic (AST match)', 0.0, why
        ob.meta = {'base': ob.name}
        r.obligations.append(ob)
        r.sha = sha
    except frontend.MissingAnchor as e:
        r.undecided = 'anchor missing: %s' % e
    r.vacuity = []
    r.seconds = time.time() - t0
    return r


# variable_elimination_logspace (C02, the out-of-clique query path): eliminating z replaces the factors that mention z by the
# log-sum-exp over z of their sum; the answer is the exponential of the remaining sum shifted to the requested total.
VE_SITES = [
    dict(container='psi', nth=1, of=1, name='ve:eliminated-variable-summed-out-of-the-sum-of-its-factors', spec='same(__arg, phi.logsumexp([z]))'),
]
VE = dict(params=dict(potentials='obj:list', elim='obj:list', total='real'), requires=['total > 0'], division='abort', numeric_objects=True,
          pure={'reduce': 'obj', 'dict': 'obj:dict', 'zip': 'obj', 'range': 'obj', 'len': 'int', 'list': 'obj:list', 'np.log': 'real', '.values': 'obj:list', '.keys': 'obj:list',
                '.pop': 'obj'},
          local_types={'k': 'int'}, uses_locals=['psi', 'psi2', 'phi', 'tau', 'ans', 'k'], sites=VE_SITES,
          ensures={'ve:answer-is-the-normalised-exponential-of-the-remaining-sum': 'same(result, (ans + (np.log(total) - ans.logsumexp())).exp())'})
ITEMS.append(('src/mbi/graphical_model.py', 'variable_elimination_logspace', VE, VE_SITES, 'C02'))


def restart_termination_report():
    """"completes without error" (C18): mirror_descent_auto restarts by calling ITSELF.  Termination of that recursion is decided on the
    text: the recursive call passes a step size that is a constant fraction (< 1) of `alpha`, and it is guarded by a test that bounds
    `alpha` from below by a positive numeric constant - so the depth is at most log(alpha0 / constant) / log(1 / fraction).
    (Before fix 994e1cb there was no such guard and a warm-started repeated call recursed until RecursionError.)  Any other shape:
    UNDECIDED, never a violation."""
    import ast, time
    from .. import deductive, frontend
    from ..vc import solver as S
    rel, q = 'src/mbi/local_inference.py', 'LocalInference.mirror_descent_auto'
    r = deductive.FunctionReport(rel, q + ' [the restart recursion terminates]')
    t0 = time.time()
    try:
        fn, _src, sha = frontend.get_function(rel, q)
        parent = {}
        for n in ast.walk(fn):
            for c in ast.iter_child_nodes(n):
                parent[id(c)] = n
        calls = [n for n in ast.walk(fn) if isinstance(n, ast.Call) and ast.unparse(n.func) == 'self.mirror_descent_auto']
        ok, why = bool(calls) or None, ''
        if not calls:
            ok, why = True, ''           # no recursion at all
        for c in calls:
            a0 = c.args[0] if c.args else next((k.value for k in c.keywords if k.arg == 'alpha'), None)
            frac = None
            if isinstance(a0, ast.BinOp) and isinstance(a0.op, ast.Div) and ast.unparse(a0.left) == 'alpha' and isinstance(a0.right, ast.Constant) \
                    and isinstance(a0.right.value, (int, float)) and a0.right.value > 1:
                frac = 1.0 / a0.right.value
            if isinstance(a0, ast.BinOp) and isinstance(a0.op, ast.Mult):
                for x, y in ((a0.left, a0.right), (a0.right, a0.left)):
                    if ast.unparse(x) == 'alpha' and isinstance(y, ast.Constant) and isinstance(y.value, (int, float)) and 0 < y.value < 1:
                        frac = float(y.value)
            guarded, cur = False, c
            while id(cur) in parent:
                cur = parent[id(cur)]
                if isinstance(cur, ast.If):
                    tests = cur.test.values if isinstance(cur.test, ast.BoolOp) and isinstance(cur.test.op, ast.And) else [cur.test]
                    for t_ in tests:
                        if isinstance(t_, ast.Compare) and len(t_.ops) == 1 and ast.unparse(t_.left) == 'alpha' and isinstance(t_.ops[0], (ast.Gt, ast.GtE)) \
                                and isinstance(t_.comparators[0], ast.Constant) and isinstance(t_.comparators[0].value, (int, float)) and t_.comparators[0].value > 0:
                            guarded = True
            if frac is None or not guarded:
                ok = False
                why = 'recursive call at line %d: %s' % (c.lineno, 'step is not a constant fraction of alpha' if frac is None else
                                                         'no enclosing test bounds alpha from below by a positive constant')
        ob = S.Obligation('%s::%s/restart-recursion-has-a-bounded-depth' % (rel, q), [], None, function='%s::%s' % (rel, q), kind='termination')
        ob.verdict = 'discharged' if ok else 'unknown'
        ob.backend, ob.seconds, ob.reason = 'syntactic (AST match): variant alpha, geometric decrease, positive lower bound', 0.0, why
        ob.meta = {'base': ob.name}
        r.obligations.append(ob)
        r.sha = sha
    except frontend.MissingAnchor as e:
        r.undecided = 'anchor missing: %s' % e
    r.vacuity = []
    r.seconds = time.time() - t0
    return r
