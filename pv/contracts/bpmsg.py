"""GraphicalModel.belief_propagation (C01): the message-passing step, value-level (pv/vc/linvec.py).

For every scheduled message (i, j):
    separator complement   sep = beliefs[i].domain.invert(self.sep_axes[(i, j)])
    message                m[i,j] = LSE_sep( beliefs[i] - m[j,i] )      if the reverse message has been sent (its contribution to
                                                                        beliefs[i] is divided out), else  LSE_sep( beliefs[i] )
    absorption             beliefs[j] <- beliefs[j] + m[i,j]
(Shafer-Shenoy / Hugin update on a junction tree.)  Subtraction here is the linear abstraction of Factor.__sub__; its -inf-aware
behaviour is the cell-level contract in pv/contracts/extsub.py.  The final normalisation is pv/contracts/normal.py: BP."""
from ..vc.linvec import LinHooks

REL = 'src/mbi/graphical_model.py'
SITES = [
    dict(container='messages', nth=1, of=1, name='message-equation',
         # the reverse message lives on the separator, so dividing it out before or after summing out the rest is the same value
         spec='same(__arg, ((beliefs[i] - messages[(j, i)]) if (j, i) in messages else beliefs[i]).logsumexp(beliefs[i].domain.invert(self.sep_axes[(i, j)]))) or '
              '((j, i) in messages and same(__arg, beliefs[i].logsumexp(beliefs[i].domain.invert(self.sep_axes[(i, j)])) - messages[(j, i)]))'),
    dict(container='beliefs', nth=1, of=3, name='absorption', spec='same(__arg, beliefs[j] + messages[(i, j)])'),
    dict(container='beliefs', nth=2, of=3, name='shift-to-the-total', spec='same(__arg, beliefs[cl] + (np.log(self.total) - logZ))'),
    dict(container='beliefs', nth=3, of=3, name='exponentiated-in-place', spec='same(__arg, beliefs[cl].exp(out=beliefs[cl]))'),
]
BPMSG = dict(
    params=dict(self='obj:GraphicalModel', potentials='obj:dict', logZ='bool'),
    attr_types={('GraphicalModel', 'total'): 'real'}, requires=['self.total > 0'], division='abort', numeric_objects=True,
    pure={'CliqueVector': 'obj', '.invert': 'obj:tuple', 'np.log': 'real'},
    uses_locals=['beliefs', 'messages', 'sep', 'tau'],
    sites=SITES, ensures={},
)
ITEM = (REL, 'GraphicalModel.belief_propagation', BPMSG)


def hooks():
    return LinHooks(real_dicts=(), vector_dicts=('beliefs', 'messages'), sites=SITES)
