"""Dataset.project (C19, C15): the requested column list reaches both the data frame selection and the domain projection
(the frame selection as a set of columns: the Dataset constructor orders them by the domain) — so the result's domain and hence its data vector are laid out in the caller's order, which is the order
the caller's query matrix and answers follow.  A bare str / int is wrapped in a one-element list."""
from ..vc.sitehooks import SiteSpecHooks

_REQ = 'seq_equal(%s, cols__old) or same(%s, [cols__old])'
PROJECT = dict(
    params=dict(self='obj:Dataset', cols='seq:obj'), requires=[], sequences=True,
    pure={'Dataset': 'obj:Dataset', 'type': 'obj'},
    # the Dataset constructor re-selects the frame's columns in the order of the domain it is given, so the order of this
    # selection is immaterial: it must pick the requested columns, in any order
    sites=[dict(func='[]', container='self.df.loc', name='frame-columns-are-the-requested-ones',
                spec='(all_in(__key[1], cols__old) and all_in(cols__old, __key[1])) or same(__key[1], [cols__old])'),
           dict(func='.project', arg=0, name='domain-projected-as-requested', spec=_REQ % ('__arg', '__arg')),
           dict(func='Dataset', arg=0, name='result-built-from-the-selected-frame', spec='same(__arg, data)'),
           dict(func='Dataset', arg=1, name='result-domain-is-the-projected-domain', spec='same(__arg, domain)'),
           dict(func='Dataset', arg=2, name='weights-carried-over', spec='same(__arg, self.weights)')],
    ensures={'one-selection-one-projection-one-result':
             'ghost("n_site_frame-columns-are-the-requested-ones") == 1 and ghost("n_site_domain-projected-as-requested") == 1 and '
             'ghost("n_site_result-domain-is-the-projected-domain") == 1'},
)
# Dataset.__init__: whatever frame is passed in, the stored frame has exactly the domain's attributes as columns, in the domain's
# order (datavector bins the frame's columns positionally against domain.shape)
INIT = dict(
    params=dict(self='obj:Dataset', df='obj:', domain='obj:Domain', weights='obj:'), requires=[],
    pure={'set': 'obj'},
    ensures={'stored-frame-is-the-selection-of-the-domain-columns-in-domain-order': 'same(self.df, df.loc[:, domain.attrs])',
             'domain-and-weights-stored-as-given': 'same(self.domain, domain) and same(self.weights, weights)'},
)
# Dataset.datavector: the records are binned, column p against the integer edges 0, 1, ..., shape[p] of attribute p (so every code
# 0..shape[p]-1 has its own cell whether or not it occurs in the data), weighted by the dataset's weights.  That numpy.histogramdd
# with these edges counts code c in cell c (the last bin is closed) is the extern contract; the bounded tier exercises it.
DATAVECTOR = dict(
    params=dict(self='obj:Dataset', flatten='bool'), requires=[], sequences=True,
    attr_types={('Dataset', 'domain'): 'obj:Domain', ('Domain', 'shape'): 'seq:int', ('Domain', 'attrs'): 'seq:obj'},
    uses_locals=['ans'], pure={'np.histogramdd': 'obj', '.flatten': 'obj'},
    sites=[dict(func='np.histogramdd', arg=0, name='records-are-the-stored-frame', spec='same(__arg, self.df.values)'),
           dict(func='np.histogramdd', arg=1, kw='bins', name='bin-edges-are-the-integers-0-to-size-for-every-attribute',
                spec='len(__arg) == len(self.domain.shape) and '
                     'forall(lambda p: range_lo(__arg[p]) == 0 and range_hi(__arg[p]) == self.domain.shape[p] + 1, 0, len(self.domain.shape))'),
           dict(func='np.histogramdd', arg='weights', name='weighted-by-the-dataset-weights', spec='same(__arg, self.weights)')],
    ensures={'one-histogram': 'ghost("n_site_bin-edges-are-the-integers-0-to-size-for-every-attribute") == 1',
             'the-histogram-counts-are-returned': 'same(result, ans.flatten()) if flatten else same(result, ans)'},
)
ITEMS = [('src/mbi/dataset.py', 'Dataset.project', PROJECT), ('src/mbi/dataset.py', 'Dataset.__init__', INIT),
         ('src/mbi/dataset.py', 'Dataset.datavector', DATAVECTOR)]


def hooks_for(c):
    return SiteSpecHooks(c.get('sites', []))


def replay(ob):
    """Native replay of refuted Dataset.datavector / Dataset.__init__ / Dataset.project obligations: a weighted frame whose columns are
    permuted, carry an extra column and do not cover the top code of any attribute; datavector (flat and shaped) and project are compared
    with a counting loop."""
    if 'Dataset.' not in ob.name:
        return None
    import itertools
    import numpy as np
    import pandas as pd
    from .. import env
    env.ensure_repo_importable()
    from mbi import Domain, Dataset
    dom = Domain(['a', 'b', 'c'], [3, 2, 4])
    rec = np.array([[0, 0, 1], [1, 1, 0], [1, 0, 2], [0, 1, 2], [1, 1, 2]])        # top codes a=2, c=3 never occur
    w = np.array([1.0, 2.0, 0.5, 4.0, 3.0])
    frame = pd.DataFrame(rec, columns=['a', 'b', 'c'])
    frame['zz'] = 9
    frame = frame[['zz', 'c', 'a', 'b']]
    bad = []
    try:
        ds = Dataset(frame, dom, w.copy())
        want = np.zeros((3, 2, 4))
        for r, wt in zip(rec, w):
            want[tuple(r)] += wt
        got = np.asarray(ds.datavector(flatten=False), dtype=float)
        if got.shape != want.shape or not np.allclose(got, want):
            bad.append('datavector(flatten=False)')
        if not np.allclose(np.asarray(ds.datavector(), dtype=float), want.reshape(-1)):
            bad.append('datavector()')
        for proj in (('c', 'a'), ('b',), ['a', 'c']):
            idx = [['a', 'b', 'c'].index(p) for p in proj]
            wp = np.zeros([dom.shape[i] for i in idx])
            for r, wt in zip(rec, w):
                wp[tuple(r[i] for i in idx)] += wt
            gp = np.asarray(ds.project(proj).datavector(flatten=False), dtype=float)
            if gp.shape != wp.shape or not np.allclose(gp, wp):
                bad.append('project(%r).datavector' % (proj,))
    except Exception as e:
        return dict(reproduced=True, inputs=dict(domain='a:3,b:2,c:4', records=rec.tolist(), weights=w.tolist()), raised='%s: %s' % (type(e).__name__, e))
    return dict(reproduced=bool(bad), inputs=dict(domain='a:3,b:2,c:4', frame_columns=['zz', 'c', 'a', 'b'], records=rec.tolist(), weights=w.tolist()), wrong=bad)
