"""Dataset.project (C19, C15): the requested column list reaches both the data frame selection and the domain projection
(the frame selection as a set of columns: the Dataset constructor orders them by the domain) — so the result's domain and hence its data vector are laid out in the caller's order, which is the order
the caller's query matrix and answers follow.  A bare str / int is wrapped in a one-element list."""
from ..vc.sitehooks import SiteSpecHooks

_REQ = 'seq_equal(%s, cols__old) or same(%s, [cols__old])'
PROJECT = dict(
    params=dict(self='obj:Dataset', cols='seq:obj'), requires=[], sequences=True,
    pure={'Dataset': 'obj:Dataset', 'type': 'obj'},
    # the Dataset constructor re-selects the frame's columns in the order of the domain it is given, so the order of this
    # selection is immaterial: it must pick the requested columns, in any order
    sites=[dict(func='[]', container='self.df.loc', name='frame-columns-are-the-requested-ones',
                spec='(all_in(__key[1], cols__old) and all_in(cols__old, __key[1])) or same(__key[1], [cols__old])'),
           dict(func='.project', arg=0, name='domain-projected-as-requested', spec=_REQ % ('__arg', '__arg')),
           dict(func='Dataset', arg=0, name='result-built-from-the-selected-frame', spec='same(__arg, data)'),
           dict(func='Dataset', arg=1, name='result-domain-is-the-projected-domain', spec='same(__arg, domain)'),
           dict(func='Dataset', arg=2, name='weights-carried-over', spec='same(__arg, self.weights)')],
    ensures={'one-selection-one-projection-one-result':
             'ghost("n_site_frame-columns-are-the-requested-ones") == 1 and ghost("n_site_domain-projected-as-requested") == 1 and '
             'ghost("n_site_result-domain-is-the-projected-domain") == 1'},
)
# Dataset.__init__: whatever frame is passed in, the stored frame has exactly the domain's attributes as columns, in the domain's
# order (datavector bins the frame's columns positionally against domain.shape)
INIT = dict(
    params=dict(self='obj:Dataset', df='obj:', domain='obj:Domain', weights='obj:'), requires=[],
    pure={'set': 'obj'},
    ensures={'stored-frame-is-the-selection-of-the-domain-columns-in-domain-order': 'same(self.df, df.loc[:, domain.attrs])',
             'domain-and-weights-stored-as-given': 'same(self.domain, domain) and same(self.weights, weights)'},
)
ITEMS = [('src/mbi/dataset.py', 'Dataset.project', PROJECT), ('src/mbi/dataset.py', 'Dataset.__init__', INIT)]


def hooks_for(c):
    return SiteSpecHooks(c.get('sites', []))
