"""RegionGraph.hazan_peng_shashua (C17): the update equations of the convex region-graph message passing, as value-level site
contracts (pv/vc/linvec.py: linear combinations of opaque log-space tables, equality = equality of all coefficients over the reals).

With c = counting numbers, pa / ch = parents / children in the region graph, m[x,y] the current messages and pot the potentials:

  weights          cc[p,r]  = c[p] / (c[r] + sum_{q in pa(r)} c[q])
  parent -> child  n[p,r]   = c[p] * LSE_{p \\ r}( (pot[p] + sum_{c' in ch(p), c' != r} m[c',p] - sum_{q in pa(p)} m[p,q]) / c[p] )     (then centred)
  child -> parent  n[r,p]   = cc[p,r] * (pot[r] + sum_{c' in ch(r)} m[c',r] + sum_{q in pa(r)} m[q,r]) - m[p,r]                      (then centred)
  damping          m[x,y]  <- rho * m[x,y] + (1 - rho) * n[x,y]
  belief           b[r]     = (pot[r] + sum_{c' in ch(r)} m[c',r] - sum_{q in pa(r)} m[r,q]) / c[r],  normalised to self.total, stored as exp

(Hazan, Peng, Shashua 2012, as implemented; damping is the library's addition.)  Which messages enter with which weight is what the
fixed point — hence the optimum the property speaks about — depends on; the contracts pin those values, not the spelling."""
from ..vc.linvec import LinHooks

REL = 'src/mbi/region_graph.py'
_CENTRED = 'same(__arg, new[__key] - new[__key].logsumexp())'
_DOWN1 = 'same(__arg, (pot[p] + sum(messages[c, p] for c in self.children[p] if c != r) - sum(messages[p, p1] for p1 in self.parents[p])) / c0[p])'
_DOWN2 = 'same(__arg, c0[p] * new[p, r].logsumexp(tuple(set(p) - set(r))))'
_UP = 'same(__arg, cc[p, r] * (pot[r] + sum(messages[c, r] for c in self.children[r]) + sum(messages[p1, r] for p1 in self.parents[r])) - messages[p, r])'
SITES = [
    dict(container='cc', nth=1, of=1, name='weight-of-the-upward-message', spec='same(__arg, c0[p] / (c0[r] + sum(c0[p1] for p1 in self.parents[r])))'),
    dict(container='new', nth=1, of=5, name='parent-to-child:weighted-combination', spec=_DOWN1),
    dict(container='new', nth=2, of=5, name='parent-to-child:summed-over-the-rest-of-the-parent', spec=_DOWN2),
    dict(container='new', nth=3, of=5, name='parent-to-child:centred', spec=_CENTRED),
    dict(container='new', nth=4, of=5, name='child-to-parent:equation', spec=_UP),
    dict(container='new', nth=5, of=5, name='child-to-parent:centred', spec=_CENTRED),
    dict(container='messages', name='damped-update', spec='same(__arg, rho * messages[__key] + (1.0 - rho) * new[__key])'),
    dict(container='mu', nth=1, of=1, name='belief-equation',
         spec='same(__arg, ((pot[r] + sum(messages[c, r] for c in self.children[r]) - sum(messages[r, p] for p in self.parents[r])) / c0[r] + '
              '(np.log(self.total) - ((pot[r] + sum(messages[c, r] for c in self.children[r]) - sum(messages[r, p] for p in self.parents[r])) / c0[r]).logsumexp())).exp())'),
]
HPS = dict(
    params=dict(self='obj:RegionGraph', potentials='obj:dict', callback='obj:'),
    attr_types={('RegionGraph', 'total'): 'real', ('RegionGraph', 'iters'): 'int', ('RegionGraph', 'damping'): 'real'},
    requires=['self.total > 0'], division='abort', numeric_objects=True,
    pure={'tuple': 'obj:tuple', 'set': 'obj:set', 'CliqueVector': 'obj', '.project': 'obj', 'Factor.zeros': 'obj', '.is_converged': 'bool', 'np.log': 'real'},
    uses_locals=['c0', 'cc', 'pot', 'messages', 'new', 'mu', 'rho', 'belief'],
    sites=SITES,
    ensures={},
)
ITEM = (REL, 'RegionGraph.hazan_peng_shashua', HPS)


def hooks():
    return LinHooks(real_dicts=('c0', 'cc'), vector_dicts=('new', 'messages', 'pot', 'mu'), sites=SITES)


def local_tables_report():
    """The message weights `cc`, the candidate messages `new` and the beliefs `mu` are tables this function fills itself, entry by
    entry, through the stores the site contracts above speak about: each of these names is bound only to an empty dict literal
    (a table computed elsewhere - e.g. before the region graph was pruned - would bypass the contracts)."""
    import ast, time
    from .. import frontend
    from ..deductive import FunctionReport
    from ..vc.solver import Obligation
    rel, q, _ = ITEM
    r = FunctionReport(rel, q + ' [tables under site contracts are filled here]')
    t0 = time.time()
    try:
        fn, _, sha = frontend.get_function(rel, q)
        r.sha = sha
        for name in ('cc', 'new', 'mu'):
            binds = [n.value for n in ast.walk(fn) if isinstance(n, ast.Assign) for t in n.targets if isinstance(t, ast.Name) and t.id == name]
            ok = bool(binds) and all((isinstance(b, ast.Dict) and not b.keys) or (isinstance(b, ast.Call) and ast.unparse(b.func) == 'dict' and not b.args and not b.keywords)
                                     for b in binds)
            o = Obligation('%s::%s/filled-here#%s' % (rel, q, name), [], None, function='%s::%s' % (rel, q), kind='frame')
            o.verdict = 'discharged' if ok else ('unknown' if not binds else 'refuted')
            o.reason = '' if binds else 'the function no longer binds `%s`' % name
            o.backend, o.model = 'assignment scan of the function text', ({} if ok else {'bound_to': [ast.unparse(b) for b in binds]})
            o.meta = {'base': o.name}
            r.obligations.append(o)
    except frontend.MissingAnchor as e:
        r.undecided = 'anchor missing: %s' % e
    r.vacuity = []
    r.seconds = time.time() - t0
    return r


def fixed_point_report():
    """C17 "agree on every shared sub-region": a LEMMA over the update equations verified above (pv/vc/lemmas.py:
    hps_fixed_point_consistency, machine-checked by z3 on every run with a vacuity guard) - at a stationary point of the convex
    message passing, the parent's belief summed down to a child region and the child's belief differ by one additive constant, which
    their common normalisation removes.  The lemma needs all counting numbers to be 1 in the convex case (then the upward weight is
    1 / (1 + number of parents)): decided on build_graph's text.  Reaching a stationary point ("run to convergence") is not within
    deductive reach; the bounded tier measures it."""
    import ast, time
    from .. import frontend
    from ..deductive import FunctionReport
    from ..vc.solver import Obligation
    from ..vc import lemmas
    import z3
    rel = REL
    r = FunctionReport(rel, 'RegionGraph.hazan_peng_shashua [stationary messages give consistent beliefs]')
    t0 = time.time()
    v, sec = lemmas.hps_fixed_point_consistency()
    o = Obligation('pv/vc/lemmas.py::hps-fixed-point-consistency', [], None, function='%s::RegionGraph.hazan_peng_shashua' % rel, kind='lemma')
    o.verdict = v if v in ('discharged', 'refuted') else 'unknown'
    o.backend, o.seconds, o.reason = 'z3-%s (linear real arithmetic over the monomials P*U)' % z3.get_version_string(), sec, ('' if v == 'discharged' else v)
    o.meta = {'base': o.name}
    r.obligations.append(o)
    v3, sec3 = lemmas.hps_belief_is_stationary()
    o3 = Obligation('pv/vc/lemmas.py::hps-belief-is-stationary', [], None, function='%s::RegionGraph.hazan_peng_shashua' % rel, kind='lemma')
    o3.verdict = v3 if v3 in ('discharged', 'refuted') else 'unknown'
    o3.backend, o3.seconds, o3.reason = 'z3-%s (linear real arithmetic)' % z3.get_version_string(), sec3, ('' if v3 == 'discharged' else v3)
    o3.meta = {'base': o3.name}
    r.obligations.append(o3)
    try:
        fn, _, sha = frontend.get_function(rel, 'RegionGraph.build_graph')
        r.sha = sha
        ok = False
        for n in ast.walk(fn):
            if isinstance(n, ast.If) and ast.unparse(n.test).replace(' ', '') == 'self.convex':
                for s_ in n.body:
                    if isinstance(s_, ast.Assign) and ast.unparse(s_.targets[0]) == 'self.counting_numbers' and isinstance(s_.value, ast.DictComp) \
                            and isinstance(s_.value.value, ast.Constant) and float(s_.value.value.value) == 1.0 and not s_.value.generators[0].ifs \
                            and isinstance(s_.value.key, ast.Name) and isinstance(s_.value.generators[0].target, ast.Name) \
                            and s_.value.key.id == s_.value.generators[0].target.id and ast.unparse(s_.value.generators[0].iter) in ('regions', 'self.regions'):
                        ok = True
        o2 = Obligation('%s::RegionGraph.build_graph/convex-counting-numbers-are-all-one' % rel, [], None, function='%s::RegionGraph.build_graph' % rel, kind='wiring')
        o2.verdict = 'discharged' if ok else 'unknown'
        o2.backend, o2.seconds = 'syntactic (AST match)', 0.0
        o2.reason = '' if ok else 'no `if self.convex: self.counting_numbers = {r: 1.0 for r in regions}` found: the lemma\'s weight 1/(1+P) is not established'
        o2.meta = {'base': o2.name}
        r.obligations.append(o2)
    except frontend.MissingAnchor as e:
        r.undecided = 'anchor missing: %s' % e
    r.vacuity = []
    r.seconds = time.time() - t0
    return r
