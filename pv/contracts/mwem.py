"""Sidecar contracts for mechanisms/mwem+pgm.py (C05 ledger, C06 flow).

Adjacency is the mechanism's `bounded` flag: add/remove (L1 = L2 sensitivity 1) or replace one
record (L1 = 2, L2 = sqrt 2) — lemma L-sens.  The record count is public exactly under replace.
Budget postcondition (from the property): Laplace mode spends <= epsilon (pure DP), Gaussian
mode <= cdp_rho(epsilon, delta) (zCDP).
"""
import z3
from ..vc import engine as E
from . import mech_common as M

REL = 'mechanisms/mwem+pgm.py'
BOUNDED = z3.Bool('bounded')


def _sqrt2(eng, st):
    s = eng.sqrt_term(z3.RealVal(2))
    st.assume(z3.And(s >= 0, s * s == 2))
    return s


def S1(eng, st):
    return z3.If(BOUNDED, z3.RealVal(2), z3.RealVal(1))


def S2(eng, st):
    return z3.If(BOUNDED, _sqrt2(eng, st), z3.RealVal(1))


class _Env(dict):
    """SENS1 / SENS2 as spec names (they depend on the symbolic `bounded` flag)."""


def hooks_for(contract):
    cfg = dict(sens1=S1, sens2=S2)
    cfg.update(contract.get('hook_cfg', {}))
    return M.MechHooks(cfg)


def _env(eng_unused=None):
    return {}


ENV = {}

# ------------------------------------------------------------------ worst_approximated (flow; its probabilities are C20's contract)
def _answers(eng, name):
    # dict clique -> private marginal vector
    return E.Obj(z3.Const(name, E.V), cls='dict', taint=E.TRUE,
                 ghost={'elem_ghost': {'shape': ('privvec', S1(eng, None), z3.If(BOUNDED, eng.sqrt_term(z3.RealVal(2)), z3.RealVal(1)))},
                        'len_taint': E.FALSE})

WORST = dict(
    params=dict(workload_answers=_answers, est='obj:model', workload='seq:obj', eps='real', penalty='bool', bounded=E.BoolV(BOUNDED)),
    requires=[], hook_cfg=dict(inline_selection=True),
    local_types={'errors': 'arr:real'},
    ensures={'exactly-one-selection': 'ghost("n_selections") == 1'},
    ghost0={'n_selections': 0},
)

def _worst_effect(eng, st, bound, res, node):
    """Callee contract of worst_approximated as used by mwem_pgm.  C20 proves on its body that it selects with
    log-odds eps/(2*declared) * (err_i - err_j), declared = 2 if bounded else 1, err = L1 error (minus a public penalty);
    by L-sens the L1 error has sensitivity SENS1, so by L-dp the selection is (eps*SENS1/declared)-DP."""
    declared = z3.If(eng.truth(st, bound['bounded']), z3.RealVal(2), z3.RealVal(1))
    actual = S1(eng, st)
    eff = bound['eps'].real() * actual / declared
    st.ghost['ledger_rho'] = st.ghost['ledger_rho'] + eff * eff / 8
    st.ghost['ledger_eps'] = st.ghost['ledger_eps'] + eff
    return E.Obj(eng.fresh('selected', E.V), taint=E.FALSE)

WORST_CALLEE = dict(
    arg_names=['workload_answers', 'est', 'workload', 'eps', 'penalty', 'bounded'], defaults={'penalty': 'True', 'bounded': 'False'},
    requires=['public(est)', 'public(workload)', 'public(eps)', 'public(penalty)', 'public(bounded)', 'eps >= 0'],
    ensures={}, effect=_worst_effect, returns_public=True,
)

# ------------------------------------------------------------------ mwem_pgm
def _data(eng, name):
    from ..vc import privacy as P
    return P.priv_dataset(eng, name, records_taint=z3.Not(BOUNDED))     # n is fixed (public) under replace adjacency


def mwem(rounds_ty, workload_ty):
    return dict(
        params=dict(data=_data, epsilon='real', delta='real', workload=workload_ty, rounds=rounds_ty, maxsize_mb='real',
                    pgm_iters='int', noise='obj:str', bounded=E.BoolV(BOUNDED), alpha='real'),
        requires=['epsilon > 0', 'alpha > 0', 'alpha < 1', 'ghost("ledger_rho") == 0', 'ghost("ledger_eps") == 0'],
        sqrt='nan',
        local_types={'i': 'int', 'ax': 'obj:', 'x': 'obj:', 'y': 'obj:', 'n': 'obj:', 'Q': 'obj:', 'candidates': 'obj:list'},
        loops={1: dict(invariant=['i >= 1',
                                  'implies(noise == "laplace", ghost("ledger_eps") <= (i-1)*epsilon/rounds)',
                                  'implies(noise != "laplace", ghost("ledger_rho") <= (i-1)*cdp_rho(epsilon, delta)/rounds)'])},
        ensures={'budget-pure-dp-in-laplace-mode': 'implies(noise == "laplace", ghost("ledger_eps") <= epsilon)',
                 'budget-zcdp-in-gaussian-mode': 'implies(noise != "laplace", ghost("ledger_rho") <= cdp_rho(epsilon, delta))'},
    )

REG = {'cdp_rho': M.CDP_RHO, 'worst_approximated': WORST_CALLEE}

FUNCTIONS = [
    ('worst_approximated', WORST, {}),
    ('mwem_pgm', mwem('int', 'obj:list'), REG),
    ('mwem_pgm', mwem('none', 'none'), REG),
]
LABELS = ['', 'rounds,workload given', 'rounds,workload defaulted']
