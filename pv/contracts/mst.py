"""Sidecar contracts for mechanisms/mst.py (C05 ledger, C06 flow).

Adjacency: add/remove one record, so a marginal count vector has L1 = L2 sensitivity 1 (L-sens).
Budget postcondition of MST (from the property): privacy spent <= cdp_rho(epsilon, delta).
"""
import z3
from ..vc import engine as E
from . import mech_common as M

REL = 'mechanisms/mst.py'
S1 = S2 = z3.RealVal(1)
ENV = M.sens_module_env(S1, S2)


def cfg(**kw):
    d = dict(sens1=S1, sens2=S2)
    d.update(kw)
    return d


# ------------------------------------------------------------------ measure
MEASURE = dict(
    params=dict(data=M.dataset_param(), cliques='seq:obj', sigma='npreal', weights='none'),
    requires=['sigma > 0'],          # every call site passes sqrt(3/(2 rho)) with rho > 0
    sqrt='nan',
    local_types={'x': 'obj:', 'y': 'obj:', 'Q': 'obj:'},
    # upper bounds only: the property is "never spends more", so a more conservative implementation still verifies
    loops={1: dict(invariant=['ghost("ledger_rho") <= ledger_rho__pre + SENS2*SENS2*sumsq(weights, _it)/(2*sigma*sigma)'])},
    ensures={'ledger': 'ghost("ledger_rho") <= ledger_rho__pre + SENS2*SENS2/(2*sigma*sigma)'},
)
MEASURE_CALLEE = dict(
    arg_names=['data', 'cliques', 'sigma', 'weights'], defaults={'weights': 'None'},
    requires=['sigma > 0', 'public(cliques)', 'public(sigma)', 'weights is None'],
    ghost_modifies=['ledger_rho', 'ledger_eps'], returns='obj:list', returns_public=True,
    ensures={'ledger': 'ghost("ledger_rho") <= ledger_rho__pre + SENS2*SENS2/(2*sigma*sigma)'},
)

# ------------------------------------------------------------------ transform_data / reverse_data / compress_domain
def _returns_dataset(hooks, eng, st, val, node):
    sh = (getattr(val, 'ghost', None) or {}).get('shape')
    ok = bool(sh) and sh[0] == 'dataset'
    eng.oblige(st, 'flow/returns-dataset-over-public-domain@L%d' % node.lineno,
               z3.Not(z3.simplify(val.g('domain_taint', E.TRUE))) if ok else E.FALSE, kind='information-flow')

TRANSFORM = dict(
    params=dict(data=M.dataset_param(), supports='obj:dict'), requires=[],
    hook_cfg=dict(return_check=_returns_dataset),
    ensures={},
)

def _transform_effect(eng, st, bound, res, node):
    return M.mk_dataset(eng, eng.fresh('compressed', E.V), domain_taint=bound['supports'].taint)

TRANSFORM_CALLEE = dict(arg_names=['data', 'supports'], requires=['public(supports)'], ensures={}, effect=_transform_effect)

REVERSE = dict(params=dict(data='obj:Dataset', supports='obj:dict'), requires=[], ensures={})      # post-processing of public values only

def _compress_return(hooks, eng, st, val, node):
    ok = isinstance(val, E.Tup) and len(val.items) == 3
    if not ok:
        eng.oblige(st, 'flow/compress-returns-triple@L%d' % node.lineno, E.FALSE, kind='information-flow')
        return
    d, ms, fn = val.items
    _returns_dataset(hooks, eng, st, d, node)
    hooks.public(eng, st, ms, 'returned-measurements', node)
    sup = st.env.get('supports')
    hooks.public(eng, st, sup if sup is not None else E.Obj(None, taint=E.TRUE), 'supports-captured-by-undo', node)

COMPRESS = dict(
    params=dict(data=M.dataset_param(), measurements='seq:obj'), requires=[], uses_locals=['supports'],
    hook_cfg=dict(return_check=_compress_return),
    ensures={'ledger-untouched': 'ghost("ledger_rho") == ledger_rho__pre'},
)

def _compress_effect(eng, st, bound, res, node):
    return E.Tup([M.mk_dataset(eng, eng.fresh('compressed', E.V)), E.Obj(eng.fresh('log', E.V), cls='list'),
                  E.Obj(eng.fresh('undo', E.V), cls='function')])

COMPRESS_CALLEE = dict(arg_names=['data', 'measurements'], requires=['public(measurements)'], ensures={}, effect=_compress_effect)

# ------------------------------------------------------------------ select
SELECT = dict(
    params=dict(data=M.dataset_param(), rho='real', measurement_log='obj:list'),
    requires=['rho >= 0'], sqrt='nan',
    local_types={'idx': 'int'},
    loops={3: dict(invariant=['i >= 0', 'ghost("ledger_rho") <= ledger_rho__pre + i*(epsilon*SENS1)*(epsilon*SENS1)/8'])},
    ensures={'ledger': 'ghost("ledger_rho") <= ledger_rho__pre + SENS1*SENS1*rho'},
)
SELECT_CALLEE = dict(
    arg_names=['data', 'rho', 'measurement_log', 'cliques'], defaults={'cliques': '[]'},
    requires=['rho >= 0', 'public(rho)', 'public(measurement_log)'],
    ghost_modifies=['ledger_rho', 'ledger_eps'], returns='obj:list', returns_public=True,
    ensures={'ledger': 'ghost("ledger_rho") <= ledger_rho__pre + SENS1*SENS1*rho'},
)

# ------------------------------------------------------------------ MST
MST = dict(
    params=dict(data=M.dataset_param(), epsilon='real', delta='real'),
    requires=['ghost("ledger_rho") == 0'], sqrt='nan',
    ensures={'budget': 'ghost("ledger_rho") <= cdp_rho(epsilon, delta)'},
)

REG_MST = {'cdp_rho': M.CDP_RHO, 'measure': MEASURE_CALLEE, 'compress_domain': COMPRESS_CALLEE, 'select': SELECT_CALLEE}
REG_COMPRESS = {'transform_data': TRANSFORM_CALLEE}

# (qualified name, contract, registry)
FUNCTIONS = [
    ('measure', MEASURE, {}),
    ('transform_data', TRANSFORM, {}),
    ('reverse_data', REVERSE, {}),
    ('compress_domain', COMPRESS, REG_COMPRESS),
    ('select', SELECT, {}),
    ('MST', MST, REG_MST),
]


def hooks_for(contract):
    return M.MechHooks(cfg(**contract.get('hook_cfg', {})))
