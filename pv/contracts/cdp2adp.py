"""Sidecar contracts for mechanisms/cdp2adp.py (C07, used by C05).

`cdp_delta` is *opaque* inside cdp_rho / cdp_eps: their proofs use only its contract, so they
hold for the floating-point function that actually runs.  Postconditions come from the
property statement (soundness of the returned budget); invariants from the code.
"""
REL = 'mechanisms/cdp2adp.py'

# contract of cdp_delta as seen by callers; each clause is proved on cdp_delta's own body below
CDP_DELTA_CALLEE = dict(
    arg_names=['rho', 'eps'], returns='real', pure=True,
    requires=['rho >= 0', 'eps >= 0'],
    ensures={'range': '0 <= result and result <= 1',
             'zero-budget': 'implies(rho == 0, result == 0)'},
)

CDP_DELTA = dict(
    params={'rho': 'real', 'eps': 'real'},
    local_types={'alpha': 'real', 'derivative': 'real'},
    total=True,         # also prove that no math-domain error / division by zero can occur
    requires=[],        # rho >= 0 and eps >= 0 are asserts in the body
    ensures={'range': '0 <= result and result <= 1',
             'zero-budget': 'implies(rho == 0, result == 0)',
             'renyi-order-above-one': 'implies(rho != 0, alpha > 1)'},
    # weakest invariants that carry alpha > 1 (the literal 1.01 is not part of the contract)
    loops={1: dict(invariant=['amin >= 1', 'amax > 1', 'amin <= amax',
                              'implies(i >= 1, alpha > 1 and amin <= alpha and alpha <= amax)'])},
)

CDP_RHO = dict(
    params={'eps': 'real', 'delta': 'real'},
    local_types={'rho': 'real'},
    requires=[],
    ensures={'nonneg': 'result >= 0',
             'sound': 'delta >= 1 or cdp_delta(result, eps) <= delta',
             'bracket-width': 'delta >= 1 or rhomax - rhomin == (eps + 1) * halfpow(1000)',
             'not-looser-than-necessary': 'delta >= 1 or cdp_delta(rhomax, eps) > delta or rhomax == eps + 1',
             'returns-lower-end': 'delta >= 1 or result == rhomin'},
    loops={1: dict(invariant=['0 <= rhomin', 'rhomin <= rhomax',
                              'cdp_delta(rhomin, eps) <= delta',
                              'rhomax - rhomin == (eps + 1) * halfpow(i)',
                              'cdp_delta(rhomax, eps) > delta or rhomax == eps + 1'])},
)

CDP_EPS = dict(
    params={'rho': 'real', 'delta': 'real'},
    local_types={'eps': 'real'},
    requires=[],
    ensures={'nonneg': 'result >= 0',
             'sound-or-initial-upper-bound':
                 'delta >= 1 or rho == 0 or cdp_delta(rho, result) <= delta or '
                 'result == rho + 2*math.sqrt(rho*math.log(1/delta))',
             'bracket-width': 'delta >= 1 or rho == 0 or '
                              'epsmax - epsmin == (rho + 2*math.sqrt(rho*math.log(1/delta))) * halfpow(1000)',
             'not-looser-than-necessary': 'delta >= 1 or rho == 0 or cdp_delta(rho, epsmin) > delta or epsmin == 0',
             'returns-upper-end': 'delta >= 1 or rho == 0 or result == epsmax'},
    loops={1: dict(invariant=['0 <= epsmin', 'epsmin <= epsmax',
                              'cdp_delta(rho, epsmax) <= delta or epsmax == rho + 2*math.sqrt(rho*math.log(1/delta))',
                              'epsmax - epsmin == (rho + 2*math.sqrt(rho*math.log(1/delta))) * halfpow(i)',
                              'cdp_delta(rho, epsmin) > delta or epsmin == 0'])},
)

REGISTRY = {'cdp_delta': CDP_DELTA_CALLEE}
FUNCTIONS = [('cdp_delta', CDP_DELTA, {}), ('cdp_rho', CDP_RHO, REGISTRY), ('cdp_eps', CDP_EPS, REGISTRY)]
