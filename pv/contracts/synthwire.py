"""GraphicalModel.synthetic_data (C11): how many rows, over which domain, and which table generates which column.

    total            = int(self.total) when `rows` is not given, `rows` otherwise; the frame has that many rows and one column per
                       attribute of the model's domain; the result is a Dataset over the model's domain built from that frame
    first column     = synthetic_col(marginal of that attribute, total)
    a later column   = per group of the already generated conditioning columns, synthetic_col(marg[group key], size of the group), where
                       marg is the model's marginal on (conditioning attributes..., column) - so every group gets exactly as many values
                       as it has rows (synthetic_col's own contract: pv/contracts/synth.py); without conditioning attributes,
                       synthetic_col(marg, number of rows of the frame)
The inner synthetic_col is treated through its contract (a deterministic-looking opaque callee here; its randomness is not the
subject of these clauses).  pandas groupby / apply semantics (each group handed to `foo` once, `group.name` its key): extern.
"""
import z3
from ..vc import engine as E
from ..vc.sitehooks import SiteSpecHooks

REL = 'src/mbi/graphical_model.py'
PURE = {'synthetic_col': 'obj', 'int': 'obj', 'np.zeros': 'obj', 'pd.DataFrame': 'obj', 'set': 'obj', 'len': 'int', '.project': 'obj', '.datavector': 'obj',
        '.intersection': 'obj', 'set.union': 'obj', 'tuple': 'obj', 'list': 'obj', '.groupby': 'obj', '.apply': 'obj', 'Dataset': 'obj:Dataset', '.add': 'obj'}

SD_SITES = [
    dict(func='np.zeros', arg=0, name='frame-has-total-rows-and-one-column-per-attribute', spec='same(__arg, (total, len(self.domain.attrs)))'),
    dict(func='pd.DataFrame', arg='columns', name='columns-are-the-attributes-of-the-model', spec='same(__arg, self.domain.attrs)'),
    dict(func='synthetic_col', arg=1, name='ungrouped-column-gets-one-value-per-row', spec='same(__arg, total) or same(__arg, df.shape[0])'),
    dict(func='Dataset', arg=1, name='result-over-the-models-domain', spec='same(__arg, self.domain)'),
    dict(func='Dataset', arg=0, name='result-built-from-the-generated-frame', spec='same(__arg, df)'),
]
SD = dict(params=dict(self='obj:GraphicalModel', rows='obj:', method='obj:'), requires=[], pure=PURE, mutators={'.add': None},
          uses_locals=['total', 'df', 'cols'], sites=SD_SITES, loops={1: dict(invariant=[])},
          ensures={'one-result': 'ghost("n_site_result-over-the-models-domain") == 1',
                   'row-count-is-the-request-or-the-integer-part-of-the-total': 'same(total, int(self.total)) if rows is None else same(total, rows)'})

FOO_SITES = [
    dict(func='synthetic_col', arg=0, name='group-generated-from-the-table-row-of-its-own-key', spec='same(__arg, marg[group.name])'),
    dict(func='synthetic_col', arg=1, name='group-gets-as-many-values-as-it-has-rows', spec='same(__arg, group.shape[0])'),
]
FOO = dict(params=dict(group='obj:'), requires=[], pure={'synthetic_col': 'obj'}, sites=FOO_SITES, uses_locals=['idx', 'vals'],
           # free names of the inner function (bound in synthetic_data): opaque objects
           module_env={'marg': E.Obj(z3.Const('marg', E.V)), 'col': E.Obj(z3.Const('col', E.V))},
           ensures={'the-group-is-handed-back': 'same(result, group)', 'one-draw-per-group': 'ghost("n_site_group-gets-as-many-values-as-it-has-rows") == 1'})

ITEMS = [(REL, 'GraphicalModel.synthetic_data', SD), (REL, 'GraphicalModel.synthetic_data.foo', FOO)]


def hooks_for(c):
    return SiteSpecHooks(c.get('sites', []))
