"""FactorGraph.loopy_belief_propagation (C16): the sum-product message equations on the factor graph, value-level (pv/vc/linvec.py).

    factor -> variable   mu_f[cl][v] = LSE_{cl \\ {v}}( potentials[cl] + sum_{c in cl} mu_n[c][cl] - mu_n[v][cl] ),   then centred
    variable -> factor   mu_n[v][f]  = sum_{cl in fac(v)} mu_f[cl][v] - mu_f[f][v],      fac(v) = the cliques containing v
On a tree factor graph these are the exact sum-product updates (the exactness clause of the property is decided bounded)."""
from ..vc.linvec import LinHooks

REL = 'src/mbi/factor_graph.py'
SITES = [
    dict(container='mu_f', nth=1, of=3, name='factor-to-variable:combination', spec='same(__arg, potentials[cl] + sum(mu_n[c][cl] for c in cl) - mu_n[v][cl])'),
    dict(container='mu_f', nth=2, of=3, name='factor-to-variable:summed-over-the-other-variables', spec='same(__arg, mu_f[cl][v].logsumexp([var for var in cl if var is not v]))'),
    dict(container='mu_f', nth=3, of=3, name='factor-to-variable:centred', spec='same(__arg, mu_f[cl][v] - mu_f[cl][v].logsumexp())'),
    dict(container='mu_n', nth=1, of=1, name='variable-to-factor-equation',
         spec='same(fac, [cl for cl in self.cliques if v in cl]) and same(__arg, sum(mu_f[cl][v] for cl in fac) - mu_f[f][v])'),
]
LBP = dict(
    params=dict(self='obj:FactorGraph', potentials='obj:dict', callback='obj:'),
    attr_types={('FactorGraph', 'total'): 'real', ('FactorGraph', 'iters'): 'int'}, requires=[], division='abort', numeric_objects=True,
    pure={'.clique_marginals': 'obj'}, uses_locals=['mu_n', 'mu_f', 'fac', 'pre', 'complement'],
    sites=SITES, ensures={},
)
ITEM = (REL, 'FactorGraph.loopy_belief_propagation', LBP)


def hooks():
    return LinHooks(real_dicts=(), vector_dicts=('mu_f', 'mu_n'), sites=SITES)
