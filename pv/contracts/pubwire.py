"""PublicInference.estimate (C19): what is optimised and what is handed back.

estimate:        the total the weights are scaled to is the caller's, or estimate_total(measurements) when none is given; the descent
                 starts from the estimator's current weights and runs on the inner loss_and_grad; the result is a Dataset over the
                 PUBLIC frame and domain (the records are unchanged) carrying exactly the weights the descent returned, which are also
                 stored on the estimator.
loss_and_grad:   the loss of a weight vector is _marginal_loss of the marginals (CliqueVector.from_data) of the public frame carrying
                 those weights, and the gradient with respect to the weight of record r adds up, over the measured cliques, the
                 loss gradient at the cell record r falls in (chain rule through the histogram; value-level, calls are
                 deterministic uninterpreted functions).
"""
import z3
from ..vc import engine as E
from ..vc.sitehooks import SiteSpecHooks

REL = 'src/mbi/public_inference.py'
PURE = {'estimate_total': 'obj', 'entropic_mirror_descent': 'obj', 'Dataset': 'obj:Dataset', 'CliqueVector.from_data': 'obj', '.from_data': 'obj',
        '._marginal_loss': 'obj', 'self._marginal_loss': 'obj', 'self.public_data.project': 'obj', 'np.zeros': 'obj', '.project': 'obj', 'tuple': 'obj'}

EST_SITES = [
    dict(func='entropic_mirror_descent', arg=1, name='descent-starts-from-the-current-weights', spec='same(__arg, self.weights)'),
    dict(func='entropic_mirror_descent', arg=2, kw='total', name='weights-are-scaled-to-the-total-in-force',
         spec='same(__arg, total__old) if total__old is not None else same(__arg, estimate_total(measurements))'),
    dict(func='Dataset', arg=0, name='result-over-the-public-records', spec='same(__arg, self.public_data.df)'),
    dict(func='Dataset', arg=1, name='result-over-the-public-domain', spec='same(__arg, self.public_data.domain)'),
    dict(func='Dataset', arg=2, kw='weights', name='result-carries-the-weights-the-descent-returned', spec='__arg is ghost("descent_result")'),
]
ESTIMATE = dict(params=dict(self='obj:PublicInference', measurements='obj:list', total='obj:'), requires=[], pure=PURE,
                sites=EST_SITES,
                ensures={'one-descent-one-result': 'ghost("n_site_weights-are-scaled-to-the-total-in-force") == 1 and ghost("n_site_result-over-the-public-records") == 1',
                         'descent-result-stored-as-the-estimators-weights': 'self.weights is ghost("descent_result")',
                         'measurements-remembered-for-the-objective': 'same(self.measurements, measurements)'})

LG_SITES = [
    dict(func='Dataset', arg=0, name='objective-over-the-public-records', spec='same(__arg, self.public_data.df)'),
    dict(func='Dataset', arg=1, name='objective-over-the-public-domain', spec='same(__arg, self.public_data.domain)'),
    dict(func='Dataset', arg=2, kw='weights', name='objective-at-the-candidate-weights', spec='same(__arg, weights)'),
    dict(func='CliqueVector.from_data', arg=0, name='marginals-of-the-reweighted-public-data', spec='same(__arg, est)'),
    dict(func='CliqueVector.from_data', arg=1, name='marginals-on-the-measured-cliques', spec='same(__arg, cliques)'),
    dict(func='self._marginal_loss', arg=0, name='loss-of-those-marginals', spec='same(__arg, mu)'),
    dict(func='self._marginal_loss', arity=1, name='loss-under-the-estimators-own-metric'),
]
GRAD_SITES = [
    dict(local='dweights', nth=2, of=2, name='chain-rule:each-record-collects-the-loss-gradient-at-its-own-cell',
         # the cell of record r under clique cl: read from the re-weighted copy or from the public data itself (same frame)
         spec='same(__arg, dweights + dL[cl].values[tuple(est.project(cl).df.values.T)]) or '
              'same(__arg, dweights + dL[cl].values[tuple(self.public_data.project(cl).df.values.T)])'),
]
LOSS_AND_GRAD = dict(params=dict(weights='obj:'), requires=[], pure=PURE,
                     # free names of the inner function (bound in estimate): opaque objects
                     module_env={'self': E.Obj(z3.Const('self', E.V), cls='PublicInference'), 'cliques': E.Obj(z3.Const('cliques', E.V), cls='list')},
                     sites=LG_SITES, uses_locals=['loss', 'dweights', 'dL', 'est', 'cl', 'mu'], numeric_objects=True,
                     ensures={'loss-returned-as-computed': 'same(result[0], loss)', 'gradient-returned-as-accumulated': 'same(result[1], dweights)'})

# the constructor: the public data and metric as given; the descent's first starting point is one unit of weight per public record
INIT = dict(params=dict(self='obj:PublicInference', public_data='obj:Dataset', metric='obj:'), requires=[], pure={'np.ones': 'obj'},
            sites=[dict(func='np.ones', arg=0, name='one-weight-per-public-record', spec='same(__arg, public_data.records)')],
            ensures={'public-data-and-metric-as-given': 'same(self.public_data, public_data) and same(self.metric, metric)',
                     'uniform-starting-weights': 'same(self.weights, np.ones(public_data.records))'})

ITEMS = [(REL, 'PublicInference.__init__', INIT), (REL, 'PublicInference.estimate', ESTIMATE), (REL, 'PublicInference.estimate.loss_and_grad', LOSS_AND_GRAD)]


class _DescentResult:
    """The weights entropic_mirror_descent returns, remembered as a ghost so that contracts can say where they end up."""
    def init(self, eng, st):
        st.ghost['descent_result'] = eng.fresh('no_descent_ran', E.V)

    def call(self, eng, st, name, recv, args, kw, node):
        if recv is None and name == 'entropic_mirror_descent':
            o = E.Obj(eng.fresh('descent_weights', E.V), cls='ndarray')
            st.ghost['descent_result'] = o.t
            return o
        return NotImplemented


def hooks_for(c):
    if c is LOSS_AND_GRAD:
        from ..vc.linvec import LinHooks
        return SiteSpecHooks(c.get('sites', []), inner=LinHooks(real_dicts=(), vector_dicts=(), sites=GRAD_SITES, tables_are_factors=False))
    return SiteSpecHooks(c.get('sites', []), inner=_DescentResult())
