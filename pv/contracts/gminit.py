"""GraphicalModel.__init__: the structure attributes every exact-inference routine reads (cliques, message_order, sep_axes,
neighbors, elimination_order) are those of ONE junction tree built from the constructor's own arguments, taken as the tree
returns them.  In particular `self.cliques` is `tree.maximal_cliques()` in the tree's order: `mle` (C08) subtracts from each
clique the part already covered by the cliques before it, which is only a valid factorisation in that order (L-mle), and
belief propagation (C01) starts its normalisation from `self.cliques[0]`."""
REL = 'src/mbi/graphical_model.py'
INIT = dict(
    params=dict(self='obj:GraphicalModel', domain='obj:Domain', cliques='obj:', total='obj:', elimination_order='obj:'), requires=[],
    pure={'JunctionTree': 'obj:JunctionTree', '.maximal_cliques': 'obj', '.mp_order': 'obj', '.separator_axes': 'obj', '.neighbors': 'obj',
          'sum': 'real', '.size': 'real'},
    local_types={}, loops={},
    ensures={'one-tree-from-the-given-arguments': 'same(self.junction_tree, JunctionTree(domain, cliques, elimination_order))',
             'cliques-as-the-tree-returns-them': 'same(self.cliques, self.junction_tree.maximal_cliques())',
             'schedule-of-the-same-tree': 'same(self.message_order, self.junction_tree.mp_order())',
             'separators-of-the-same-tree': 'same(self.sep_axes, self.junction_tree.separator_axes())',
             'neighbours-of-the-same-tree': 'same(self.neighbors, self.junction_tree.neighbors())',
             'elimination-order-of-the-same-tree': 'same(self.elimination_order, self.junction_tree.elimination_order)',
             'domain-and-total-as-given': 'same(self.domain, domain) and same(self.total, total)'})
ITEM = (REL, 'GraphicalModel.__init__', INIT)
