"""Which numerical routine aggregates (C01 "stays finite for potentials far outside the range of exp()", C10 "no answer is NaN"):
Factor.logsumexp hands the table to scipy.special.logsumexp (max-shifted, -inf aware: extern contract) over exactly the axes
of the attributes to remove, in both of its forms (whole table / named attributes); Factor.sum and Factor.max likewise to
np.sum / np.max.  Value-level counterpart of the label-level contracts in pv/contracts/factor.py.

A body that no longer delegates to the library routine (a hand-rolled reduction) is NOT refuted - it may be correct - but leaves
the numerical clause undecided: the postcondition then rests on an unmodelled answer.  The bounded tiers of C01 / C10 exercise
extreme magnitudes and all-(-inf) slices.
"""
import z3
from ..vc import engine as E
from ..vc.sitehooks import SiteSpecHooks

REL = 'src/mbi/factor.py'


class _Delegation:
    def call(self, eng, st, name, recv, args, kw, node):
        if recv is None and name == 'delegated' and len(args) == 1 and isinstance(args[0], E.Const):
            # spec function: the named site fired exactly once on this path; if it did not fire at all the body aggregates some other
            # way, which this contract does not judge (an unmodelled answer: inconclusive)
            n = st.ghost.get('n_site_' + args[0].v, z3.IntVal(0))
            n = z3.simplify(n)
            if z3.is_int_value(n) and n.as_long() == 0:
                return E.BoolV(eng.fresh('havoc_aggregation_not_delegated', z3.BoolSort()))
            return E.BoolV(n == 1)
        return NotImplemented


def _contract(fn, whole_expr):
    sites = [dict(func=fn, arg=0, name='%s:aggregates-the-factors-own-table' % fn, spec='same(__arg, self.values)'),
             dict(func=fn, arg='axis', name='%s:over-the-axes-of-the-attributes-to-remove' % fn, spec='same(__arg, self.domain.axes(attrs))')]
    named = dict(params=dict(self='obj:Factor', attrs='obj:'), requires=['attrs is not None'],
                 pure={'.axes': 'obj', '.marginalize': 'obj', 'Factor': 'obj:Factor', fn: 'obj'}, sites=sites, uses_locals=['values', 'newdom'],
                 ensures={'delegates-to-the-library-routine': 'delegated("%s:over-the-axes-of-the-attributes-to-remove")' % fn,
                          'result-on-the-remaining-attributes': 'same(result, Factor(self.domain.marginalize(attrs), values))'})
    whole = dict(params=dict(self='obj:Factor', attrs='none'), requires=[], pure={fn: 'obj', '.max': 'obj'},
                 ensures={'whole-table-reduced-by-the-library-routine': 'same(result, %s)' % whole_expr})
    return named, whole


ITEMS = []
for meth, fn, whole in (('logsumexp', 'logsumexp', 'logsumexp(self.values)'), ('sum', 'np.sum', 'np.sum(self.values)'), ('max', 'np.max', 'self.values.max()')):
    named, whole_c = _contract(fn, whole)
    ITEMS.append((REL, 'Factor.' + meth, named, 'named attributes'))
    ITEMS.append((REL, 'Factor.' + meth, whole_c, 'whole table'))


def hooks_for(c):
    return SiteSpecHooks(c.get('sites', []), inner=_Delegation())


def reports(methods=('logsumexp', 'sum', 'max')):
    from .. import deductive
    return [deductive.verify_function(rel, q, c, hooks=hooks_for(c), prefix='%s::%s[%s: routine]' % (rel, q, label))
            for rel, q, c, label in ITEMS if q.split('.')[-1] in methods]
