"""Sidecar contracts for the objective-related helpers of src/mbi/inference.py (C04).

fix_measurements   output has the same length and order; proj str -> (proj,), list -> tuple, tuple unchanged;
                   Q None -> identity of size domain.size(proj); y and noise passed through; (the caller's list is
                   only read: no statement of the function mutates it — checked syntactically by pv/ded/C04.py)
_setup (grouping)  each measurement is appended to at most one group, as the 4-tuple itself, under the FIRST clique of
                   sorted(self.model.cliques, key=self.model.domain.size) that contains its projection
_lipschitz         accumulates each measurement at most once, under the first containing clique of the SAME sorted
                   sequence — hence under the same clique as _setup (relational clause; L-spec then bounds the
                   Hessian's largest eigenvalue)
The loss / gradient formulas themselves are decided by the bounded tier (finite differences, independent oracle).
"""
from ..vc.sitehooks import SiteSpecHooks

REL = 'src/mbi/inference.py'
ENV = {}
M = 'measurements[k]'


def _pfix(m):
    p = '%s[3]' % m
    p1 = '(tuple(%s) if type(%s) is list else %s)' % (p, p, p)
    return '(%s if type(%s) is tuple else (%s,))' % (p1, p1, p1)


_ELEM = 'same(%%s[k], ((sparse.eye(self.domain.size(%s)) if %s[0] is None else %s[0]), %s[1], %s[2], %s))' % (_pfix(M), M, M, M, M, _pfix(M))

FIX = dict(
    params=dict(self='obj:FactoredInference', measurements='seq:obj'),
    pure={'sparse.eye': 'obj', '.size': 'obj', 'tuple': 'obj', 'np.isscalar': 'bool', 'all': 'bool', 'str': 'obj', 'type': 'obj'},
    local_types={'ans': 'seq:obj'}, requires=[],
    loops={1: dict(invariant=['len(ans) == _it', 'forall(lambda k: %s, 0, _it)' % (_ELEM % 'ans')])},
    ensures={'same-length': 'len(result) == len(measurements)',
             'elementwise-normalised-in-order': 'forall(lambda k: %s, 0, len(measurements))' % (_ELEM % 'result')},
)

def _selection_sequence():
    """The sequence _setup scans for the first clique containing a measurement, read from the tree under verification and
    rewritten over `self` (its locals `cliques` / `model` alias self.model.cliques / self.model at that point).  _lipschitz
    must scan the same sequence: the clause is relational, it does not prescribe a particular order."""
    import ast, re
    from .. import frontend
    try:
        fn, _, _ = frontend.get_function(REL, 'FactoredInference._setup')
        for n in ast.walk(fn):
            if isinstance(n, ast.For) and any(isinstance(b, ast.If) and 'groups' in ast.unparse(b) for b in n.body) and 'measurements' not in ast.unparse(n.iter):
                src = ast.unparse(n.iter)
                src = re.sub(r'(?<![\w.])cliques(?![\w])', 'self.model.cliques', src)
                src = re.sub(r'(?<![\w.])model(?![\w])', 'self.model', src)
                return src
    except Exception:
        pass
    return 'sorted(self.model.cliques, key=self.model.domain.size)'


CANON = _selection_sequence()
PURE = {'sorted': 'seq:obj', 'set': 'obj', 'GraphicalModel': 'obj:GraphicalModel', 'defaultdict': 'obj', 'aslinearoperator': 'obj',
        'eigsh': 'obj', 'np.dtype': 'obj', '.size': 'obj'}
ATTR = {('GraphicalModel', 'cliques'): 'obj:list', ('GraphicalModel', 'domain'): 'obj:Domain', ('FactoredInference', 'model'): 'obj:GraphicalModel',
        ('FactoredInference', 'domain'): 'obj:Domain'}

def _not_earlier(it):
    return 'forall(lambda j: not (set(proj) <= set(%s[j])), 0, %s)' % (CANON, it)


SETUP_GROUPING = dict(
    params=dict(self='obj:FactoredInference', measurements='seq:obj', total='obj:'), pure=PURE, attr_types=ATTR,
    requires=['total is not None', 'self.backend != "torch"'], mutators={'.combine': None},
    # loop ordinals (breadth-first over the function): 1 = grouping loop, 2 = total-estimation loop (not on this path), 3 = clique scan
    sites=[dict(func='.append', arg=0, name='groupappend',
                spec='same(__arg, (Q, y, noise, proj)) and (set(proj) <= set(cl)) and same(cl, %s[_it3]) and %s' % (CANON, _not_earlier('_it3')))],
    loops={1: dict(invariant=['ghost("n_site_groupappend") <= _it1']),
           3: dict(invariant=['ghost("n_site_groupappend") == n_site_groupappend__loop3', _not_earlier('_it3')])},
    ensures={'each-measurement-in-at-most-one-group': 'ghost("n_site_groupappend") <= len(measurements)'},
)

# what is added for measurement k under its clique: lambda_max(Q_k^T Q_k) * |clique| / |proj| / noise_k^2, with the eigenvalue
# computed from THIS measurement's query matrix (numbers are reals here, so the clause is about the value, not its spelling)
_OP = 'aslinearoperator(measurements[_it1][0])'
_TERM = 'as_real(eigsh(%s.H * %s, 1)[0][0]) * self.domain.size(cl) / self.domain.size(proj) / (noise * noise)' % (_OP, _OP)
LIPSCHITZ = dict(
    params=dict(self='obj:FactoredInference', measurements='seq:obj'), pure=dict(PURE, **{'.size': 'real'}), attr_types=ATTR, requires=[],
    unpack_types={'noise': 'real'}, division='abort', numeric_objects=True,
    sites=[dict(func='[]=', container='eigs', name='eigaccumulate',
                spec='same(__key, cl) and (set(proj) <= set(cl)) and same(cl, %s[_it2]) and %s' % (CANON, _not_earlier('_it2'))),
           dict(func='[]=', container='eigs', name='accumulated-term-is-this-measurements-eigenvalue-bound',
                spec='same(__arg, eigs[cl] + %s)' % _TERM)],
    loops={1: dict(invariant=['ghost("n_site_eigaccumulate") <= _it1']),
           2: dict(invariant=['ghost("n_site_eigaccumulate") == n_site_eigaccumulate__loop2', _not_earlier('_it2'),
                              'same(Q, measurements[_it1][0])', 'noise == as_real(measurements[_it1][2])'])},
    ensures={'each-measurement-accumulated-at-most-once': 'ghost("n_site_eigaccumulate") <= len(measurements)'},
)

FUNCTIONS = [
    ('FactoredInference.fix_measurements', FIX, {}, ''),
    ('FactoredInference._setup', SETUP_GROUPING, {}, 'grouping'),
    ('FactoredInference._lipschitz', LIPSCHITZ, {}, ''),
]


def hooks_for(contract):
    return SiteSpecHooks(contract.get('sites', []))
