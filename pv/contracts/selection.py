"""Sidecar contracts for the private-selection and noise primitives (C20).

The top-level statement (from the property): candidate i is picked with probability
proportional to  base_i * exp(eps * quality_i / (2 * sensitivity))  — factor 1 instead of 1/2
only in the declared monotonic variant.  Equivalently, for all candidates i, j

    log p_i - log p_j  ==  eps/(2*sens) * (q_i - q_j) + log base_i - log base_j

which is what the `choice` site contract states (shift invariance is a corollary: the
right-hand side only contains differences of qualities).
"""
from ..vc.dphooks import SiteHooks

MECH = 'mechanisms/mechanism.py'
MST = 'mechanisms/mst.py'
ADA = 'mechanisms/adaptive_grid.py'
MWEM = 'mechanisms/mwem+pgm.py'

GHOST0 = {'n_choice_sites': 0, 'n_noise_sites': 0, 'selected_idx': -1}
SELF_MECH = {'self': 'obj:Mechanism'}
ATTR = {('Mechanism', 'bounded'): 'bool', ('Mechanism', 'prng'): 'obj:prng'}


def em(params, logodds, n, ensures, requires=(), pure=None, loops=None, local_types=None):
    pos = ['%s > 0' % p for p in ('epsilon', 'eps', 'sensitivity') if p in params]
    return dict(params=params, requires=pos + list(requires), ensures=ensures, attr_types=ATTR, pure=pure or {},
                loops=loops or {}, local_types=local_types or {}, ghost0=GHOST0,
                sites={'choice': dict(logodds=logodds, n=n)})


# ---- Mechanism.exponential_mechanism: four spellings (array / dict) x (with / without base measure)
_EM_ARRAY = em(
    dict(self='obj:Mechanism', qualities='arr:real', epsilon='real', sensitivity='real', base_measure='none'),
    logodds='0.5*epsilon/sensitivity*(qualities__old[i] - qualities__old[j])', n='len(qualities__old)',
    ensures={'one-selection': 'ghost("n_choice_sites") == 1', 'returns-selected-index': 'result == ghost("selected_idx")'})
_EM_ARRAY_BASE = em(
    dict(self='obj:Mechanism', qualities='arr:real', epsilon='real', sensitivity='real', base_measure='arr:real'),
    # in the array spelling the caller passes the log of the base measure
    logodds='0.5*epsilon/sensitivity*(qualities__old[i] - qualities__old[j]) + base_measure__old[i] - base_measure__old[j]',
    n='len(qualities__old)', requires=['len(base_measure) == len(qualities)'],
    ensures={'one-selection': 'ghost("n_choice_sites") == 1', 'returns-selected-index': 'result == ghost("selected_idx")'})
_EM_DICT = em(
    dict(self='obj:Mechanism', qualities='dict:real', epsilon='real', sensitivity='real', base_measure='none'),
    logodds='0.5*epsilon/sensitivity*(qualities__old[key_at(qualities__old, i)] - qualities__old[key_at(qualities__old, j)])',
    n='len(qualities__old)',
    ensures={'one-selection': 'ghost("n_choice_sites") == 1',
             'returns-selected-key': 'same(result, key_at(qualities__old, ghost("selected_idx")))'})
_EM_DICT_BASE = em(
    dict(self='obj:Mechanism', qualities='dict:real', epsilon='real', sensitivity='real', base_measure='dict:real'),
    logodds='0.5*epsilon/sensitivity*(qualities__old[key_at(qualities__old, i)] - qualities__old[key_at(qualities__old, j)])'
            ' + np.log(base_measure__old[key_at(qualities__old, i)]) - np.log(base_measure__old[key_at(qualities__old, j)])',
    n='len(qualities__old)',
    ensures={'one-selection': 'ghost("n_choice_sites") == 1',
             'returns-selected-key': 'same(result, key_at(qualities__old, ghost("selected_idx")))'})

# ---- module-level exponential mechanisms of mst.py and adaptive_grid.py
_EM_FUNC = lambda mono: em(
    dict(q='arr:real', eps='real', sensitivity='real', prng='obj:prng', monotonic='bool'),
    logodds='(1.0 if monotonic else 0.5)*eps/sensitivity*(q[i] - q[j])', n='len(q)',
    ensures={'one-selection': 'ghost("n_choice_sites") == 1', 'returns-selected-index': 'result == ghost("selected_idx")'})

# ---- mwem+pgm.worst_approximated: quality = L1 error minus size penalty, sensitivity 2 under bounded adjacency
_ERR = ('np.abs(workload_answers[workload[%s]] - est.project(workload[%s]).datavector()).sum()'
        ' - (est.domain.size(workload[%s]) if penalty else 0)')
_WORST = em(
    dict(workload_answers='obj:dict', est='obj:model', workload='seq:obj', eps='real', penalty='bool', bounded='bool'),
    logodds='0.5*eps/(2.0 if bounded else 1.0)*((%s) - (%s))' % (_ERR % ('i', 'i', 'i'), _ERR % ('j', 'j', 'j')),
    n='len(workload)',
    pure={'.project': 'obj', '.datavector': 'obj', '.size': 'int', 'np.abs': 'obj', '.sum': 'npreal'},
    local_types={'errors': 'arr:real'},
    loops={1: dict(invariant=['len(errors) == _it',
                              'forall(lambda k: errors[k] == %s, 0, _it)' % (_ERR % ('k', 'k', 'k'))])},
    ensures={'one-selection': 'ghost("n_choice_sites") == 1',
             'returns-selected-candidate': 'same(result, workload[ghost("selected_idx")])'})
_WORST['attr_types'] = {**ATTR, ('model', 'domain'): 'obj:domain'}

# ---- noise-scale helpers and samplers
_LAPLACE_SCALE = dict(
    params=dict(self='obj:Mechanism', l1_sensitivity='real', epsilon='real'), attr_types=ATTR,
    ensures={'scale': 'result == (2*l1_sensitivity__old if self.bounded else l1_sensitivity__old)/epsilon'})
_GAUSS_SCALE = dict(
    params=dict(self='obj:Mechanism', l2_sensitivity='real', epsilon='real', delta='real'), attr_types=ATTR,
    pure={'privacy_calibrator.ana_gaussian_mech': 'obj'},
    ensures={'scale-doubles-under-bounded':
             'same(result, (2*l2_sensitivity__old if self.bounded else l2_sensitivity__old)'
             ' * privacy_calibrator.ana_gaussian_mech(epsilon, delta)["sigma"])'})
_GAUSS_NOISE = dict(
    params=dict(self='obj:Mechanism', sigma='real', size='obj:'), attr_types=ATTR, ghost0=GHOST0,
    sites={'normal': dict(loc='0', scale='sigma', size='size')},
    ensures={'one-sampler-call': 'ghost("n_noise_sites") == 1'})
_LAPLACE_NOISE = dict(
    params=dict(self='obj:Mechanism', b='real', size='obj:'), attr_types=ATTR, ghost0=GHOST0,
    sites={'laplace': dict(loc='0', scale='b', size='size')},
    ensures={'one-sampler-call': 'ghost("n_noise_sites") == 1'})
_BEST = dict(
    params=dict(self='obj:Mechanism', l1_sensitivity='real', l2_sensitivity='real', epsilon='real', delta='real'),
    attr_types=ATTR, pure={'partial': 'obj', '.laplace_noise_scale': 'real', '.gaussian_noise_scale': 'real'},
    ensures={'returns-sampler-with-the-scale-it-computed':
             'same(result, partial(self.laplace_noise, self.laplace_noise_scale(l1_sensitivity, epsilon))) or '
             'same(result, partial(self.gaussian_noise, self.gaussian_noise_scale(l2_sensitivity, epsilon, delta)))'})

# (file, qualified name, contract, label)
FUNCTIONS = [
    (MECH, 'Mechanism.exponential_mechanism', _EM_ARRAY, 'array'),
    (MECH, 'Mechanism.exponential_mechanism', _EM_ARRAY_BASE, 'array+base'),
    (MECH, 'Mechanism.exponential_mechanism', _EM_DICT, 'dict'),
    (MECH, 'Mechanism.exponential_mechanism', _EM_DICT_BASE, 'dict+base'),
    (MST, 'exponential_mechanism', _EM_FUNC(True), ''),
    (ADA, 'exponential_mechanism', _EM_FUNC(True), ''),
    (MWEM, 'worst_approximated', _WORST, ''),
    (MECH, 'Mechanism.laplace_noise_scale', _LAPLACE_SCALE, ''),
    (MECH, 'Mechanism.gaussian_noise_scale', _GAUSS_SCALE, ''),
    (MECH, 'Mechanism.gaussian_noise', _GAUSS_NOISE, ''),
    (MECH, 'Mechanism.laplace_noise', _LAPLACE_NOISE, ''),
    (MECH, 'Mechanism.best_noise_distribution', _BEST, ''),
]


def hooks_for(contract):
    class H(SiteHooks):
        def init(self, eng, st):
            import z3
            for k, v in contract.get('ghost0', {}).items():
                st.ghost[k] = z3.IntVal(v)
    return H(contract.get('sites', {}))
