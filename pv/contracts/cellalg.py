"""Cell-level contracts for the Factor arithmetic the solvers apply to whole parameter vectors (C10, C08).

The extended-real algebra that pv/contracts/inference.py uses on vectors (A1 -inf persists under +- finite, A2/A8 finite stays
finite, A3 zeros stay zero, A6 adding the structural-zero factor plants -inf) is established here on the real methods for ONE
arbitrary cell (elementwise numpy semantics on aligned arrays; alignment is C14's invariant): Factor.__add__ (factor and scalar
operand), Factor.__mul__ / __rmul__ (scalar operand, incl. np.nan_to_num), Factor.__iadd__ (factor operand, in place).

IEEE rules supplied (pv/contracts/extsub.py for +, unary -):  c * x for a finite scalar c:  finite -> c*x;  +-inf -> +-inf with
the sign of c, NaN if c == 0;  NaN -> NaN.   np.nan_to_num: NaN -> 0, +inf -> BIG, -inf -> -BIG (BIG the largest finite float,
an uninterpreted positive constant here)."""
import ast
import z3
from ..vc import engine as E
from . import extsub as X

REL = 'src/mbi/factor.py'
R, V, B = E.R, E.V, E.B
Cell, add, neg, const = X.Cell, X.add, X.neg, X.const
BIG = z3.Real('BIG_FLOAT')


def scale(c, x):
    """c * x, c a finite real"""
    kind = z3.If(x.kind == 0, 0,
                 z3.If(x.kind == 3, 3,
                       z3.If(c == 0, 3,
                             z3.If(c > 0, x.kind, z3.If(x.kind == 1, 2, 1)))))
    return Cell(kind, c * x.val)


def nan_to_num(x):
    return Cell(z3.IntVal(0), z3.If(x.kind == 0, x.val, z3.If(x.kind == 3, 0, z3.If(x.kind == 2, BIG, -BIG))))


class AlgHooks(X.CellHooks):
    def call(self, eng, st, name, recv, args, kw, node):
        short = name.split('.')[-1]
        if short == 'expand' and recv is not None and isinstance(recv, E.Obj) and recv.cls == 'Factor':
            # broadcasting repeats values: the cell at an assignment of the larger domain is the cell of its restriction
            return E.Obj(eng.fresh('expanded', V), cls='Factor', ghost={'cell': recv.ghost['cell']})
        if name == 'np.nan_to_num' and len(args) == 1 and isinstance(args[0], Cell):
            return nan_to_num(args[0])
        if name == 'np.isscalar' and len(args) == 1:
            return E.BoolV(z3.BoolVal(isinstance(args[0], E.Num)))
        return X.CellHooks.call(self, eng, st, name, recv, args, kw, node)

    def binop(self, eng, st, op, l, r, node):
        if isinstance(op, ast.Mult) and isinstance(l, E.Num) and isinstance(r, Cell):
            return scale(l.real(), r)
        if isinstance(op, ast.Mult) and isinstance(r, E.Num) and isinstance(l, Cell):
            return scale(r.real(), l)
        if isinstance(op, ast.Add) and isinstance(l, E.Num) and isinstance(r, Cell):
            return add(Cell(z3.IntVal(0), l.real()), r)
        if isinstance(op, ast.Add) and isinstance(r, E.Num) and isinstance(l, Cell):
            return add(l, Cell(z3.IntVal(0), r.real()))
        return X.CellHooks.binop(self, eng, st, op, l, r, node)

    def setattr(self, eng, st, o, name, val, node):
        if isinstance(o, E.Obj) and o.cls == 'Factor' and name == 'values' and isinstance(val, Cell):
            o.ghost = dict(o.ghost, cell=val)          # in-place update of the array: the object keeps its identity
            return True
        return NotImplemented


_factor = X._factor
_SAME = '(is_finite(result) == is_finite(%(x)s)) and (is_ninf(result) == is_ninf(%(x)s)) and (is_pinf(result) == is_pinf(%(x)s)) and (is_nan(result) == is_nan(%(x)s))'
ADD = dict(
    params=dict(self=_factor('self'), other=_factor('other')), requires=['wf_self', 'wf_other'], pure={'.merge': 'obj'},
    ensures={'A1:minus-infinity-persists-under-a-finite-addend': 'implies(is_ninf(self) and is_finite(other), is_ninf(result)) and implies(is_finite(self) and is_ninf(other), is_ninf(result))',
             'A8:finite-plus-finite-is-their-sum': 'implies(is_finite(self) and is_finite(other), is_finite(result) and cellval(result) == cellval(self) + cellval(other))',
             'A3:zero-plus-zero-is-zero': 'implies(is_finite(self) and is_finite(other) and cellval(self) == 0 and cellval(other) == 0, is_finite(result) and cellval(result) == 0)',
             'A6:adding-minus-infinity-to-a-value-that-is-not-plus-infinity-or-nan-gives-minus-infinity': 'implies(is_ninf(other) and (is_finite(self) or is_ninf(self)), is_ninf(result))',
             'nan-only-from-nan-or-opposite-infinities': 'implies(is_nan(result), is_nan(self) or is_nan(other) or (is_pinf(self) and is_ninf(other)) or (is_ninf(self) and is_pinf(other)))'})
ADD_SCALAR = dict(
    params=dict(self=_factor('self'), other='real'), requires=['wf_self'],
    ensures={'finite-shift': 'implies(is_finite(self), is_finite(result) and cellval(result) == cellval(self) + other)',
             'A1:minus-infinity-persists': 'implies(is_ninf(self), is_ninf(result))'})
MUL_SCALAR = dict(
    params=dict(self=_factor('self'), other='real'), requires=['wf_self', 'BIG_FLOAT > 0'],
    ensures={'A2:finite-times-scalar-is-the-product': 'implies(is_finite(self), is_finite(result) and cellval(result) == other * cellval(self))',
             'A3:zero-stays-zero': 'implies(is_finite(self) and cellval(self) == 0, is_finite(result) and cellval(result) == 0)',
             # what nan_to_num does to infinities (-inf -> most negative float) is deliberately not part of the contract: the
             # vector-level invariants never scale a vector that carries -inf, and the property does not ask for it
             'no-nan-from-a-finite-scalar': 'not is_nan(result)'})
IADD = dict(
    params=dict(self=_factor('self'), other=_factor('other')), requires=['wf_self', 'wf_other'],
    ensures={'same-object': 'same(result, self)',
             'A6:adding-the-structural-zero-factor-plants-minus-infinity': 'implies(is_ninf(other) and (is_finite(self__old) or is_ninf(self__old)), is_ninf(self))',
             'cells-outside-the-zero-set-unchanged': 'implies(is_finite(other) and cellval(other) == 0 and is_finite(self__old), is_finite(self) and cellval(self) == cellval(self__old))',
             'A1:minus-infinity-persists-under-a-finite-addend': 'implies(is_ninf(self__old) and is_finite(other), is_ninf(self))'})

# __rmul__ / __radd__ delegate: the result is what __mul__ / __add__ returns for the same operand
RMUL = dict(params=dict(self=_factor('self'), other='real'), requires=[], pure={'.__mul__': 'obj'},
            ensures={'delegates-to-__mul__-with-the-same-operand': 'same(result, self.__mul__(other))'})
RADD = dict(params=dict(self=_factor('self'), other='real'), requires=[], pure={'.__add__': 'obj'},
            ensures={'delegates-to-__add__-with-the-same-operand': 'same(result, self.__add__(other))'})

FUNCTIONS = [('Factor.__add__', ADD, 'factor operand'), ('Factor.__add__', ADD_SCALAR, 'scalar operand'),
             ('Factor.__mul__', MUL_SCALAR, 'scalar operand'), ('Factor.__rmul__', RMUL, 'scalar operand'), ('Factor.__radd__', RADD, 'scalar operand'),
             ('Factor.__iadd__', IADD, 'factor operand')]


def module_env():
    env = X.module_env()
    env['BIG_FLOAT'] = E.Num(BIG)
    return env
