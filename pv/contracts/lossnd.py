"""`_marginal_loss` with metric L2, in n dimensions, value-level (pv/vc/linvec.py; `A @ v` is linear in v, `u @ v` bilinear and
symmetric): for every measurement (Q, y, noise, proj) of a clique, with x the data vector of the clique marginal projected on proj,

        loss      +=  0.5 * <Q x - y, Q x - y> / noise^2
        gradient  +=  Q^T (Q x - y) / noise^2            (wrapped in a Factor on the projected domain)

- the statement's "inverse-variance weighted squared error" and the vector its derivative is (matrix calculus: d/dx 0.5|Qx-y|^2 =
Q^T(Qx-y), not re-derived by the solver).  Metric L1 likewise (SITES_L1 below): loss += sum|Qx-y|/noise, gradient += Q^T sign(Qx-y)/noise.
The one-cell instance in pv/contracts/lossgrad.py additionally covers the L1 metric and
proves the derivative relation itself in dimension one."""
from ..vc.linvec import LinHooks

_R = '(Q @ x - y)'
SITES = [
    dict(local='loss', nth=3, of=3, name='l2-loss-term-is-half-the-squared-residual-over-the-variance',
         spec='__arg == loss + 0.5 * (%s @ %s) / (noise * noise)' % (_R, _R)),
    dict(local='grad', nth=2, of=2, name='l2-gradient-term-is-QT-residual-over-the-variance',
         spec='same(__arg, (1.0 / (noise * noise)) * (Q.T @ %s))' % _R),
    dict(local='x', nth=1, of=1, name='residual-is-taken-at-the-projected-marginal', spec='same(__arg, mu.project(proj).datavector())'),
]


def contract(cls):
    return dict(params=dict(self='obj:' + cls, marginals='obj:dict', metric='obj:'), requires=['metric is not None', 'not callable(metric)', "metric != 'L1'"],
                pure={'callable': 'bool', 'CliqueVector': 'obj', '.zeros': 'obj', '.project': 'obj', '.datavector': 'obj', 'float': 'real', 'hasattr': 'bool', 'abs': 'obj',
                      'np.sign': 'obj', '.sign': 'obj'},
                division='abort', numeric_objects=True, local_types={'loss': 'real'}, unpack_types={'noise': 'real'},
                uses_locals=['Q', 'x', 'y', 'noise', 'mu', 'mu2', 'proj', 'loss', 'grad', 'diff', 'c'], sites=SITES, ensures={})


ITEMS = [('src/mbi/inference.py', 'FactoredInference._marginal_loss', contract('FactoredInference'), 'C04'),
         ('src/mbi/local_inference.py', 'LocalInference._marginal_loss', contract('LocalInference'), 'C18')]


# metric L1, n dimensions:   loss += sum |Q x - y| / noise,   gradient += Q^T sign(Q x - y) / noise   (sign of the scaled residual; for
# noise > 0 the same vector).  abs / sign / .sum() are deterministic uninterpreted maps on the residual vector.
_RS = '((1.0 / noise) * (Q @ x - y))'
SITES_L1 = [
    dict(local='loss', nth=2, of=3, name='l1-loss-term-is-the-absolute-scaled-residual-summed', spec='__arg == loss + abs(%s).sum()' % _RS),
    dict(local='grad', nth=1, of=2, name='l1-gradient-term-is-QT-sign-of-the-residual-over-the-noise',
         spec='same(__arg, (1.0 / noise) * (Q.T @ np.sign(%s))) or same(__arg, (1.0 / noise) * (Q.T @ %s.sign()))' % (_RS, _RS)),
]


def contract_l1(cls, public=False):
    c = contract(cls)
    c['requires'] = ['metric is not None', 'not callable(metric)', "metric == 'L1'"]
    c['sites'] = SITES_L1
    if public:
        c['uses_locals'] = ['Q', 'x', 'y', 'noise', 'mu', 'cl', 'loss', 'grad', 'diff', 'c']
    return c


L1_ITEMS = [('src/mbi/inference.py', 'FactoredInference._marginal_loss', contract_l1('FactoredInference'), 'C04'),
            ('src/mbi/local_inference.py', 'LocalInference._marginal_loss', contract_l1('LocalInference'), 'C18'),
            ('src/mbi/public_inference.py', 'PublicInference._marginal_loss', contract_l1('PublicInference', True), 'C19')]

# PublicInference._marginal_loss: the same two equations; the marginals are keyed by the measurements' own attribute tuples, so the
# residual is taken at the data vector of marginals[cl] itself
SITES_PUBLIC = SITES[:2] + [dict(local='x', nth=1, of=1, name='residual-is-taken-at-the-marginal-of-the-measurements-clique', spec='same(__arg, marginals[cl].datavector())')]
_pub = contract('PublicInference')
_pub.update(uses_locals=['Q', 'x', 'y', 'noise', 'mu', 'cl', 'loss', 'grad', 'diff', 'c'], sites=SITES_PUBLIC)
PUBLIC_ITEMS = [('src/mbi/public_inference.py', 'PublicInference._marginal_loss', _pub, 'C19')]


def hooks(sites=None):
    return LinHooks(real_dicts=(), vector_dicts=(), sites=SITES if sites is None else sites, tables_are_factors=False)
