"""Sidecar contracts for src/mbi/junction_tree.py (C12) — the parts of the construction that are statements about the code
rather than graph theorems (chordality of the fill-in graph, the maximum-weight-spanning-tree theorem and the
running-intersection property are decided bounded, exhaustively on small graphs):

mp_order        the dependency digraph has exactly the messages as nodes and an edge m1 -> m2 exactly when
                m1 = (k, i), m2 = (i, j), k != j  (the relation in the property statement); the schedule returned is
                networkx's topological sort of that digraph (extern contract: a linear extension listing every node once)
_make_tree      the elimination order given by the caller is used unchanged; candidate tree edges are weighted by MINUS the
                separator size, so the minimum spanning tree maximises total separator size
_triangulated   every elimination step connects the neighbours of the eliminated node (fill-in) in the working graph and in
                the recorded edge set, then removes the node
separator_axes  keyed by the scheduled messages; value is built from set(i) & set(j)
__init__        one interaction graph, one tree built for the elimination order the caller gave; tree and order are what
                _make_tree returns
_make_graph     nodes = the attributes of the domain; for every measured clique all pairs of its attributes are joined
_make_tree      (continued) the candidate tree joins EVERY pair of the maximal cliques networkx finds in the triangulated graph;
                the spanning tree and the order used are returned, the order recorded
maximal_cliques the depth-first preorder of the junction tree (one traversal of self.tree)
"""
from ..vc.sitehooks import SiteSpecHooks

REL = 'src/mbi/junction_tree.py'
ENV = {}
PURE = {'nx.topological_sort': 'obj', 'nx.DiGraph': 'obj', 'nx.Graph': 'obj', 'itertools.combinations': 'obj', 'set': 'obj', 'list': 'obj',
        'nx.find_cliques': 'obj', 'nx.minimum_spanning_tree': 'obj', 'sorted': 'obj', 'len': 'int', 'tuple': 'obj', '.neighbors': 'obj',
        '.edges': 'obj'}

MP_ORDER = dict(
    params=dict(self='obj:JunctionTree'), pure=PURE, requires=[],
    sites=[dict(func='if', contains='edges.add', name='dependency-relation', spec='m1[1] == m2[0] and m1[0] != m2[1]'),
           dict(func='.add', arg=0, name='dependency-edge', spec='same(__arg, (m1, m2))'),
           dict(func='.add_nodes_from', arg=0, name='nodes-are-the-messages', spec='same(__arg, messages)'),
           dict(func='.add_edges_from', arg=0, name='edges-are-the-dependencies', spec='same(__arg, edges)'),
           dict(func='nx.topological_sort', arg=0, name='sorted-graph', spec='same(__arg, G)')],
    ensures={'returns-the-topological-sort': 'same(result, list(nx.topological_sort(G)))'},
)

MAKE_TREE = dict(
    params=dict(self='obj:JunctionTree', order='obj:list'), pure=dict(PURE, **{'._triangulated': 'obj', '._greedy_order': 'obj', 'type': 'obj'}),
    requires=['order is not None', 'not (type(order) is int)'],
    sites=[dict(func='._triangulated', arg=0, name='order-used-unchanged', spec='same(__arg, order__old)'),
           dict(func='.add_edge', arg='weight', name='weight-is-minus-separator-size', spec='same(__arg, -len(set(c1) & set(c2)))'),
           dict(func='nx.minimum_spanning_tree', arg=0, name='spanning-tree-of-the-clique-graph', spec='same(__arg, complete)')],
    ensures={},
)

TRIANGULATED = dict(
    params=dict(self='obj:JunctionTree', order='obj:list'), pure=PURE, requires=[],
    sites=[dict(func='.add_edges_from', arg=0, name='fill-in-added-to-working-graph-or-result',
                spec='same(__arg, tmp) or same(__arg, edges)'),
           dict(func='.remove_node', arg=0, name='eliminated-node-removed', spec='same(__arg, node)')],
    ensures={},
)

# _make_graph: the interaction graph has the domain's attributes as nodes and, for every measured clique, an edge between every
# pair of its attributes (so that every clique is complete in it - the premise of the triangulation argument)
MAKE_GRAPH = dict(
    params=dict(self='obj:JunctionTree'), pure={k: v for k, v in PURE.items() if k not in ('list', 'tuple')}, requires=[],
    sites=[dict(func='.add_nodes_from', arg=0, name='nodes-are-the-attributes-of-the-domain', spec='same(__arg, self.domain.attrs)'),
           dict(func='.add_edges_from', arg=0, name='every-pair-of-a-cliques-attributes-is-joined', spec='same(__arg, itertools.combinations(cl, 2))')],
    loops={1: dict(invariant=[])},
    ensures={'the-graph-built-is-returned': 'same(result, G)', 'attributes-added-once': 'ghost("n_site_nodes-are-the-attributes-of-the-domain") == 1'},
    uses_locals=['G'],
)
# _make_tree, continued: the candidate tree connects EVERY pair of maximal cliques of the triangulated graph
MAKE_TREE['sites'] += [
    dict(func='nx.find_cliques', arg=0, name='maximal-cliques-of-the-triangulated-graph', spec='same(__arg, tri)'),
    dict(func='.add_nodes_from', arg=0, name='tree-nodes-are-those-cliques', spec='same(__arg, cliques)'),
    dict(func='itertools.combinations', arg=0, name='candidate-edges-over-all-pairs-of-cliques', spec='same(__arg, cliques)'),
    dict(func='itertools.combinations', arg=1, name='candidate-edges-are-pairs', spec='__arg == 2'),
    dict(func='.add_edge', arg=0, name='candidate-edge-joins-the-pair-(first)', spec='same(__arg, c1)'),
    dict(func='.add_edge', arg=1, name='candidate-edge-joins-the-pair-(second)', spec='same(__arg, c2)'),
]
MAKE_TREE['ensures'] = {'spanning-tree-and-the-order-used-are-returned': 'same(result[0], spanning) and same(result[1], order__old)',
                        'order-recorded': 'same(self.elimination_order, order__old)',
                        'all-pairs-enumerated-once': 'ghost("n_site_candidate-edges-over-all-pairs-of-cliques") == 1 and ghost("n_site_maximal-cliques-of-the-triangulated-graph") == 1'}
MAKE_TREE['uses_locals'] = ['spanning', 'tri', 'cliques', 'complete', 'c1', 'c2']
# __init__: one graph from the given cliques, one tree from the given elimination order
INIT = dict(
    params=dict(self='obj:JunctionTree', domain='obj:Domain', cliques='obj:list', elimination_order='obj:'), requires=[],
    pure=dict(PURE, **{'._make_graph': 'obj', '._make_tree': 'obj'}),
    sites=[dict(func='._make_tree', arg=0, name='tree-built-for-the-given-elimination-order', spec='same(__arg, elimination_order__old)')],
    ensures={'domain-stored': 'same(self.domain, domain)', 'graph-is-the-interaction-graph': 'same(self.graph, self._make_graph())',
             'tree-and-order-are-what-make-tree-returns': 'same(self.tree, self._make_tree(elimination_order)[0]) and same(self.order, self._make_tree(elimination_order)[1])'},
)
# maximal_cliques / neighbors: read off the tree (depth-first preorder: every clique after the first has an earlier neighbour,
# which is what GraphicalModel.mle relies on - extern contract of networkx)
MAXIMAL = dict(params=dict(self='obj:JunctionTree'), pure=dict(PURE, **{'nx.dfs_preorder_nodes': 'obj'}), requires=[],
               sites=[dict(func='nx.dfs_preorder_nodes', arg=0, name='preorder-of-the-junction-tree', spec='same(__arg, self.tree)')],
               ensures={'one-traversal': 'ghost("n_site_preorder-of-the-junction-tree") == 1'})

FUNCTIONS = [
    ('JunctionTree.__init__', INIT, {}, ''),
    ('JunctionTree._make_graph', MAKE_GRAPH, {}, ''),
    ('JunctionTree.maximal_cliques', MAXIMAL, {}, ''),
    ('JunctionTree.mp_order', MP_ORDER, {}, ''),
    ('JunctionTree._make_tree', MAKE_TREE, {}, 'order given explicitly'),
    ('JunctionTree._triangulated', TRIANGULATED, {}, ''),
]


def hooks_for(contract):
    return SiteSpecHooks(contract.get('sites', []))
