"""Sidecar contracts for src/mbi/junction_tree.py (C12) — the parts of the construction that are statements about the code
rather than graph theorems (chordality of the fill-in graph, the maximum-weight-spanning-tree theorem and the
running-intersection property are decided bounded, exhaustively on small graphs):

mp_order        the dependency digraph has exactly the messages as nodes and an edge m1 -> m2 exactly when
                m1 = (k, i), m2 = (i, j), k != j  (the relation in the property statement); the schedule returned is
                networkx's topological sort of that digraph (extern contract: a linear extension listing every node once)
_make_tree      the elimination order given by the caller is used unchanged; candidate tree edges are weighted by MINUS the
                separator size, so the minimum spanning tree maximises total separator size
_triangulated   every elimination step connects the neighbours of the eliminated node (fill-in) in the working graph and in
                the recorded edge set, then removes the node
separator_axes  keyed by the scheduled messages; value is built from set(i) & set(j)
"""
from ..vc.sitehooks import SiteSpecHooks

REL = 'src/mbi/junction_tree.py'
ENV = {}
PURE = {'nx.topological_sort': 'obj', 'nx.DiGraph': 'obj', 'nx.Graph': 'obj', 'itertools.combinations': 'obj', 'set': 'obj', 'list': 'obj',
        'nx.find_cliques': 'obj', 'nx.minimum_spanning_tree': 'obj', 'sorted': 'obj', 'len': 'int', 'tuple': 'obj', '.neighbors': 'obj',
        '.edges': 'obj'}

MP_ORDER = dict(
    params=dict(self='obj:JunctionTree'), pure=PURE, requires=[],
    sites=[dict(func='if', contains='edges.add', name='dependency-relation', spec='m1[1] == m2[0] and m1[0] != m2[1]'),
           dict(func='.add', arg=0, name='dependency-edge', spec='same(__arg, (m1, m2))'),
           dict(func='.add_nodes_from', arg=0, name='nodes-are-the-messages', spec='same(__arg, messages)'),
           dict(func='.add_edges_from', arg=0, name='edges-are-the-dependencies', spec='same(__arg, edges)'),
           dict(func='nx.topological_sort', arg=0, name='sorted-graph', spec='same(__arg, G)')],
    ensures={'returns-the-topological-sort': 'same(result, list(nx.topological_sort(G)))'},
)

MAKE_TREE = dict(
    params=dict(self='obj:JunctionTree', order='obj:list'), pure=dict(PURE, **{'._triangulated': 'obj', '._greedy_order': 'obj', 'type': 'obj'}),
    requires=['order is not None', 'not (type(order) is int)'],
    sites=[dict(func='._triangulated', arg=0, name='order-used-unchanged', spec='same(__arg, order__old)'),
           dict(func='.add_edge', arg='weight', name='weight-is-minus-separator-size', spec='same(__arg, -len(set(c1) & set(c2)))'),
           dict(func='nx.minimum_spanning_tree', arg=0, name='spanning-tree-of-the-clique-graph', spec='same(__arg, complete)')],
    ensures={},
)

TRIANGULATED = dict(
    params=dict(self='obj:JunctionTree', order='obj:list'), pure=PURE, requires=[],
    sites=[dict(func='.add_edges_from', arg=0, name='fill-in-added-to-working-graph-or-result',
                spec='same(__arg, tmp) or same(__arg, edges)'),
           dict(func='.remove_node', arg=0, name='eliminated-node-removed', spec='same(__arg, node)')],
    ensures={},
)

FUNCTIONS = [
    ('JunctionTree.mp_order', MP_ORDER, {}, ''),
    ('JunctionTree._make_tree', MAKE_TREE, {}, 'order given explicitly'),
    ('JunctionTree._triangulated', TRIANGULATED, {}, ''),
]


def hooks_for(contract):
    return SiteSpecHooks(contract.get('sites', []))
