"""Sidecar contracts for src/mbi/domain.py (C15 domain algebra; basis of the Factor contracts of C14).

Abstract view of a Domain d:  d.attrs (sequence of attribute names), d.shape (sequence of ints),
d.config (map name -> int).  Representation invariant  inv(d):
    len(d.attrs) == len(d.shape)
    d.attrs are pairwise distinct          (spelled: first_index(d.attrs, d.attrs[i]) == i for every i)
    d.config[d.attrs[i]] == d.shape[i]     for every i
Every method is verified for all sequence lengths; quantified clauses are Skolemised when proved and
instantiated at the index terms of the obligation when assumed (pv/vc/arrays.py).
"""
REL = 'src/mbi/domain.py'
ENV = {}

ATTR = {('Domain', 'attrs'): 'seq:obj', ('Domain', 'shape'): 'seq:int', ('Domain', 'config'): 'dict:int'}


def inv(d):
    return ['len(%s.attrs) == len(%s.shape)' % (d, d),
            'is_distinct(%s.attrs)' % d,
            'forall(lambda i: %s.config[%s.attrs[i]] == %s.shape[i], 0, len(%s.attrs))' % (d, d, d, d)]


def inv_named(d, prefix):
    names = ['lengths-agree', 'attributes-distinct', 'config-matches-shape']
    return {'%s:%s' % (prefix, n): t for n, t in zip(names, inv(d))}


def distinct(s):
    return 'is_distinct(%s)' % s


BASE = dict(attr_types=ATTR, sequences=True)

# ------------------------------------------------------------------ constructor
INIT = dict(BASE, params=dict(self='obj:Domain', attrs='seq:obj', shape='seq:int'), requires=[],
            ensures={'attrs-as-given': 'seq_equal(self.attrs, attrs)',
                     'shape-as-given': 'seq_equal(self.shape, shape)',
                     'config-is-last-pair': 'forall(lambda i: self.config[attrs[i]] == shape[last_index(attrs, attrs[i])], 0, len(attrs))',
                     'last-index-is-an-occurrence': 'forall(lambda i: 0 <= last_index(attrs, attrs[i]) and last_index(attrs, attrs[i]) < len(attrs)'
                                                    ' and same(attrs[last_index(attrs, attrs[i])], attrs[i]), 0, len(attrs))'})
DOMAIN_CALLEE = dict(arg_names=['attrs', 'shape'], returns='obj:Domain', requires=['len(attrs) == len(shape)'],
                     ensures={'attrs': 'seq_equal(result.attrs, attrs)', 'shape': 'seq_equal(result.shape, shape)',
                              'config': 'forall(lambda i: result.config[attrs[i]] == shape[last_index(attrs, attrs[i])], 0, len(attrs))',
                              'last': 'forall(lambda i: 0 <= last_index(attrs, attrs[i]) and last_index(attrs, attrs[i]) < len(attrs)'
                                      ' and same(attrs[last_index(attrs, attrs[i])], attrs[i]), 0, len(attrs))'})

# ------------------------------------------------------------------ project / transpose
_PROJECT_ENS = {'attrs-in-requested-order': 'seq_equal(result.attrs, attrs)',
                'sizes-from-config': 'len(result.shape) == len(attrs) and forall(lambda i: result.shape[i] == self.config[attrs[i]], 0, len(attrs))'}
PROJECT = dict(BASE, params=dict(self='obj:Domain', attrs='seq:obj'),
               requires=inv('self') + ['forall(lambda i: attrs[i] in self.attrs, 0, len(attrs))'],
               ensures=dict(_PROJECT_ENS))
PROJECT_DISTINCT = dict(BASE, params=dict(self='obj:Domain', attrs='seq:obj'),
                        requires=inv('self') + ['forall(lambda i: attrs[i] in self.attrs, 0, len(attrs))', distinct('attrs')],
                        ensures=dict(_PROJECT_ENS, **inv_named('result', 'result-invariant')))
PROJECT_STR = dict(BASE, params=dict(self='obj:Domain', attrs='obj:str'), requires=inv('self') + ['attrs in self.attrs'],
                   ensures={'singleton': 'len(result.attrs) == 1 and same(result.attrs[0], attrs__old)',
                            'size': 'len(result.shape) == 1 and result.shape[0] == self.config[attrs__old]'})
PROJECT_CALLEE = dict(arg_names=['attrs'], returns='obj:Domain', pure=True,
                      requires=['forall(lambda i: attrs[i] in self.attrs, 0, len(attrs))', distinct('attrs')],
                      ensures=dict(_PROJECT_ENS, **inv_named('result', 'inv')))
TRANSPOSE = dict(PROJECT_DISTINCT)

# ------------------------------------------------------------------ marginalize / invert / canonical
_COMPLEMENT = {
    'members-are-kept-attributes': 'forall(lambda j: (%(r)s[j] in self.attrs) and not (%(r)s[j] in attrs), 0, len(%(r)s))',
    'every-kept-attribute-is-a-member': 'forall(lambda i: (self.attrs[i] in attrs) or (self.attrs[i] in %(r)s), 0, len(self.attrs))',
    'order-of-self-preserved': 'forall(lambda j: implies(j + 1 < len(%(r)s), first_index(self.attrs, %(r)s[j]) < first_index(self.attrs, %(r)s[j+1])), 0, len(%(r)s))',
}
MARGINALIZE = dict(BASE, params=dict(self='obj:Domain', attrs='seq:obj'), requires=inv('self'),
                   ensures=dict({k: v % dict(r='result.attrs') for k, v in _COMPLEMENT.items()},
                                **dict({'sizes-from-config': 'forall(lambda j: result.shape[j] == self.config[result.attrs[j]], 0, len(result.attrs))'},
                                       **inv_named('result', 'result-invariant'))))
MARGINALIZE_CALLEE = dict(arg_names=['attrs'], returns='obj:Domain', pure=True, requires=[],
                          ensures=dict({k: v % dict(r='result.attrs') for k, v in _COMPLEMENT.items()},
                                       **dict({'sizes': 'forall(lambda j: result.shape[j] == self.config[result.attrs[j]], 0, len(result.attrs))'},
                                              **inv_named('result', 'inv'))))
INVERT = dict(BASE, params=dict(self='obj:Domain', attrs='seq:obj'), requires=inv('self'),
              ensures={k: v % dict(r='result') for k, v in _COMPLEMENT.items()})
CANONICAL = dict(BASE, params=dict(self='obj:Domain', attrs='seq:obj'), requires=inv('self'),
                 ensures={'members-are-requested-attributes-of-self': 'forall(lambda j: (result[j] in self.attrs) and (result[j] in attrs), 0, len(result))',
                          'every-requested-attribute-of-self-is-a-member': 'forall(lambda i: not (self.attrs[i] in attrs) or (self.attrs[i] in result), 0, len(self.attrs))',
                          'order-of-self': _COMPLEMENT['order-of-self-preserved'] % dict(r='result')})

# ------------------------------------------------------------------ axes
AXES = dict(BASE, params=dict(self='obj:Domain', attrs='seq:obj'),
            requires=inv('self') + ['forall(lambda i: attrs[i] in self.attrs, 0, len(attrs))'],
            ensures={'one-axis-per-attribute': 'len(result) == len(attrs)',
                     'axis-is-position-of-attribute': 'forall(lambda i: 0 <= result[i] and result[i] < len(self.attrs) and same(self.attrs[result[i]], attrs[i]), 0, len(attrs))'})

# ------------------------------------------------------------------ merge
MERGE = dict(BASE, params=dict(self='obj:Domain', other='obj:Domain'), requires=inv('self') + inv('other'),
             ensures={'self-attributes-first': 'len(result.attrs) >= len(self.attrs) and forall(lambda i: same(result.attrs[i], self.attrs[i]) and result.shape[i] == self.shape[i], 0, len(self.attrs))',
                      'then-new-attributes-of-other': 'forall(lambda j: implies(j >= len(self.attrs), (result.attrs[j] in other.attrs) and not (result.attrs[j] in self.attrs)), 0, len(result.attrs))',
                      'covers-other': 'forall(lambda i: other.attrs[i] in result.attrs, 0, len(other.attrs))',
                      'lengths-agree': 'len(result.attrs) == len(result.shape)',
                      'new-sizes-from-other': 'forall(lambda j: implies(j >= len(self.attrs), result.shape[j] == other.config[result.attrs[j]]), 0, len(result.attrs))',
                      'size-is-product': 'prod(result.shape, len(result.shape)) == prod(self.shape, len(self.shape)) * '
                                         'prod(other.marginalize(self.attrs).shape, len(other.marginalize(self.attrs).shape))'})
# Distinctness and the config law of merge's result (the representation invariant of the merged domain).  Distinctness rests on
# the concat-distinct lemma of the sequence theory (machine-checked in pv/vc/lemmas.py); it then serves as a lemma for the config
# law, whose proof is hinted with the two index terms its paper proof uses (the Skolem position and its last_index).
MERGE_RESULT_INVARIANT = {
    'result-invariant:attributes-distinct': 'is_distinct(result.attrs)',
    'result-invariant:config-matches-shape': 'forall(lambda i: result.config[result.attrs[i]] == result.shape[i], 0, len(result.attrs))'}
MERGE = dict(MERGE, ensures=dict(MERGE['ensures'], **MERGE_RESULT_INVARIANT),
             ensures_as_lemmas=['result-invariant:attributes-distinct'],
             # index terms at which the paper proof of each clause instantiates the quantified facts (position in the result,
             # position in the appended part); one eager E-matching round + model-based refinement do the rest
             hints={'result-invariant:config-matches-shape':
                    dict(terms=['_sk', 'last_index(self.attrs + extra.attrs, (self.attrs + extra.attrs)[_sk])'], inst_rounds=0),
                    'self-attributes-first': dict(terms=['_sk']),
                    'then-new-attributes-of-other': dict(terms=['_sk', '_sk - len(self.attrs)']),
                    'covers-other': dict(terms=['_sk']),
                    'new-sizes-from-other': dict(terms=['_sk', '_sk - len(self.attrs)'])})
# name kept for the callers' contracts (pv/contracts/factor.py): these clauses are now proved on merge's body
MERGE_RESULT_INVARIANT_ASSUMED = {k.replace('result-invariant:', 'inv:'): v for k, v in MERGE_RESULT_INVARIANT.items()}

# ------------------------------------------------------------------ contains / size / eq / small accessors
CONTAINS = dict(BASE, params=dict(self='obj:Domain', other='obj:Domain'), requires=[],
                ensures={'iff-every-attribute-of-other-is-in-self': 'result == all_in(other.attrs, self.attrs)'})
SIZE_ALL = dict(BASE, params=dict(self='obj:Domain', attrs='none'), requires=[],
                ensures={'product-of-shape': 'result == prod(self.shape, len(self.shape))'})
SIZE_CALLEE = dict(arg_names=['attrs'], defaults={'attrs': 'None'}, returns='real', pure=True, requires=[],
                   ensures={'prod': 'result == prod(self.shape, len(self.shape))'})
SIZE_SOME = dict(BASE, params=dict(self='obj:Domain', attrs='seq:obj'),
                 requires=inv('self') + ['forall(lambda i: attrs[i] in self.attrs, 0, len(attrs))', distinct('attrs')],
                 ensures={'product-over-requested-attributes': 'result == prod(self.project(attrs).shape, len(attrs))'})
EQ = dict(BASE, params=dict(self='obj:Domain', other='obj:Domain'), requires=[],
          ensures={'iff-same-attrs-and-shape': 'result == (seq_equal(self.attrs, other.attrs) and seq_equal(self.shape, other.shape))'})
CONTAINS_ATTR = dict(BASE, params=dict(self='obj:Domain', attr='obj:'), requires=[], ensures={'membership': 'result == (attr in self.attrs)'})
GETITEM = dict(BASE, params=dict(self='obj:Domain', a='obj:'), requires=[], ensures={'lookup': 'result == self.config[a]'})
LEN = dict(BASE, params=dict(self='obj:Domain'), requires=[], ensures={'length': 'result == len(self.attrs)'})
FROMDICT = dict(BASE, params=dict(config='dict:int'), requires=[],
                ensures={'keys-in-order': 'len(result.attrs) == len(config) and forall(lambda i: same(result.attrs[i], key_at(config, i)), 0, len(config))',
                         'values-in-order': 'len(result.shape) == len(config) and forall(lambda i: result.shape[i] == config[key_at(config, i)], 0, len(config))'})

# sorted(xs[, key=...]): a permutation of xs (extern contract of the builtin: same length, same members, distinct stays distinct);
# WHICH permutation (the key) is not part of the contract
SORTED_CALLEE = dict(arg_names=['xs', 'key'], defaults={'key': 'None'}, returns='seq:obj', pure=True, requires=[],
                     ensures={'length': 'len(result) == len(xs)', 'members-in': 'all_in(result, xs)', 'members-out': 'all_in(xs, result)',
                              'distinct': 'implies(is_distinct(xs), is_distinct(result))'})
SORT = dict(BASE, params=dict(self='obj:Domain', how='obj:'), requires=inv('self') + ["how == 'size' or how == 'name'"],
            ensures=dict({'same-attributes': 'all_in(result.attrs, self.attrs) and all_in(self.attrs, result.attrs) and len(result.attrs) == len(self.attrs)',
                          'sizes-from-config': 'forall(lambda i: result.shape[i] == self.config[result.attrs[i]], 0, len(result.attrs))'},
                         **inv_named('result', 'result-invariant')))

REG_DOMAIN = {'Domain': DOMAIN_CALLEE}
REG_M = {'Domain': DOMAIN_CALLEE, '.project': PROJECT_CALLEE, '.marginalize': MARGINALIZE_CALLEE, '.size': SIZE_CALLEE}

# (qualified name, contract, registry, label)
FUNCTIONS = [
    ('Domain.__init__', INIT, {}, ''),
    ('Domain.project', PROJECT, REG_DOMAIN, 'any order, repeats allowed'),
    ('Domain.project', PROJECT_DISTINCT, REG_DOMAIN, 'distinct attributes'),
    ('Domain.project', PROJECT_STR, REG_DOMAIN, 'single attribute given as str'),
    ('Domain.transpose', TRANSPOSE, REG_M, ''),
    ('Domain.marginalize', MARGINALIZE, REG_M, ''),
    ('Domain.invert', INVERT, REG_M, ''),
    ('Domain.canonical', CANONICAL, REG_M, ''),
    ('Domain.axes', AXES, REG_M, ''),
    ('Domain.merge', MERGE, REG_M, ''),
    ('Domain.contains', CONTAINS, REG_M, ''),
    ('Domain.size', SIZE_ALL, REG_M, 'whole domain'),
    ('Domain.size', SIZE_SOME, REG_M, 'attribute list'),
    ('Domain.sort', SORT, dict(REG_M, sorted=SORTED_CALLEE), 'a permutation of the attributes'),
    ('Domain.__eq__', EQ, REG_M, ''),
    ('Domain.__contains__', CONTAINS_ATTR, REG_M, ''),
    ('Domain.__getitem__', GETITEM, REG_M, ''),
    ('Domain.__len__', LEN, REG_M, ''),
    ('Domain.fromdict', FROMDICT, REG_DOMAIN, ''),
]


def hooks_for(contract):
    return None
