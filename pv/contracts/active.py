"""Where the structural zeros come from (C10 anchor): Factor.active and the estimator constructors.

Factor.active(domain, cells):   a table of zeros of the domain's shape in which exactly the listed cells are set to -inf
    (site contracts: the table starts as np.zeros(domain.shape); the index is tuple(np.array(cells).T) - one index array per
    axis, so that position j addresses the j-th listed cell (numpy advanced indexing: extern); the value stored is -inf; the
    factor is built on the given domain from that table).
FactoredInference.__init__ / LocalInference.__init__:  for every declared clique the stored factor is
    Factor.active(self.domain.project(clique), declared cells), keyed by that clique; the zero specification starts empty.
"""
from ..vc.sitehooks import SiteSpecHooks

ACTIVE = dict(
    params=dict(domain='obj:Domain', structural_zeros='obj:list'), requires=[],
    pure={'np.array': 'obj', 'tuple': 'obj', 'np.zeros': 'obj', 'Factor': 'obj:Factor'}, uses_locals=['idx', 'vals'],
    sites=[dict(func='np.zeros', arg=0, name='active:table-of-zeros-of-the-domains-shape', spec='same(__arg, domain.shape)'),
           dict(func='[]=', container='vals', name='active:minus-infinity-at-exactly-the-listed-cells',
                spec='same(__key, tuple(np.array(structural_zeros).T))'),
           dict(func='[]=', container='vals', name='active:the-value-stored-is-minus-infinity', spec='same(__arg, -np.inf)'),
           dict(func='Factor', arg=0, name='active:factor-on-the-given-domain', spec='same(__arg, domain)')],
    ensures={'one-table-one-update': 'ghost("n_site_active:table-of-zeros-of-the-domains-shape") == 1 and '
                                     'ghost("n_site_active:minus-infinity-at-exactly-the-listed-cells") == 1'},
)


def _init(cls):
    return dict(
        params=dict(self='obj:' + cls, domain='obj:Domain', backend='obj:', structural_zeros='obj:dict', metric='obj:', log='obj:', iters='obj:',
                    warm_start='obj:', **({'elim_order': 'obj:'} if cls == 'FactoredInference' else {'marginal_oracle': 'obj:', 'inner_iters': 'obj:'})),
        requires=["backend != 'torch'"], pure={'CliqueVector': 'obj', '.project': 'obj', '.active': 'obj', 'Factor.active': 'obj'},
        sites=[dict(func='[]=', container='self.structural_zeros', name='zeros:stored-factor-is-active-on-the-projected-domain',
                    spec='same(__key, cl) and same(__arg, self.Factor.active(self.domain.project(cl), structural_zeros[cl]))')],
        loops={1: dict(invariant=[])},
        ensures={'domain-stored': 'same(self.domain, domain)'})


# the constant tables every estimator starts from: on the given domain, of the domain's shape
def _const(fn):
    return dict(params=dict(domain='obj:Domain'), requires=[], pure={'np.zeros': 'obj', 'np.ones': 'obj', 'Factor': 'obj:Factor'},
                sites=[dict(func='np.' + fn, arg=0, name='%s:table-of-the-domains-shape' % fn, spec='same(__arg, domain.shape)'),
                       dict(func='Factor', arg=0, name='%s:factor-on-the-given-domain' % fn, spec='same(__arg, domain)')],
                ensures={'%s:the-constant-table-on-the-domain' % fn: 'same(result, Factor(domain, np.%s(domain.shape)))' % fn})


UNIFORM = dict(params=dict(domain='obj:Domain'), requires=[], pure={'Factor.ones': 'obj', '.size': 'real'}, numeric_objects=True, division='abort',
               ensures={'uniform:ones-divided-by-the-number-of-cells': 'same(result, Factor.ones(domain) / domain.size())'})
# the constructor itself: the table is stored in the shape of the domain (a flat vector is laid out in domain order: numpy reshape, extern),
# on the domain given - what the label-level contracts of pv/contracts/factor.py assume at every `Factor(domain, values)` site
FACTOR_INIT = dict(params=dict(self='obj:Factor', domain='obj:Domain', values='obj:'), requires=[], pure={'.size': 'obj', '.reshape': 'obj'},
                   sites=[dict(func='.reshape', arg=0, name='init:table-stored-in-the-shape-of-the-domain', spec='same(__arg, domain.shape)')],
                   ensures={'init:domain-stored-as-given': 'same(self.domain, domain)',
                            'init:values-are-the-given-table-reshaped': 'same(self.values, values.reshape(domain.shape))'})
CONST_ITEMS = [('src/mbi/factor.py', 'Factor.__init__', FACTOR_INIT), ('src/mbi/factor.py', 'Factor.zeros', _const('zeros')), ('src/mbi/factor.py', 'Factor.ones', _const('ones')),
               ('src/mbi/factor.py', 'Factor.uniform', UNIFORM)]

ITEMS = [('src/mbi/factor.py', 'Factor.active', ACTIVE), ('src/mbi/inference.py', 'FactoredInference.__init__', _init('FactoredInference')),
         ('src/mbi/local_inference.py', 'LocalInference.__init__', _init('LocalInference'))]


def hooks_for(c):
    return SiteSpecHooks(c.get('sites', []))
