"""Shared pieces of the mechanism contracts (C05 ledger, C06 flow)."""
import z3
from ..vc import engine as E
from ..vc import privacy as P

R = E.R
ONE = z3.RealVal(1)

# contract of cdp_rho as seen by the mechanisms; 'nonneg' is proved on its body in C07
CDP_RHO = dict(arg_names=['eps', 'delta'], returns='real', pure=True, requires=[],
               ensures={'nonneg': 'result >= 0'})


def dataset_param(records_taint=E.TRUE):
    return lambda eng, name: P.priv_dataset(eng, name, records_taint)


def mk_dataset(eng, term, domain_taint=E.FALSE, records_taint=E.TRUE):
    return E.Obj(term, cls='Dataset', taint=E.TRUE,
                 ghost={'shape': ('dataset',), 'records_taint': records_taint, 'domain_taint': domain_taint})


class MechHooks(P.PrivacyHooks):
    """Privacy hooks + the call sites common to all mechanisms."""

    def call(self, eng, st, name, recv, args, kw, node):
        short = name.split('.')[-1]
        if short == 'estimate' and recv is not None:
            for a in list(args) + list(kw.values()):
                self.public(eng, st, a, 'argument-of-estimate', node)
            return E.Obj(eng.fresh('model', E.V), cls='model', taint=E.FALSE)
        if name == 'exponential_mechanism':
            b = dict(zip(['q', 'eps', 'sensitivity', 'prng', 'monotonic'], args))
            b.update(kw)
            mono = b.get('monotonic')
            half = True
            if mono is not None:
                mt = z3.simplify(eng.truth(st, mono))
                if z3.is_true(mt):
                    half = False
                elif not z3.is_false(mt):
                    raise E.Unsupported('symbolic monotonic flag')
            return self.select(eng, st, b['q'], b['eps'], b['sensitivity'], node, coef_half=half)
        if name == 'Dataset' and len(args) >= 2:
            return E.Obj(eng.fresh('dataset', E.V), cls='Dataset', taint=args[0].taint,
                         ghost={'shape': ('dataset',), 'records_taint': args[0].taint, 'domain_taint': args[1].taint})
        return super().call(eng, st, name, recv, args, kw, node)

    def on_return(self, eng, st, val, node):
        rc = self.cfg.get('return_check')
        if rc:
            return rc(self, eng, st, val, node)
        return super().on_return(eng, st, val, node)


def sens_module_env(s1, s2):
    return {'SENS1': E.Num(s1), 'SENS2': E.Num(s2)}
