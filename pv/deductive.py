"""Running the deductive tier for a set of functions under contract and collecting results."""
import time, traceback
import z3
from . import frontend
from .vc import engine as E
from .vc import solver as S


class FunctionReport:
    def __init__(self, rel, qual):
        self.rel, self.qual = rel, qual
        self.sha = None
        self.obligations = []
        self.notes = []
        self.undecided = None       # reason string when the function could not be brought under contract
        self.vacuity = []           # (probe, reachable?)
        self.seconds = 0.0
        self.loop_headers = {}

    @property
    def name(self):
        return '%s::%s' % (self.rel, self.qual)


def verify_function(rel, qual, contract, hooks=None, registry=None, module_env=None, prefix=None,
                    timeout_ms=None):
    """Generate and discharge all obligations of one function of the tree under verification."""
    rep = FunctionReport(rel, qual)
    t0 = time.time()
    try:
        node, seg, sha = frontend.get_function(rel, qual)
        rep.sha = sha
    except frontend.MissingAnchor as e:
        rep.undecided = 'anchor missing: %s' % e
        return rep
    # loop invariants are keyed by loop ordinal: they only apply while the loop at that ordinal is the loop they were written for
    import ast as _ast
    loops_now = [n for n in _ast.walk(node) if isinstance(n, (_ast.For, _ast.While))]
    hdr = lambda n: ('for %s in %s' % (_ast.unparse(n.target), _ast.unparse(n.iter))) if isinstance(n, _ast.For) else 'while %s' % _ast.unparse(n.test)
    rep.loop_headers = {str(i + 1): hdr(n) for i, n in enumerate(loops_now)}
    recorded = _recorded_loops().get('%s::%s' % (rel, qual))
    if recorded:
        for no in (contract.get('loops') or {}):
            was, now = recorded.get(str(no)), rep.loop_headers.get(str(no))
            if was is not None and now != was:
                rep.undecided = 'loop anchors drifted: loop #%s is %s, the contract was written for `%s`' % (no, '`%s`' % now if now else 'missing', was)
                return rep
    stale = unbound_spec_names(node, contract, module_env)
    if stale:
        # the contract speaks about a local the function no longer binds (renamed or removed): it does not fit this code any more.
        # That is "undecided", never a violation - an invariant over a name that does not exist proves and refutes nothing.
        rep.undecided = 'contract does not fit the code: it mentions %s, which the function does not bind' % ', '.join('`%s`' % n for n in sorted(stale)[:6])
        return rep
    import copy
    c = copy.deepcopy({k: v for k, v in contract.items() if k not in ('hooks',)})
    from .vc.arrays import FullEngine
    eng = FullEngine(node, c, prefix or rep.name, hooks=hooks, registry=registry, module_env=module_env)
    try:
        obs = eng.run()
    except E.Unsupported as e:
        rep.undecided = 'outside the verified subset: %s' % e
        rep.notes = eng.notes
        # obligations generated before the unsupported construct was met are still meaningful
        for ob in eng.obligations:
            S.discharge(ob, timeout_ms=timeout_ms)
        rep.obligations = list(eng.obligations)
        return rep
    except (KeyError, AttributeError, TypeError, z3.Z3Exception, IndexError, ValueError) as e:
        # a contract that no longer fits the code (renamed local, changed arity) is "undecided", not a violation
        rep.undecided = 'contract does not fit the code: %s: %s' % (type(e).__name__, e)
        rep.notes = eng.notes + [traceback.format_exc(limit=4)]
        return rep
    # expected loop ordinals must exist
    for no in contract.get('loops', {}):
        if no > eng.n_loops:
            rep.undecided = 'anchor missing: loop #%d' % no
            return rep
    for ob in obs:
        S.discharge(ob, timeout_ms=timeout_ms)
        if ob.verdict == 'refuted' and hasattr(eng, 'refine'):
            # a `sat` over a finite set of instances of quantified facts is not yet a counter-model: refine against the model
            t1 = time.time()
            try:
                eng.refine(ob, S.discharge)
            except (z3.Z3Exception, E.Unsupported, KeyError, AttributeError, TypeError) as e:
                ob.verdict, ob.reason = 'unknown', 'refinement failed: %s: %s' % (type(e).__name__, e)
            ob.seconds += time.time() - t1
            if ob.verdict == 'refuted' and S.havoc_symbols(ob):
                ob.verdict, ob.reason = 'unknown', 'counter-model goes through the result of an unmodelled call: inconclusive'
    rep.obligations = obs
    rep.notes = eng.notes
    # vacuity: every probe point (entry, loop bodies, returns) must be reachable under the assumptions
    seen = set()
    for name, path in eng.canaries:
        if name in seen:
            continue
        r = S.satisfiable(path)
        if r is True:
            seen.add(name)
        rep.vacuity.append((name, r))
    # a probe name is vacuous only if *no* path reaches it
    reach = {}
    for name, r in rep.vacuity:
        reach[name] = reach.get(name) or (r is True) or (None if r is None and not reach.get(name) else reach.get(name))
    rep.vacuity = sorted(reach.items())
    rep.n_returns = len(eng.returns)
    rep.seconds = time.time() - t0
    return rep


_LOOPS = None


def _recorded_loops():
    global _LOOPS
    if _LOOPS is None:
        import json, os
        from . import env
        p = os.path.join(env.VERIF, 'pv', 'expected', 'loops.json')
        _LOOPS = json.load(open(p)) if os.path.exists(p) else {}
    return _LOOPS


_SPEC_GLOBALS = {'np', 'math', 'sparse', 'nx', 'itertools', 'pd', 'True', 'False', 'None', 'result', 'self', 'inf', 'torch', 'callbacks',
                 'CliqueVector', 'Factor', 'Domain', 'Dataset', 'GraphicalModel', 'str', 'int', 'float', 'list', 'tuple', 'dict', 'set'}


def _spec_texts(x):
    if isinstance(x, str):
        yield x
    elif isinstance(x, dict):
        for k, v in x.items():
            if k in ('spec', 'when', 'invariant', 'requires', 'ensures', 'terms') or not isinstance(k, str) or isinstance(v, (dict, list, tuple)):
                yield from _spec_texts(v)
    elif isinstance(x, (list, tuple)):
        for v in x:
            yield from _spec_texts(v)


def unbound_spec_names(fn_node, contract, module_env=None):
    """Names used as values in the contract's specification texts that neither the function (parameters, assigned locals, loop and
    comprehension targets, nested functions), nor the contract (params, module_env, local_types), nor the spec language binds."""
    import ast, re
    bound = set(_SPEC_GLOBALS) | set((module_env or {}).keys()) | set((contract.get('module_env') or {}).keys())
    bound |= set((contract.get('params') or {}).keys())
    if contract.get('result_name'):
        bound.add(contract['result_name'])
    for n in ast.walk(fn_node):
        if isinstance(n, ast.Name) and isinstance(n.ctx, (ast.Store, ast.Del)):
            bound.add(n.id)
        elif isinstance(n, ast.arg):
            bound.add(n.arg)
        elif isinstance(n, (ast.FunctionDef, ast.ClassDef)):
            bound.add(n.name)
        elif isinstance(n, (ast.Import, ast.ImportFrom)):
            for a in n.names:
                bound.add((a.asname or a.name).split('.')[0])
        elif isinstance(n, ast.ExceptHandler) and n.name:
            bound.add(n.name)
    texts = []
    for key in ('requires', 'ensures', 'loops', 'sites', 'hints'):
        texts.extend(_spec_texts(contract.get(key)))
    stale = set()
    # locals the contract types or its hooks look up by name, and containers named by store / index sites
    for nm in list(contract.get('uses_locals', ())) + list((contract.get('local_types') or {}).keys()) + list((contract.get('unpack_types') or {}).keys()):
        if nm not in bound:
            stale.add(nm)
    for site in contract.get('sites', ()) or ():
        cont = site.get('container') if isinstance(site, dict) else None
        if cont:
            root = re.split(r'[.\[]', cont.strip())[0]
            if root and root not in bound:
                stale.add(root)
    for t in texts:
        try:
            tree = ast.parse(t, mode='eval')
        except SyntaxError:
            continue
        called = {id(n.func) for n in ast.walk(tree) if isinstance(n, ast.Call)}
        lam = {a.arg for n in ast.walk(tree) if isinstance(n, ast.Lambda) for a in n.args.args}
        for n in ast.walk(tree):
            if isinstance(n, ast.Name) and id(n) not in called and n.id not in lam:
                base = re.sub(r'__(old|pre|loop\d+)$', '', n.id)
                if base in bound or base.startswith('_it') or base.startswith('__') or base in ('_sk',):
                    continue
                if base != n.id and (base.startswith('n_site_') or base.startswith('ledger_') or base.startswith('max') or
                                     base in (contract.get('ghost0') or {}) or n.id.endswith('__pre')):
                    continue                 # entry / loop-entry value of a ghost, not of a program variable
                stale.add(n.id)
    return stale


def summarize(reports):
    obs = [o for r in reports for o in r.obligations]
    return dict(
        functions=[dict(function=r.name, source_sha256_16=r.sha, obligations=len(r.obligations),
                        discharged=sum(o.verdict == 'discharged' for o in r.obligations),
                        undecided=r.undecided, notes=r.notes[:12],
                        vacuity_probes={k: v for k, v in r.vacuity}, seconds=round(r.seconds, 3)) for r in reports],
        obligations=len(obs),
        discharged=sum(o.verdict == 'discharged' for o in obs),
        refuted=[o.as_dict() for o in obs if o.verdict == 'refuted'],
        unknown=[o.as_dict() for o in obs if o.verdict == 'unknown'],
        solver_seconds=round(sum(o.seconds for o in obs), 3),
        backends=sorted({o.backend for o in obs if o.backend}),
    )


# ------------------------------------------------------------------ parallel verification of a contract module
def _strip(rep):
    for o in rep.obligations:
        o.path, o.goal = [], None
    return rep


def _job(args):
    modname, idx = args
    import importlib
    C = importlib.import_module('pv.contracts.' + modname)
    item = C.FUNCTIONS[idx]
    if len(item) == 4:
        q, c, reg, label = item
    else:
        (q, c, reg), label = item, (getattr(C, 'LABELS', None) or [''] * len(C.FUNCTIONS))[idx]
    hooks = C.hooks_for(c) if hasattr(C, 'hooks_for') else None
    rep = verify_function(C.REL, q, c, hooks=hooks, registry=reg, module_env=getattr(C, 'ENV', None),
                          prefix='%s::%s%s' % (C.REL, q, '[%s]' % label if label else ''))
    return _strip(rep)


def verify_module(modname, nproc=8):
    """All functions of pv/contracts/<modname>.py, one process each (z3 terms do not cross process boundaries:
    obligations come back with verdict, model and timing only)."""
    import importlib, multiprocessing as mp
    C = importlib.import_module('pv.contracts.' + modname)
    jobs = [(modname, i) for i in range(len(C.FUNCTIONS))]
    if nproc <= 1 or len(jobs) <= 1:
        return [_job(j) for j in jobs]
    with mp.get_context('fork').Pool(min(nproc, len(jobs))) as pool:
        return pool.map(_job, jobs, chunksize=1)


def lemma_report(names=None, title='sequence-theory lemmas used as axioms by the verifier'):
    """Machine-checked lemmas (pv/vc/lemmas.py) as a report of their own: one obligation per lemma.  Default: the lemmas of the
    sequence theory; with `names`, the listed lemmas over verified contracts."""
    from .vc import lemmas
    rep = FunctionReport('pv/vc/lemmas.py', title)
    t0 = time.time()
    for name, verdict, sec in (lemmas.check_all() if names is None else lemmas.check_all(tuple(names))):
        ob = S.Obligation('pv/vc/lemmas.py::%s' % name, [], None, function='pv/vc/lemmas.py', kind='lemma')
        ob.verdict = verdict if verdict in ('discharged', 'refuted') else 'unknown'
        ob.backend = 'z3-%s (quantified, MBQI/E-matching)' % z3.get_version_string()
        ob.seconds = sec
        ob.reason = '' if ob.verdict == 'discharged' else verdict
        ob.meta = {'base': ob.name}
        rep.obligations.append(ob)
    rep.sha = ''
    rep.vacuity = []
    rep.seconds = time.time() - t0
    return rep
