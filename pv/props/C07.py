"""C07 — zCDP <-> (epsilon, delta) conversions are sound, tight and mutually inverse."""
import math
from ..runner import Prop
from .. import deductive, env
from ..contracts import cdp2adp as K


def _frac(s):
    s = str(s).replace('?', '')
    if '/' in s:
        a, b = s.split('/')
        return float(a) / float(b)
    return float(s)


def py_spec_env(mod):
    return dict(implies=lambda a, b: (not a) or b, halfpow=lambda n: 2.0 ** (-n), math=math,
                cdp_delta=mod.cdp_delta, cdp_rho=mod.cdp_rho, cdp_eps=mod.cdp_eps)


class C07(Prop):
    id = 'C07'
    level = 'other'
    technique = 'contract-based deductive verification: VCs generated from the real AST of cdp2adp.py (loop invariants, callee contract for cdp_delta) discharged by z3; analytic clauses checked bounded on log grids'
    explanation = ('Deductive tier: cdp_delta, cdp_rho, cdp_eps of mechanisms/cdp2adp.py are symbolically executed from the real source; '
                   'postconditions (soundness of the returned budget w.r.t. the opaque cdp_delta, result range, bracket width, '
                   'not-looser-than-necessary, absence of math-domain errors in cdp_delta) and loop invariants are discharged by z3 over the reals. '
                   'Bounded tier (labelled bounded): monotonicity, mutual inversion, comparison with the exact Gaussian delta and with an '
                   'independently minimised Renyi bound on log grids of the stated quantifier.')
    rule = ('log-grid and seeded random points rho in [1e-6,1e2], eps in [1e-3,1e2], delta in [1e-15,0.5]; a case is one (kind, point); '
            'non-trivial = implied delta strictly inside (0,1); distinct by (kind, point)')
    trusted_base = ['z3 4.x/5.x SMT solver', 'floats treated as mathematical reals', 'math.exp/log/log1p uninterpreted (exp > 0 only)',
                    'scipy.stats.norm (bounded tier reference for the exact Gaussian delta)',
                    'scipy.optimize.minimize_scalar (bounded tier reference optimum over the Renyi order)']
    assumptions = ['machine floats treated as mathematical reals in the deductive tier',
                   'partial correctness: assert failures / ValueError end the path',
                   'cdp_delta is deterministic (it is called as an uninterpreted pure function by cdp_rho/cdp_eps proofs)',
                   'initial epsmax of cdp_eps relies on the standard tail bound (checked on the grid only)',
                   'analytic clauses (>= exact Gaussian delta, optimal Renyi order, monotone, inverse) are decided only on the stated grid']
    quick_budget_s = 100
    thorough_budget_s = 900

    def deductive(self, tier):
        return [deductive.verify_function(K.REL, q, c, registry=reg) for q, c, reg in K.FUNCTIONS]

    # counter-model replay on the real functions
    def replay_obligation(self, ob):
        from ..realcode import load_mechanism
        mod = load_mechanism('cdp2adp')
        fn = ob.function.split('::')[-1]
        contract = {q: c for q, c, _ in K.FUNCTIONS}[fn]
        names = list(contract['params'])
        m = ob.model or {}
        if not all(n in m for n in names):
            return dict(reproduced=False, reason='counter-model does not fix all parameters')
        args = [_frac(m[n]) for n in names]
        return self._try_args(mod, fn, contract, names, args)

    def _try_args(self, mod, fn, contract, names, args):
        tried = []
        for a in [args] + self._nearby(args):
            try:
                res = getattr(mod, fn)(*a)
            except (AssertionError, ValueError, ZeroDivisionError) as e:
                tried.append(dict(args=a, raised=repr(e)))
                if 'range' in contract['ensures'] and fn == 'cdp_delta' and not isinstance(e, AssertionError):
                    return dict(reproduced=True, function=fn, args=a, observed='raised %r' % e, clause='total (no math-domain error)')
                continue
            e = py_spec_env(mod)
            e.update(dict(zip(names, a)))
            e['result'] = res
            for cname, text in contract['ensures'].items():
                try:
                    ok = eval(text, e)
                except NameError:
                    continue            # clause mentions locals: not observable from outside
                if not ok:
                    return dict(reproduced=True, function=fn, args=a, observed=res, clause=cname, clause_text=text)
            tried.append(dict(args=a, result=res))
        return dict(reproduced=False, tried=tried[:6])

    def _nearby(self, args):
        pts = []
        for r in (0.5, 0.1, 1.0, 3.0):
            for d in (0.5, 1e-3, 1e-9):
                pts.append([r, d])
        return pts

    # ---------------------------------------------------------------- bounded tier
    def cases(self, tier, seed):
        import numpy as np
        rng = np.random.RandomState(seed)
        n_cheap, n_exp = (400, 48) if tier == 'quick' else (5000, 600)
        def pt():
            return (float(10 ** rng.uniform(-6, 2)), float(10 ** rng.uniform(-3, 2)), float(10 ** rng.uniform(-15, math.log10(0.5))))
        grid_r, grid_e = np.logspace(-6, 2, 9), np.logspace(-3, 2, 6)
        for r in grid_r:
            for e in grid_e:
                yield dict(kind='delta', rho=float(r), eps=float(e))
        for _ in range(n_cheap):
            r, e, d = pt()
            yield dict(kind='delta', rho=r, eps=e)
        for i in range(n_exp):
            r, e, d = pt()
            yield dict(kind='rho', eps=e, delta=d)
            yield dict(kind='eps', rho=r, delta=d)
        for e in (1e-3, 1.0, 100.0):
            for d in (1e-15, 1e-9, 0.5):
                yield dict(kind='rho', eps=e, delta=d)
        for r in (1e-6, 1e-2, 1.0, 100.0):
            for d in (1e-15, 1e-6, 0.5):
                yield dict(kind='eps', rho=r, delta=d)

    def nontrivial(self, case):
        return True

    def run_case(self, case):
        from ..realcode import load_mechanism
        from scipy.stats import norm
        from scipy.optimize import minimize_scalar
        m = load_mechanism('cdp2adp')
        out = []
        k = case['kind']
        if k == 'delta':
            rho, eps = case['rho'], case['eps']
            d = m.cdp_delta(rho, eps)
            out.append(('delta-range', 0.0 <= d <= 1.0 and d == d, dict(delta=d)))
            d_r = m.cdp_delta(rho * 1.07, eps)
            d_e = m.cdp_delta(rho, eps * 1.07)
            out.append(('delta-monotone-in-rho', d_r >= d * (1 - 1e-9), dict(delta=d, delta_at_larger_rho=d_r)))
            out.append(('delta-monotone-in-eps', d_e <= d * (1 + 1e-9), dict(delta=d, delta_at_larger_eps=d_e)))
            # exact delta of the Gaussian mechanism with this rho (sensitivity 1, sigma^2 = 1/(2 rho)), Balle & Wang 2018
            sigma = math.sqrt(1 / (2 * rho))
            logterm = eps + norm.logcdf(-eps * sigma - 1 / (2 * sigma))
            exact = norm.cdf(-eps * sigma + 1 / (2 * sigma)) - math.exp(logterm)
            out.append(('delta-upper-bounds-exact-gaussian', d >= exact - 1e-12 - 1e-9 * abs(exact), dict(delta=d, exact=exact)))
            # optimum of the published Renyi-order bound, independent minimiser.  The published optimum ranges over every order
            # alpha > 1; an implementation may keep alpha away from 1 for numerical stability (the statement does not fix that floor),
            # so the returned delta must lie between the optimum over alpha > 1 and the optimum over alpha >= 1.1: wherever the
            # optimal order is at least 1.1 the two coincide and this is equality within 1e-6.
            def logb(a):
                return (a - 1) * (a * rho - eps) + a * math.log1p(-1 / a) - math.log(a - 1)
            hi = (eps + 1) / (2 * rho) + 2

            def opt(floor):
                r = minimize_scalar(lambda t: logb(math.exp(t)), bounds=(math.log(floor), math.log(hi + 10)), method='bounded',
                                    options=dict(xatol=1e-12))
                best = min(logb(math.exp(r.x)), logb(floor), logb(hi))
                return min(1.0, math.exp(best)) if best < 700 else 1.0
            ref_lo, ref = opt(1.0 + 1e-9), opt(1.1)
            ok = d <= ref * (1 + 1e-6) + 1e-300 and d >= ref_lo * (1 - 1e-6) - 1e-300
            out.append(('delta-equals-optimum-of-renyi-bound', ok, dict(delta=d, independent_optimum_alpha_ge_1_1=ref, independent_optimum_alpha_gt_1=ref_lo)))
        elif k == 'rho':
            eps, delta = case['eps'], case['delta']
            r = m.cdp_rho(eps, delta)
            d = m.cdp_delta(r, eps)
            out.append(('rho-sound', r >= 0 and d <= delta * (1 + 1e-9), dict(rho=r, implied_delta=d, target=delta)))
            # tightness / inversion are only meaningful when the search is not capped at its upper end rho = eps+1
            interior = m.cdp_delta(eps + 1, eps) > delta
            d2 = m.cdp_delta(r * (1 + 1e-3) + 1e-300, eps) if interior else 2.0
            out.append(('rho-tight', d2 > delta * (1 - 1e-9), dict(rho=r, implied_delta_at_1p001_rho=d2, target=delta)))
            r_e = m.cdp_rho(eps * 1.07, delta)
            r_d = m.cdp_rho(eps, min(delta * 1.07, 0.99))
            out.append(('rho-monotone-in-eps', r_e >= r * (1 - 1e-9), dict(rho=r, rho_at_larger_eps=r_e)))
            out.append(('rho-monotone-in-delta', r_d >= r * (1 - 1e-9), dict(rho=r, rho_at_larger_delta=r_d)))
            e_back = m.cdp_eps(r, delta) if interior else eps
            out.append(('eps-of-rho-inverts', abs(e_back - eps) <= 1e-6 * max(eps, 1e-3) + 1e-9, dict(eps=eps, back=e_back, rho=r)))
        elif k == 'eps':
            rho, delta = case['rho'], case['delta']
            e = m.cdp_eps(rho, delta)
            d = m.cdp_delta(rho, e)
            out.append(('eps-sound', e >= 0 and d <= delta * (1 + 1e-9), dict(eps=e, implied_delta=d, target=delta)))
            # when even eps = 0 meets the target the answer is (numerically) 0 and there is nothing to be tight against
            interior = m.cdp_delta(rho, 0.0) > delta
            if interior:
                d2 = m.cdp_delta(rho, e * (1 - 1e-3))
                out.append(('eps-tight', d2 > delta * (1 - 1e-9), dict(eps=e, implied_delta_at_0p999_eps=d2, target=delta)))
            e_r = m.cdp_eps(rho * 1.07, delta)
            e_d = m.cdp_eps(rho, min(delta * 1.07, 0.99))
            out.append(('eps-monotone-in-rho', e_r >= e * (1 - 1e-9), dict(eps=e, eps_at_larger_rho=e_r)))
            out.append(('eps-monotone-in-delta', e_d <= e * (1 + 1e-9), dict(eps=e, eps_at_larger_delta=e_d)))
            if interior:
                r_back = m.cdp_rho(e, delta)
                out.append(('rho-of-eps-inverts', abs(r_back - rho) <= 1e-6 * rho + 1e-12, dict(rho=rho, back=r_back, eps=e)))
        return out

    def finding_key(self, case, clause, detail):
        return 'bounded:%s' % clause


PROP = C07()
