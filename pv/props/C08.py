"""C08 — the model returned by estimation is one coherent, valid distribution (bounded tier)."""
import copy
from ..runner import Prop
from ..bounded import model_common as MC

ENGINES = ['MD', 'RDA', 'IG']
ITERS = [1, 2, 5, 50]


class C08(Prop):
    id = 'C08'
    level = 'other'
    technique = ('run-time contract tier (bounded): FactoredInference.estimate driven on small random domains; every answer of the returned '
                 'model compared with an explicit joint table built by attribute name from the stored potentials')
    explanation = ('Bounded tier only in this module (labelled bounded, never counted as proved): for 3 solvers x iteration counts {1,2,5,50} x '
                   'measurement sets (empty list, single, chain, nested, cyclic, star, disconnected, partial; identity/None/scaled/prefix/dense/'
                   'sparse queries; tuple/list/str projections) x structural zeros on/off x known/estimated total x early exits (noise-free '
                   'identity measurements of the uniform distribution for MD, Lipschitz constant 0 for RDA), the returned model is queried on '
                   'every non-empty attribute subset (plus permuted orders and datavector()).  Clauses: estimate returns a model; stored clique '
                   'marginals equal the marginals of exp(sum of stored potentials) normalised to total (rtol 1e-6, atol 1e-9*total); every '
                   'answer finite, >= -1e-12*total, sums to total (rtol 1e-8); any two answers agree on their shared attributes; answers equal '
                   'the marginals of the stored parameters; project() with and without the cached marginals agrees.')
    rule = ('seeded random cases: domain of 2..4 attributes with sizes 2..4, a named clique structure, random query kinds/noise, optional '
            'structural zeros (never all cells), total known or estimated, engine, iters; plus fixed empty-list and early-exit cases. '
            'non-trivial = the measurement list is non-empty or structural zeros are declared; distinct by the full case dict')
    trusted_base = ['numpy (axis sums / broadcasting of the harness-side joint table)', 'python multiprocessing fork pool of pv.runner']
    assumptions = ['bounded: only the generated cases are decided; domains have <= 4 attributes of size <= 4',
                   'RDA/IG refit parameters with log(mu + 1e-100): agreement is asserted to rtol 1e-6 / atol 1e-9*total',
                   'size-1 attributes are not generated (scipy eigsh rejects 1-column queries for RDA/IG)']
    quick_budget_s = 80
    thorough_budget_s = 500

    # ------------------------------------------------------------------ cases
    def cases(self, tier, seed):
        import numpy as np
        rng = np.random.RandomState(seed)
        n = 0

        def nxt():
            nonlocal n
            n += 1
            return int(seed * 1000003 + n)

        def zeros_for(dom, cliques, rng):
            attrs = MC.dom_attrs(dom)
            for _ in range(20):
                how = rng.choice(['measured', 'sub', 'other'])
                if how == 'measured' and cliques:
                    cl = list(cliques[rng.randint(len(cliques))])
                elif how == 'sub' and cliques:
                    c = list(cliques[rng.randint(len(cliques))])
                    cl = c[:max(1, len(c) - 1)]
                else:
                    k = int(rng.randint(1, min(3, len(attrs)) + 1))
                    cl = sorted(rng.choice(attrs, size=k, replace=False).tolist())
                z = [[cl, MC.rand_zero_cells(rng, dom, cl, str(rng.choice(['one', 'few', 'slice'])))]]
                if (~MC.zero_mask(dom, z)).sum() >= 2:
                    return z
            return []

        # 0. the input of the recorded known finding (large potentials, see known_findings.json): always exercised, so that
        #    the KNOWN-FINDING line is printed on every run
        yield dict(kind='known-finding-large-potentials', dom=[['a', 2], ['b', 2]],
                   ms=[dict(proj=['a'], q='I', noise=1.0, exact=True, y=[80.0, 20.0])], truth='uniform', zeros=[], total=1.0,
                   engine='MD', iters=50, seed=nxt())
        # 1. empty measurement list: every solver x zeros x known/estimated total
        for eng in ENGINES:
            for total in (None, 16.0):
                for z in (False, True):
                    dom = MC.rand_dom(rng, 3)
                    yield dict(kind='empty', dom=dom, ms=[], truth='uniform', zeros=zeros_for(dom, [], rng) if z else [],
                               total=total, engine=eng, iters=int(rng.choice(ITERS)), seed=nxt())
        # 2. early exits: noise-free identity measurements of the uniform distribution (power-of-two tables so that
        #    the uniform cells are exact floats and MD sees loss == 0 before assigning marginals)
        for eng in ENGINES:
            for it in (1, 5):
                for shape, total in (([2, 4, 2], 16.0), ([2, 2, 2], 8.0), ([4, 4], 32.0), ([2, 2, 2, 2], 16.0)):
                    dom = [[MC.ATTRS[i], s] for i, s in enumerate(shape)]
                    at = MC.dom_attrs(dom)
                    ms = [dict(proj=at[:2], q='I', noise=1.0, exact=True), dict(proj=[at[1]], q='N', noise=2.0, exact=True)]
                    if len(at) > 2:
                        ms.append(dict(proj=at[1:3], q='E', noise=1.0, exact=True))
                    yield dict(kind='early-exit', dom=dom, ms=ms, truth='uniform', zeros=[], total=total, engine=eng, iters=it, seed=nxt())
        # 3. main grid
        reps = 2 if tier == 'quick' else 12
        for rep in range(reps):
            for it in ITERS:
                for eng in ENGINES:
                    for z in (False, True):
                        for known in (True, False):
                            for _ in range(8):
                                dom = MC.rand_dom(rng)
                                st = MC.structures(len(dom))
                                name = str(rng.choice(sorted(st)))
                                cliques = st[name]
                                specs = MC.rand_specs(rng, cliques, exact=bool(rng.rand() < 0.15))
                                if rng.rand() < 0.2 and len(specs[0]['proj']) > 1:
                                    specs[0]['proj'] = specs[0]['proj'][::-1]          # non-canonical attribute order
                                total = float(rng.choice([1.0, 10.0, 100.0, 12345.0])) if known else None
                                yield dict(kind=name, dom=dom, ms=specs, truth=str(rng.choice(['dirichlet', 'skewed', 'uniform'])),
                                           zeros=zeros_for(dom, cliques, rng) if z else [], total=total, engine=eng, iters=it, seed=nxt())

        # 4. branching junction trees (5 attributes of size 2..3): the refit of RDA / IG must condition every clique on ALL cliques listed before it
        for rep in range(1 if tier == 'quick' else 6):
            for it in ITERS:
                for eng in ENGINES:
                    dom = MC.rand_dom(rng, 5, lo=2, hi=3)
                    st = MC.structures(5)
                    name = str(rng.choice(['branch', 'fork']))
                    specs = MC.rand_specs(rng, st[name])
                    yield dict(kind=name, dom=dom, ms=specs, truth=str(rng.choice(['dirichlet', 'skewed'])), zeros=[], total=float(rng.choice([1.0, 100.0])),
                               engine=eng, iters=it, seed=nxt())

    def nontrivial(self, case):
        return bool(case['ms']) or bool(case['zeros'])

    def finding_key(self, case, clause, detail):
        if clause == 'estimate-returns-model':
            return 'bounded:estimate-returns-model:%s:%s' % (case['engine'], 'empty-measurements' if not case['ms'] else 'measurements')
        if (detail or {}).get('max_abs_potential', 0) >= 1e7:
            # float cancellation regime of belief propagation (relative normalisation error ~ eps * max|potential|): keyed separately, still a violation
            return 'bounded:%s:potentials>=1e7' % clause
        return 'bounded:%s' % clause

    # ------------------------------------------------------------------ driver
    def run_case(self, case):
        import numpy as np
        from mbi import FactoredInference
        dom = case['dom']
        attrs = MC.dom_attrs(dom)
        domain = MC.mk_domain(dom)
        rng = np.random.RandomState(case['seed'] % (2 ** 31))
        np.random.seed(case['seed'] % (2 ** 31))
        ntrue = case['total'] if case['total'] is not None else 100.0
        truth = MC.truth_table(rng, MC.dom_shape(dom), case['truth'], ntrue)
        ms, _ = MC.build_measurements(dom, case['ms'], truth, rng)
        zeros = MC.zeros_dict(case['zeros'])
        out = []
        res = self._run(case, dom, attrs, domain, rng, ms, zeros, out)
        pm = self._pmax
        return [(c, ok, d if ok else dict(d, max_abs_potential=pm)) for c, ok, d in res]

    def _run(self, case, dom, attrs, domain, rng, ms, zeros, out):
        import numpy as np, copy
        from mbi import FactoredInference
        self._pmax = 0.0
        engine = FactoredInference(domain, iters=case['iters'], structural_zeros=zeros)
        try:
            model = engine.estimate(ms, total=case['total'], engine=case['engine'])
        except Exception as e:                      # the stated family includes this input: no model is returned at all
            return [('estimate-returns-model', False, dict(raised='%s: %s' % (type(e).__name__, e), engine=case['engine'],
                                                           measurements=len(ms), iters=case['iters']))]
        out.append(('estimate-returns-model', model is not None and hasattr(model, 'potentials'), {}))
        total = float(model.total)
        for f in model.potentials.values():
            v = np.asarray(f.values, dtype=float)
            v = np.abs(v[np.isfinite(v)])
            if v.size:
                self._pmax = max(self._pmax, float(v.max()))
        has_marg = hasattr(model, 'marginals')
        joint = MC.joint_table(model)
        atol = 1e-9 * total

        # (a) stored marginals vs parameters
        if has_marg:
            bad = None
            for cl in model.cliques:
                got, _ = MC.factor_array(model.marginals[cl], tuple(cl))
                want = MC.arr_marginal(joint, attrs, tuple(cl))
                if not MC.close(got, want, 1e-6, atol):
                    bad = dict(clique=list(cl), maxdiff=MC.maxdiff(got, want), stored=got.tolist(), implied_by_parameters=want.tolist())
                    break
            out.append(('stored-marginals-match-parameters', bad is None, bad or {}))

        # (b) answers
        queries = list(MC.all_subsets(attrs))
        for q in list(queries):
            if len(q) >= 2:
                queries.append(tuple(reversed(q)))
        answers = {}
        for q in queries:
            f = model.project(q if rng.rand() < 0.5 else list(q))
            arr, lab = MC.factor_array(f)
            answers[q] = (arr, lab)
        dv = np.asarray(model.datavector(), dtype=float)
        answers['datavector'] = (dv.reshape(MC.dom_shape(dom)) if dv.size == int(np.prod(MC.dom_shape(dom))) else dv, tuple(attrs))
        dv2 = np.asarray(model.datavector(flatten=False), dtype=float)

        bad_dom = [list(q) for q in queries if set(answers[q][1]) != set(q) or answers[q][0].shape != MC.sizes(dom, answers[q][1])]
        out.append(('answer-is-over-requested-attributes', not bad_dom and dv.size == joint.size and dv2.shape == joint.shape,
                    dict(queries=bad_dom, datavector_size=int(dv.size))))
        if bad_dom or dv.size != joint.size:
            return out
        fin = [str(q) for q, (a, _) in answers.items() if not np.all(np.isfinite(a))]
        out.append(('answers-finite', not fin, dict(queries=fin)))
        neg = [(str(q), float(np.min(a))) for q, (a, _) in answers.items() if np.all(np.isfinite(a)) and np.min(a) < -1e-12 * total]
        out.append(('answers-nonnegative', not neg, dict(queries=neg)))
        sums = [(str(q), float(a.sum())) for q, (a, _) in answers.items() if not abs(float(a.sum()) - total) <= 1e-8 * total]
        out.append(('answers-sum-to-total', not sums, dict(total=total, sums=sums)))

        bad = None
        keys = list(answers)
        for i in range(len(keys)):
            for j in range(i + 1, len(keys)):
                a1, l1 = answers[keys[i]]
                a2, l2 = answers[keys[j]]
                shared = tuple(a for a in attrs if a in l1 and a in l2)
                if not shared:
                    continue
                m1, m2 = MC.arr_marginal(a1, l1, shared), MC.arr_marginal(a2, l2, shared)
                if not MC.close(m1, m2, 1e-6, atol):
                    bad = dict(query1=str(keys[i]), query2=str(keys[j]), shared=list(shared), maxdiff=MC.maxdiff(m1, m2),
                               first=m1.tolist(), second=m2.tolist(), model_cliques=[list(c) for c in model.cliques], has_marginals=has_marg)
                    break
            if bad:
                break
        out.append(('answers-agree-on-shared-attributes', bad is None, bad or {}))

        bad = None
        for q, (a, l) in answers.items():
            want = MC.arr_marginal(joint, attrs, l)
            if not MC.close(a, want, 1e-6, atol):
                bad = dict(query=str(q), maxdiff=MC.maxdiff(a, want), answer=a.tolist(), implied_by_parameters=want.tolist(), has_marginals=has_marg)
                break
        out.append(('answers-match-stored-parameters', bad is None and MC.close(dv2, joint, 1e-6, atol), bad or {}))

        # (c) cached vs uncached path of project
        if has_marg:
            bare = copy.copy(model)
            del bare.marginals
            bad = None
            for q in queries:
                if any(set(q) <= set(cl) for cl in model.cliques):
                    u, _ = MC.factor_array(bare.project(q), answers[q][1])
                    if not MC.close(u, answers[q][0], 1e-6, atol):
                        bad = dict(query=list(q), maxdiff=MC.maxdiff(u, answers[q][0]), cached=answers[q][0].tolist(), uncached=u.tolist())
                        break
            out.append(('cached-and-uncached-project-agree', bad is None, bad or {}))
        return out


PROP = C08()
