"""C11 — synthetic records faithfully realise the model (bounded tier)."""
from ..runner import Prop
from ..bounded import model_common as MC


def rounding_bound(cliques, elimination_order, dom):
    """Sound, row-independent bound on the L1 error of the record counts on any model clique in 'round' mode.

    Columns are generated in reverse elimination order; column x is generated per configuration g of its
    already-generated neighbours Pa(x) (K_x = Pa(x) + {x} is a clique of the triangulated graph, and every
    maximal clique is K_x for its last-generated attribute).  Largest-remainder rounding emits, for each g
    with n_g records, counts e_gv with |e_gv - n_g P(v|g)| < 1.  With E_g = n_g - rows*P(g):
        sum_{g,v} |e_gv - rows*P(g,v)|  <  |K_x| + sum_g |E_g|  <=  |K_x| + L1error(K_y)
    where K_y contains Pa(x) (marginalising never increases an L1 error).  Unrolling along the chain of
    generation steps gives L1error(K_x) < sum over all generated attributes y of |K_y| (number of cells).
    """
    order = list(elimination_order)[::-1]
    used, B = set(), 0
    for x in order:
        nb = set()
        for c in cliques:
            if x in c:
                nb |= set(c)
        K = (nb & used) | {x}
        B += MC.ncells(dom, sorted(K))
        used.add(x)
    return B


class C11(Prop):
    id = 'C11'
    level = 'other'
    technique = ('run-time contract tier (bounded): GraphicalModel.synthetic_data driven on directly constructed and on estimated models; '
                 'record counts compared with expected counts from an explicit joint table of the stored potentials')
    explanation = ('Bounded tier only in this module (labelled bounded, never counted as proved): models over chains, stars, 3-cliques, cycles, '
                   'disconnected attributes and independent attributes with random potentials, -inf potentials (zero-probability cells), '
                   'structural zeros through estimation (MD/RDA/IG), cached marginals on/off, given/greedy elimination orders, totals from 1 to '
                   '1e5; rows in {None, 1, 10, 1000, 1e5 (1e6 thorough)} x method in {round, sample} x seeds.  Clauses: a Dataset is returned; '
                   'exactly rows records (None -> int(total)); columns are the domain attributes; integer dtype; every value inside its '
                   'attribute domain; no record in a zero-probability cell of any model clique or of the joint; round: the L1 (hence every '
                   'per-cell) error of the counts on every model clique is below the row-independent bound sum_x |K_x| derived in '
                   'rounding_bound(); sample: statistical sanity bound TV <= 6*sqrt(cells/rows) per clique for rows >= 1e4 (labelled statistical).')
    rule = ('seeded random cases: (model source direct|estimated, structure, domain sizes 2..4, potential scale, zero fraction, total, cache, '
            'elimination order) x rows x method x seed; non-trivial = the model is not the uniform distribution (some potential differs) and '
            'rows != 0; distinct by the full case dict')
    trusted_base = ['numpy (np.add.at counting loop, joint table)', 'python multiprocessing fork pool of pv.runner']
    assumptions = ['bounded: only the generated cases are decided; <= 4 attributes of size <= 4; rows <= 1e5 quick / 1e6 thorough',
                   'sampling mode: "records follow the model distribution" is only sanity-checked by a loose statistical bound',
                   'a cell counts as zero-probability when the joint implied by the stored potentials gives it <= 1e-90 of the mass '
                   '(RDA/IG models store log(mu + 1e-100))',
                   'the rounding bound relies on the junction tree being built from model.elimination_order (C12)']
    quick_budget_s = 80
    thorough_budget_s = 600

    def cases(self, tier, seed):
        import numpy as np
        rng = np.random.RandomState(seed + 211)
        big = 10 ** 5
        rows_list = [None, 1, 10, 1000, big] + ([10 ** 6] if tier == 'thorough' else [])
        reps = 3 if tier == 'quick' else 12
        n = 0
        for rep in range(reps):
            for rows in rows_list:
                for method in ('round', 'sample'):
                    for zf in (0.0, 0.25):
                        for src in ('direct', 'direct', 'direct', 'direct', 'estimated'):
                            for _ in range(3):
                                n += 1
                                dom = MC.rand_dom(rng, int(rng.choice([2, 3, 3, 4, 4, 4])))
                                st = MC.structures(len(dom))
                                name = str(rng.choice(sorted(st)))
                                elim = None
                                if rng.rand() < 0.3:
                                    elim = [str(a) for a in rng.permutation(MC.dom_attrs(dom))]
                                total = float(rng.choice([1.0, 7.9, 100.0, 1234.5, 100000.25])) if rows is not None else \
                                    float(rng.choice([1.0, 7.9, 100.0, 1234.5, 20000.75]))
                                c = dict(source=src, structure=name, dom=dom, cliques=st[name], elim=elim, total=total,
                                         scale=float(rng.choice([0.0, 0.5, 2.0, 5.0])) if src == 'direct' else 1.0,
                                         zero_frac=zf, cache=bool(rng.rand() < 0.5), rows=rows, method=method,
                                         seed=int(seed * 1000003 + n))
                                if src == 'estimated':
                                    c['engine'] = str(rng.choice(['MD', 'RDA', 'IG']))
                                yield c

    def nontrivial(self, case):
        return case['rows'] != 0 and (case['scale'] > 0 or case['zero_frac'] > 0 or case['source'] == 'estimated')

    def finding_key(self, case, clause, detail):
        return 'bounded:%s' % clause

    # ------------------------------------------------------------------ model construction (inputs)
    def build_model(self, case, rng):
        import numpy as np
        from mbi import GraphicalModel, CliqueVector, Factor, FactoredInference
        dom = case['dom']
        domain = MC.mk_domain(dom)
        cliques = [tuple(c) for c in case['cliques']]
        if case['source'] == 'direct':
            model = GraphicalModel(domain, cliques, total=case['total'], elimination_order=case['elim'])
            for attempt in range(50):
                pots = {}
                for cl in model.cliques:
                    shp = MC.sizes(dom, cl)
                    v = rng.normal(size=shp) * case['scale']
                    zf = case['zero_frac'] * (0.8 ** attempt)
                    if zf > 0:
                        v = np.where(rng.rand(*shp) < zf, -np.inf, v)
                    pots[cl] = Factor(domain.project(cl), v)
                model.potentials = CliqueVector(pots)
                if np.isfinite(MC.joint_log(model)).sum() >= 1:
                    break
            if case['cache']:
                model.marginals = model.belief_propagation(model.potentials)
            return model
        # estimated model, zero-probability cells through structural zeros
        zs = []
        if case['zero_frac'] > 0:
            for _ in range(30):
                cl = list(cliques[rng.randint(len(cliques))])
                zs = [[cl, MC.rand_zero_cells(rng, dom, cl, str(rng.choice(['one', 'few', 'slice'])))]]
                if (~MC.zero_mask(dom, zs)).sum() >= 2:
                    break
                zs = []
        truth = MC.truth_table(rng, MC.dom_shape(dom), 'skewed', case['total'])
        if zs:
            truth = np.where(MC.zero_mask(dom, zs), 0.0, truth)
        ms, _ = MC.build_measurements(dom, MC.rand_specs(rng, cliques, plain=True), truth, rng)
        eng = FactoredInference(domain, iters=int(rng.choice([3, 30])), structural_zeros=MC.zeros_dict(zs), elim_order=case['elim'])
        return eng.estimate(ms, total=case['total'], engine=case['engine'])

    # ------------------------------------------------------------------ driver
    def run_case(self, case):
        import numpy as np
        dom = case['dom']
        attrs = MC.dom_attrs(dom)
        rng = np.random.RandomState(case['seed'] % (2 ** 31))
        np.random.seed(case['seed'] % (2 ** 31))
        model = self.build_model(case, rng)
        total = float(model.total)
        joint = MC.joint_table(model) / total                   # probabilities implied by the stored parameters
        rows, method = case['rows'], case['method']
        want_rows = int(total) if rows is None else int(rows)
        np.random.seed((case['seed'] + 7) % (2 ** 31))
        out = []

        def snapshot():
            snap = {}
            for nm in ('potentials', 'marginals'):
                cv = getattr(model, nm, None)
                if cv is not None:
                    for cl in cv:
                        snap[(nm, tuple(cl))] = np.array(cv[cl].values, dtype=float, copy=True)
            return snap
        before = snapshot()
        try:
            data = model.synthetic_data(rows=rows, method=method)
            df = data.df
        except Exception as e:
            return [('returns-dataset', False, dict(raised='%s: %s' % (type(e).__name__, e), rows=rows, method=method,
                                                    model_cliques=[list(c) for c in model.cliques]))]
        out.append(('returns-dataset', True, {}))
        # the model is the reference every later call is measured against: generating data must not change what it stores
        after = snapshot()
        changed = [k for k in before if k not in after or before[k].shape != after[k].shape
                   or not np.array_equal(before[k], after[k], equal_nan=True)]
        out.append(('generation-leaves-the-model-unchanged', not changed,
                    dict(changed=[[k[0], list(k[1])] for k in changed][:4],
                         max_abs_change=max([float(np.nanmax(np.abs(np.where(np.isfinite(before[k]) & np.isfinite(after[k]), before[k] - after[k], 0.0))))
                                             for k in changed if k in after and before[k].shape == after[k].shape] or [0.0]),
                         note='a second synthetic_data call on this model would realise the altered tables, not the model')))
        out.append(('row-count-is-requested', int(df.shape[0]) == want_rows, dict(rows_arg=rows, model_total=total, expected=want_rows, got=int(df.shape[0]))))
        out.append(('columns-are-domain-attributes', list(df.columns) == attrs and tuple(data.domain.attrs) == tuple(attrs),
                    dict(columns=[str(c) for c in df.columns], attrs=attrs)))
        if list(df.columns) != attrs:
            return out
        kinds = {a: str(df[a].dtype) for a in attrs}
        out.append(('integer-dtype', all(df[a].dtype.kind in 'iu' for a in attrs), dict(dtypes=kinds)))
        vals = {a: np.asarray(df[a].values, dtype=float) for a in attrs}
        rng_ok = all(len(v) == 0 or (np.all(np.isfinite(v)) and np.all(v == np.floor(v)) and v.min() >= 0 and v.max() < n)
                     for (a, n), v in zip(dom, [vals[a] for a in attrs]))
        out.append(('values-in-domain', bool(rng_ok), dict(min={a: float(np.min(vals[a])) if len(vals[a]) else None for a in attrs},
                                                          max={a: float(np.max(vals[a])) if len(vals[a]) else None for a in attrs}, sizes=dict(dom))))
        if not rng_ok:
            return out
        n = int(df.shape[0])
        B = rounding_bound(model.cliques, model.elimination_order, dom)
        zero_bad, round_bad, stat_bad = None, None, None
        worst_ratio = 0.0
        for cl in list(model.cliques) + [tuple(attrs)]:
            t, _ = MC.counts_table(df, dom, cl)
            p = MC.arr_marginal(joint, attrs, cl)
            zero = p <= 1e-90
            if zero_bad is None and int(t[zero].sum()) > 0:
                idx = [list(map(int, i)) for i in np.argwhere(zero & (t > 0))][:5]
                zero_bad = dict(clique=list(cl), records_in_zero_cells=int(t[zero].sum()), cells=idx)
            if tuple(cl) == tuple(attrs) and tuple(attrs) not in [tuple(c) for c in model.cliques]:
                continue
            l1 = float(np.abs(t - n * p).sum())
            if method == 'round':
                worst_ratio = max(worst_ratio, l1 / B)
                if round_bad is None and not l1 < B + 1e-6 * max(1, n):
                    round_bad = dict(clique=list(cl), l1_error=l1, max_cell_error=float(np.abs(t - n * p).max()), bound=B, rows=n,
                                     total_count_deficit=float(n - t.sum()), counts=t.tolist(), expected=(n * p).tolist())
            elif n >= 10 ** 4:
                tv = 0.5 * l1 / n
                lim = 6.0 * np.sqrt(p.size / n)
                if stat_bad is None and not tv <= lim:
                    stat_bad = dict(clique=list(cl), tv=tv, limit=lim, rows=n)
        out.append(('no-record-in-zero-probability-cell', zero_bad is None, zero_bad or {}))
        if method == 'round':
            out.append(('round-count-error-below-row-independent-bound', round_bad is None, round_bad or dict(worst_l1_over_bound=worst_ratio)))
        elif n >= 10 ** 4:
            out.append(('sample-statistical-tv-sanity', stat_bad is None, stat_bad or {}))
        return out


PROP = C11()
