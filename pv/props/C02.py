"""C02 — every query path answers from one and the same joint distribution (bounded tier)."""
import itertools, os, tempfile
from ..runner import Prop
from ..bounded import exact_common as X
from .C01 import _pick, _sizes, prufer_tree

TOTALS = [0.5, 1.0, 10.0, 1e3, 7.0]
OPSEQS = [s for k in range(0, 4) for s in itertools.product('PM', repeat=k)]     # every interleaving of <= 3 operations


def kron_oracle(P, mats):
    """(Q1 x Q2 x ... x Qd) applied to the joint table P (domain order): tensor of shape (rows(Q1), ..., rows(Qd))."""
    import numpy as np
    T = np.asarray(P, dtype=float)
    for k, Q in enumerate(mats):
        T = np.moveaxis(np.tensordot(np.asarray(Q, dtype=float), T, axes=(1, k)), 0, k)
    return T


def draw_matrices(rng, sizes):
    import numpy as np
    mats = []
    for n in sizes:
        kind = int(rng.randint(5))
        if kind == 0:
            Q = np.eye(n)
        elif kind == 1:
            Q = np.ones((1, n))
        elif kind == 2:
            Q = np.tril(np.ones((n, n)))
        elif kind == 3:
            Q = (rng.rand(int(rng.randint(1, 4)), n) < 0.5).astype(float)
        else:
            Q = rng.randn(int(rng.randint(1, 4)), n)
        mats.append(Q)
    return mats


class Ctx:
    """one model spec + potentials + the explicit joint; `fresh()` builds a new real model with the same parameters."""

    def __init__(self, case):
        import numpy as np
        self.case = case
        self.attrs, self.sizes, self.total = list(case['attrs']), list(case['sizes']), float(case['total'])
        rng = np.random.RandomState(case['seed'])
        m = X.build_model(case)
        self.mcl = [tuple(c) for c in m.cliques]
        self.arrays = X.draw_potentials(rng, self.attrs, self.sizes, self.mcl, case['mag'], case['ninf'], case['slices'])
        self.P, self.logZ = X.normalise(X.joint_log(self.attrs, self.sizes, list(self.arrays.items())), self.total)
        assert self.P is not None, 'harness: witness cell must keep the joint finite'
        self.rng = rng

    def fresh(self):
        m = X.build_model(self.case)
        assert [tuple(c) for c in m.cliques] == self.mcl, 'harness: model construction is not reproducible from the case'
        m.potentials = X.to_clique_vector(m.domain, self.arrays)
        assert not hasattr(m, 'marginals')
        return m

    # --- single answers -------------------------------------------------------------------
    def answer_ok(self, f, req):
        """(layout_ok, value_ok, sum_ok, detail) of a returned Factor for the requested attribute tuple."""
        import numpy as np
        req = tuple(req)
        got_attrs = tuple(f.domain.attrs)
        vals = np.asarray(f.values, dtype=float)
        want = X.marginal(self.P, self.attrs, req)
        layout = got_attrs == req and vals.shape == want.shape and tuple(f.domain.shape) == want.shape
        if set(got_attrs) == set(req) and len(got_attrs) == len(req) and vals.shape == tuple(self.sizes[self.attrs.index(a)] for a in got_attrs):
            value = X.close(vals, X.marginal(self.P, self.attrs, got_attrs), self.total)     # by name
        else:
            value = False
        fin = bool(np.all(np.isfinite(vals)))
        ssum = fin and abs(float(vals.sum()) - self.total) <= 1e-8 * self.total
        det = dict(requested=list(req), got_attrs=list(got_attrs), got=vals.tolist(), want=want.tolist())
        return layout, value, ssum, det

    def check_projects(self, model, tuples, prefix, out, as_list=False, extra=None):
        lay = val = ssum = True
        dl = dv = ds = {}
        for t in tuples:
            f = model.project(list(t) if as_list else tuple(t))
            l, v, s, d = self.answer_ok(f, t)
            if not l and lay:
                lay, dl = False, d
            if not v and val:
                val, dv = False, d
            if not s and ssum:
                ssum, ds = False, d
        e = dict(extra or {}, queries=len(tuples), given_as='list' if as_list else 'tuple')
        out.append((prefix + '-value', val, dict(e, **dv)))
        out.append((prefix + '-layout', lay, dict(e, **dl)))
        out.append((prefix + '-sums-to-total', ssum, dict(e, **ds)))

    def check_many(self, model, tuples, prefix, out, extra=None):
        ans = model.calculate_many_marginals([tuple(t) for t in tuples])
        lay = val = ssum = keys = True
        dl = dv = ds = dk = {}
        for t in tuples:
            t = tuple(t)
            if t not in ans:
                keys, dk = False, dict(missing=list(t))
                continue
            l, v, s, d = self.answer_ok(ans[t], t)
            if not l and lay:
                lay, dl = False, d
            if not v and val:
                val, dv = False, d
            if not s and ssum:
                ssum, ds = False, d
        e = dict(extra or {}, queries=len(tuples))
        if not (keys and val and lay and ssum):
            e['projections'] = [list(t) for t in tuples]
        out.append((prefix + '-answers-every-query', keys, dict(e, **dk)))
        out.append((prefix + '-value', val, dict(e, **dv)))
        out.append((prefix + '-layout', lay, dict(e, **dl)))
        out.append((prefix + '-sums-to-total', ssum, dict(e, **ds)))

    def check_krondot(self, model, mats, name, out, extra=None):
        import numpy as np
        got = np.asarray(model.krondot([np.array(Q) for Q in mats]), dtype=float)
        want = kron_oracle(self.P, mats)
        scale = self.total
        for Q in mats:
            scale *= max(1.0, float(np.abs(Q).sum(axis=1).max()))
        if got.shape != want.shape and got.size == want.size and got.ndim == 1:
            want_c = want.reshape(-1)
        else:
            want_c = want
        ok = X.close(got, want_c, scale, rtol=1e-7, atol_rel=1e-9)
        det = dict(extra or {}, matrix_shapes=[list(np.shape(Q)) for Q in mats])
        if not ok:
            det.update(matrices=[np.asarray(Q).tolist() for Q in mats], got=got.tolist(), want=want.tolist())
        out.append((name, ok, det))

    def check_datavector(self, model, name, out, extra=None):
        import numpy as np
        v1 = np.asarray(model.datavector(), dtype=float)
        v2 = np.asarray(model.datavector(flatten=False), dtype=float)
        ok1 = v1.shape == (self.P.size,) and X.close(v1, self.P.reshape(-1), self.total)
        ok2 = v2.shape == self.P.shape and X.close(v2, self.P, self.total)
        s_ok = bool(np.all(np.isfinite(v1))) and abs(v1.sum() - self.total) <= 1e-8 * self.total
        heavy1 = {} if ok1 else dict(got=v1.tolist(), want=self.P.reshape(-1).tolist())
        heavy2 = {} if ok2 else dict(got=v2.tolist(), want=self.P.tolist())
        out.append((name + '-flat', ok1, dict(extra or {}, **heavy1)))
        out.append((name + '-table', ok2, dict(extra or {}, got_shape=list(v2.shape), want_shape=list(self.P.shape), **heavy2)))
        out.append((name + '-sums-to-total', s_ok, dict(extra or {}, sum=float(v1.sum()) if v1.size else 0.0, total=self.total)))


class C02(Prop):
    id = 'C02'
    level = 'other'
    title = 'Every query path answers from one and the same joint distribution'
    technique = ('run-time contract on the real GraphicalModel.project / calculate_many_marginals / krondot / datavector / save+load against one explicit joint '
                 'table (numpy), over all attribute tuples of enumerated models and all interleavings of <= 3 cache-populating operations')
    explanation = ('Bounded tier (labelled bounded, never counted as proved): models = sets of <= 4 distinct cliques of size <= 3 on <= 4 attributes (cyclic, disconnected, nested, '
                   'branching, 3-cliques, attributes in no clique; all of them in thorough, all on <= 3 attributes plus a seeded sample on 4 attributes in quick) and attribute trees '
                   'on 5 attributes; sizes 1..3, totals 0.5/1/7/10/1e3, elimination order None / int / explicit, log-potentials on model.cliques finite or with -inf cells. '
                   'kind=paths: project(attrs) for ALL subsets x orderings of the attributes incl. () and the full tuples (all 65 tuples on 4 attributes; a seeded sample of 70 on 5), '
                   'given as tuple and as list, without model.marginals, with model.marginals assigned from belief_propagation, and with model.marginals left by '
                   'calculate_many_marginals; calculate_many_marginals on the same list; krondot with seeded matrices (identity, total, prefix, 0/1, gaussian; 1-3 rows); '
                   'datavector(flatten True/False); save/load through a temp file followed by the same queries on the loaded model (cached and uncached). '
                   'kind=interleave: every sequence of <= 3 operations from {project, calculate_many_marginals} (15 sequences, seeded arguments, each answer checked) on a fresh model, '
                   'followed by project on seeded tuples + () + a full tuple, calculate_many_marginals, krondot and datavector. '
                   'Every answer must have domain.attrs == the requested tuple, equal the oracle marginal in that layout (rtol 1e-7 + 1e-9*total) and sum to total.')
    rule = ('case = (kind, clique set, domain order, sizes, total, elimination order mode, potential regime, seed); non-trivial = at least two attributes of size >= 2 and at least one '
            'clique with >= 2 attributes; distinct by the whole case dict; detail.queries counts the attribute tuples asked in a clause')
    trusted_base = ['numpy (explicit joint table, tensordot for the Kronecker oracle)', 'python itertools (subsets x orderings, operation sequences)', 'python tempfile']
    assumptions = ['bounded: only the enumerated models, sizes 1..3, seeded potentials of magnitude <= 3 (krondot exponentiates raw potentials) are decided',
                   'projections are passed to calculate_many_marginals as tuples (the method keys its answer dict by the projection)',
                   'krondot matrices have between 1 and 3 rows and are dense numpy arrays',
                   'float comparison with rtol 1e-7 and atol 1e-9*total (times the row-sum norms of the matrices for krondot)']
    quick_budget_s = 60
    thorough_budget_s = 1500
    exhaustive = {'quick': False, 'thorough': False}

    # ------------------------------------------------------------------ cases
    def cases(self, tier, seed):
        import numpy as np
        rng = np.random.RandomState(seed)
        quick = tier == 'quick'

        def mk(kind, attrs, cliques, sizes=None, n_tuples=None):
            r = np.random.RandomState(rng.randint(2 ** 31 - 1))
            n = len(attrs)
            dom = [attrs[i] for i in r.permutation(n)] if r.rand() < 0.6 else list(attrs)
            om = int(r.randint(4))
            order = None if om <= 1 else (int(r.randint(1, 4)) if om == 2 else [dom[i] for i in r.permutation(n)])
            c = dict(kind=kind, attrs=dom, sizes=sizes or _sizes(r, n), cliques=X.decorate_cliques(r, cliques), total=_pick(r, TOTALS),
                     order=order, npseed=int(r.randint(2 ** 31 - 1)), as_list=bool(r.rand() < 0.3), seed=int(r.randint(2 ** 31 - 1)),
                     mag=_pick(r, [0.5, 3.0]), ninf=_pick(r, [0.0, 0.0, 0.25]), slices=bool(r.rand() < 0.5))
            if n_tuples:
                c['n_tuples'] = n_tuples
            return c

        structs = []
        for n in (4, 3, 2, 1):
            attrs = list(X.NAMES[:n])
            for cl in X.all_clique_sets(attrs, 3, 4, 0):
                structs.append((attrs, cl))
        small = [s for s in structs if len(s[0]) <= 3]
        four = [s for s in structs if len(s[0]) == 4]
        four = [four[i] for i in rng.permutation(len(four))]
        if quick:
            paths = four[:200] + small
            inter = four[200:360] + small[::3]
        else:
            paths = four + small
            inter = four + small
        trees = []
        for k in range(24 if quick else 200):
            attrs = list(X.NAMES[:5])
            r0 = np.random.RandomState(rng.randint(2 ** 31 - 1))
            lab = [attrs[i] for i in r0.permutation(5)]
            shape = k % 4
            if shape == 0:
                edges = [[lab[0], lab[i]] for i in range(1, 5)]
            elif shape == 1:
                edges = [[lab[0], lab[1]], [lab[0], lab[2]], [lab[0], lab[3]], [lab[3], lab[4]]]
            elif shape == 2:
                edges = [[lab[0], lab[1], lab[2]], [lab[2], lab[3]], [lab[2], lab[4]]]
            else:
                edges = prufer_tree(r0, lab)
            trees.append((attrs, edges))
        seq = []
        for i in range(max(len(paths), len(inter))):
            if i < len(paths):
                seq.append(('paths',) + paths[i])
            if i < len(inter):
                seq.append(('interleave',) + inter[i])
            if i % 12 == 0 and i // 12 < len(trees):
                a, e = trees[i // 12]
                seq.append(('paths' if (i // 12) % 2 == 0 else 'interleave', a, e, 5))
        for item in seq:
            if len(item) == 4:
                kind, a, cl, _ = item
                r = np.random.RandomState(rng.randint(2 ** 31 - 1))
                yield mk(kind, a, cl, sizes=[int(_pick(r, [2, 3, 1], [0.6, 0.25, 0.15])) for _ in a], n_tuples=70)
            else:
                kind, a, cl = item
                yield mk(kind, a, cl)

    def nontrivial(self, case):
        size = dict(zip(case['attrs'], case['sizes']))
        big = sum(1 for a in case['attrs'] if size[a] >= 2)
        return big >= 2 and any(len(set(c)) >= 2 for c in case['cliques'])

    def finding_key(self, case, clause, detail):
        return 'bounded:%s' % clause

    # ------------------------------------------------------------------ driver
    def _tuples(self, ctx, case):
        import numpy as np
        allt = X.all_attr_tuples(ctx.attrs)
        k = case.get('n_tuples')
        if k and len(allt) > k:
            r = np.random.RandomState(case['seed'] + 1)
            idx = r.choice(len(allt), k - 3, replace=False)
            full = tuple(ctx.attrs[i] for i in r.permutation(len(ctx.attrs)))
            allt = [()] + [tuple(ctx.attrs)] + [full] + [allt[i] for i in idx]
        return [tuple(t) for t in allt]

    def run_case(self, case):
        ctx = Ctx(case)
        if case['kind'] == 'paths':
            return self._paths(ctx, case)
        return self._interleave(ctx, case)

    def _paths(self, ctx, case):
        import numpy as np
        from mbi import GraphicalModel
        out = []
        tuples = self._tuples(ctx, case)
        rng = ctx.rng
        # 1. no cache
        m = ctx.fresh()
        ctx.check_projects(m, tuples, 'project-uncached', out)
        ctx.check_projects(m, tuples, 'project-uncached', out, as_list=True)
        assert not hasattr(m, 'marginals')
        mats = draw_matrices(rng, ctx.sizes)
        ctx.check_krondot(m, mats, 'krondot', out, dict(cache='off'))
        ctx.check_datavector(m, 'datavector', out, dict(cache='off'))
        # 2. save / load of the uncached model
        fd, path = tempfile.mkstemp(prefix='pv-c02-', suffix='.pkl')
        os.close(fd)
        try:
            GraphicalModel.save(m, path)
            l1 = GraphicalModel.load(path)
            ctx.check_projects(l1, tuples, 'save-load-project', out, extra=dict(cache='off'))
            ctx.check_krondot(l1, mats, 'save-load-krondot', out, dict(cache='off'))
            ctx.check_datavector(l1, 'save-load-datavector', out, dict(cache='off'))
            same = all(np.array_equal(np.asarray(l1.project(t).values), np.asarray(m.project(t).values)) for t in tuples[:12])
            out.append(('save-load-identical-answers', bool(same), dict(cache='off')))
            # 3. cache assigned from belief_propagation
            m.marginals = m.belief_propagation(m.potentials)
            ctx.check_projects(m, tuples, 'project-cached', out, extra=dict(cache='assigned'))
            ctx.check_projects(m, tuples, 'project-cached', out, as_list=True, extra=dict(cache='assigned'))
            ctx.check_krondot(m, mats, 'krondot', out, dict(cache='assigned'))
            ctx.check_datavector(m, 'datavector', out, dict(cache='assigned'))
            GraphicalModel.save(m, path)
            l2 = GraphicalModel.load(path)
            ctx.check_projects(l2, tuples, 'save-load-project', out, extra=dict(cache='assigned'))
            ctx.check_many(l2, tuples[::3], 'save-load-many-marginals', out)
        finally:
            if os.path.exists(path):
                os.remove(path)
        # 4. bulk path on a fresh model, then the cache it leaves behind
        m2 = ctx.fresh()
        ctx.check_many(m2, tuples, 'many-marginals', out)
        ctx.check_projects(m2, tuples, 'project-cached', out, extra=dict(cache='left by calculate_many_marginals'))
        ctx.check_many(m2, tuples[::-1], 'many-marginals', out, dict(cache='on'))
        return out

    def _interleave(self, ctx, case):
        import numpy as np
        out = []
        tuples = self._tuples(ctx, case)
        rng = ctx.rng
        n = len(ctx.attrs)
        for seq in OPSEQS:
            m = ctx.fresh()
            tag = dict(history=''.join(seq))
            for k_, op in enumerate(seq):
                if k_ == 1 and len(seq) == 3 and seq[0] == 'M':
                    # a caller that consumes answers the way the library's own generator does: it rescales what it is handed in
                    # place (model.synthetic_data with method='round'), after the bulk call has filled the cache.  Query answers
                    # afterwards must still be those of the model.
                    try:
                        import numpy as _np
                        st_ = _np.random.get_state()
                        _np.random.seed(int(rng.randint(1 << 30)))
                        m.synthetic_data(rows=7, method='round')
                        _np.random.set_state(st_)
                        tag = dict(tag, history=tag['history'] + '+generate(7 rows)')
                    except Exception as e_:
                        out.append(('interleaved-op-generate', False, dict(tag, raised='%s: %s' % (type(e_).__name__, e_))))
                if op == 'P':
                    t = tuples[int(rng.randint(len(tuples)))]
                    ctx.check_projects(m, [t], 'interleaved-op-project', out, as_list=bool(rng.rand() < 0.3), extra=tag)
                else:
                    idx = rng.choice(len(tuples), min(len(tuples), int(rng.randint(1, 5))), replace=False)
                    ctx.check_many(m, [tuples[i] for i in idx], 'interleaved-op-many-marginals', out, tag)
            idx = rng.choice(len(tuples), min(6, len(tuples)), replace=False)
            q = [tuples[i] for i in idx] + [(), tuple(ctx.attrs[i] for i in rng.permutation(n))]
            ctx.check_projects(m, q, 'after-history-project', out, extra=tag)
            idx = rng.choice(len(tuples), min(4, len(tuples)), replace=False)
            ctx.check_many(m, [tuples[i] for i in idx], 'after-history-many-marginals', out, tag)
            ctx.check_krondot(m, draw_matrices(rng, ctx.sizes), 'after-history-krondot', out, tag)
            ctx.check_datavector(m, 'after-history-datavector', out, tag)
        return out


PROP = C02()
