"""C15 — datasets vectorise to their contingency table; projection commutes; domain algebra laws (bounded tier).

Cases
  dataset (attrs, sizes, mode, weights, extra, dtype, seed): a Dataset over <= 3 attributes of sizes 1..4 built from a
          DataFrame whose columns are shuffled and may contain unused extra columns; datavector / project / drop /
          records against a counting oracle (plain loops over the records).
  domain  (attrs, sizes, attrs2, sizes2, seed): two random domains (sizes incl. 1, names that are substrings of one
          another) and the Domain methods against plain list/dict/set code.
"""
import itertools
from ..runner import Prop

NAMES = ('a', 'b', 'c', 'ab', 'bc', 'd', 'e1', 'x')          # multi-character names that contain other names
MODES = ('random', 'dups', 'boundary', 'empty')
WEIGHTS = ('none', 'float', 'float-with-zeros')
DTYPES = ('int64', 'int32', 'uint8', 'float64')
SHAPES = [s for k in (1, 2, 3) for s in itertools.product((1, 2, 3, 4), repeat=k)]      # 84


def _prod(xs):
    n = 1
    for x in xs:
        n *= x
    return n


def _ordered_subsets(attrs, min_len=0):
    out = []
    for k in range(min_len, len(attrs) + 1):
        out.extend(itertools.permutations(attrs, k))
    return out


class C15(Prop):
    id = 'C15'
    level = 'other'
    technique = ('bounded run-time contract checking of the real Dataset / Domain methods against a counting oracle (plain Python loops over the '
                 'records) and list/set/dict reference code (deductive tier for the pure-Python Domain methods attached separately)')
    explanation = ('Bounded tier (labelled bounded, never counted as proved). dataset cases: Dataset.datavector(flatten) equals, cell by cell, the number / '
                   'total weight of records with that combination of values, in C order of domain.attrs, for every shape tuple of <= 3 attributes with sizes 1..4, '
                   'record sets that are empty / random / few distinct records repeated / only the boundary values 0 and size-1, weights absent / float / float with zeros, '
                   'DataFrame columns shuffled and optionally with unused extra columns, several integer dtypes and integral float64. Dataset.project(cols) for EVERY non-empty '
                   'ordered attribute list (list, tuple and str forms): domain projected in the requested order, weights carried, records kept, datavector equal to the '
                   'direct count and equal to transpose∘marginalise (computed by the dict-based oracle by attribute name) of the real full table; a chained projection; '
                   'project([]) (domain and records only: numpy.histogramdd cannot build a 0-dimensional table); Dataset.drop for every proper subset; .records. '
                   'domain cases: project (attrs as given; str -> singleton), marginalize / invert (order-preserving complement, foreign names ignored), axes, transpose, '
                   'merge (self then other\'s new attributes; size(merge) = size(self)*size(extra)), contains, size / size(attrs) / size(str), canonical, sort by size and name '
                   '(permutation, non-decreasing key), __eq__, fromdict, __contains__, __getitem__, __iter__, __len__ and the set / product laws linking them.')
    rule = ('dataset case = (shape tuple: all 84 tuples of 1..3 sizes in 1..4) x (record mode: random, dups, boundary, empty) x (weights: none, float, float-with-zeros) x '
            '(extra unused columns: 0 or 2) x seeds (quick 1, thorough 20); attribute names, their order, the column order, dtype and the records are drawn from the case seed; '
            'every ordered projection list and every proper drop set of the domain is evaluated inside the case. domain case = two seeded random domains over an 8-name pool '
            '(0..5 and 0..4 attributes, sizes 1..5, shared attributes agree) with seeded attribute lists incl. foreign names (quick 4032, thorough 40320). '
            'Records conform to the domain (values in 0..size-1). Not exhaustive: values, names and orders are random samples. '
            'non-trivial: dataset case with >= 1 record and >= 2 cells, domain case with >= 2 attributes in the first domain; distinct by the full case dict.')
    trusted_base = ['counting oracle: plain Python loops over the generated records (pv/props/C15.py)', 'pv/bounded/factor_oracle.py for marginalise/transpose by attribute name',
                    'pandas DataFrame construction from per-column numpy arrays']
    assumptions = ['bounded: <= 3 attributes of sizes 1..4 for datasets, <= 5 attributes of sizes 1..5 for domains; records conform to the domain',
                   'weights are non-negative dyadic floats (sums are exact; compared with rtol 1e-9)',
                   'the vector form of a projection onto the EMPTY attribute list is outside the generated family: numpy.histogramdd rejects a sample with 0 columns '
                   '(only the projected domain and the record count are checked there)',
                   'Domain.marginalize / invert / canonical are called with collections of names (list, tuple, dict key view), not with a bare str (substring semantics)']
    quick_budget_s = 60
    thorough_budget_s = 900
    exhaustive = {'quick': False, 'thorough': False}

    # ------------------------------------------------------------------------------------ cases
    def cases(self, tier, seed):
        import numpy as np
        rng = np.random.RandomState(seed)
        n_seeds, n_dom = (1, 4032) if tier == 'quick' else (20, 40320)

        def dataset_case(shape, mode, w, extra):
            names = [str(x) for x in rng.permutation(list(NAMES))[:len(shape)]]
            return dict(kind='dataset', attrs=names, sizes=[int(s) for s in shape], mode=mode, weights=w, extra=extra,
                        dtype=DTYPES[int(rng.randint(len(DTYPES)))], seed=int(rng.randint(2 ** 31 - 1)))

        def domain_case():
            k1, k2 = int(rng.randint(0, 6)), int(rng.randint(0, 5))
            size_of = {n: int(rng.randint(1, 6)) for n in NAMES}
            a1 = [str(x) for x in rng.permutation(list(NAMES))[:k1]]
            a2 = [str(x) for x in rng.permutation(list(NAMES))[:k2]]
            return dict(kind='domain', attrs=a1, sizes=[size_of[a] for a in a1], attrs2=a2, sizes2=[size_of[a] for a in a2],
                        seed=int(rng.randint(2 ** 31 - 1)))

        grid = [(s, m, w, e) for s in SHAPES for m in MODES for w in WEIGHTS for e in (0, 2)]
        ds = []
        for _ in range(n_seeds):
            order = rng.permutation(len(grid))
            ds.extend(grid[i] for i in order)
        per_dom = max(1, n_dom // max(1, len(ds)))
        extra_dom = n_dom - per_dom * len(ds)
        for g in ds:
            yield dataset_case(*g)
            for _ in range(per_dom):
                yield domain_case()
        for _ in range(max(0, extra_dom)):
            yield domain_case()

    def nontrivial(self, case):
        if case['kind'] == 'dataset':
            return case['mode'] != 'empty' and _prod(case['sizes']) >= 2
        return len(case['attrs']) >= 2

    def finding_key(self, case, clause, detail):
        return 'bounded:%s' % clause

    def run_case(self, case):
        return getattr(self, '_run_' + case['kind'])(case)

    # ------------------------------------------------------------------------------------ datasets
    @staticmethod
    def _make_records(case, rng):
        attrs, sizes = case['attrs'], dict(zip(case['attrs'], case['sizes']))
        mode = case['mode']
        def rec(boundary=False):
            if boundary:
                return {a: int(rng.choice([0, sizes[a] - 1])) for a in attrs}
            return {a: int(rng.randint(sizes[a])) for a in attrs}
        if mode == 'empty':
            return []
        n = int(rng.choice([1, 2, 5, 17, 40]))
        if mode == 'random':
            return [rec() for _ in range(n)]
        if mode == 'boundary':
            return [rec(True) for _ in range(n)]
        base = [rec(bool(rng.rand() < 0.3)) for _ in range(int(rng.randint(1, 4)))]          # dups
        return [dict(base[int(rng.randint(len(base)))]) for _ in range(n + 1)]

    def _run_dataset(self, case):
        import numpy as np
        import pandas as pd
        from mbi import Dataset, Domain
        from ..bounded import factor_oracle as O
        rng = np.random.RandomState(case['seed'])
        attrs = tuple(case['attrs'])
        sizes = dict(zip(attrs, case['sizes']))
        recs = self._make_records(case, rng)
        n = len(recs)
        if case['weights'] == 'none':
            w = None
        elif case['weights'] == 'float':
            w = [int(rng.randint(1, 41)) / 8.0 for _ in range(n)]
        else:
            w = [0.0 if rng.rand() < 0.4 else int(rng.randint(1, 41)) / 8.0 for _ in range(n)]
        cols = {a: np.array([r[a] for r in recs], dtype=case['dtype']) for a in attrs}
        for i in range(case['extra']):
            cols['extra%d' % i] = np.array([int(rng.randint(-3, 9)) for _ in range(n)], dtype='int64')
        col_order = [str(c) for c in rng.permutation(list(cols))]
        df = pd.DataFrame({c: cols[c] for c in col_order})
        dom = Domain(attrs, [sizes[a] for a in attrs])
        data = Dataset(df, dom, None if w is None else np.array(w, dtype=float))
        wt = (lambda i: 1.0) if w is None else (lambda i: w[i])
        scale = float(sum(wt(i) for i in range(n)))

        def count(on):
            """counting oracle: one pass over the records per table"""
            tab = {x: 0.0 for x in O.assignments(on, sizes)}
            for i, r in enumerate(recs):
                tab[frozenset((a, r[a]) for a in on)] += wt(i)
            return O.OF(on, sizes, tab)

        def vec_ok(ds, on, oracle):
            """flat vector in C order of `on` and the n-d table, cell by cell by the dataset's own domain.attrs"""
            flat = ds.datavector()
            want = [oracle.table[x] for x in O.assignments(on, sizes)]
            if np.ndim(flat) != 1 or len(flat) != len(want):
                return False, dict(reason='flat vector has the wrong length', got=int(np.size(flat)), expected=len(want))
            bad = [i for i, (x, y) in enumerate(zip(flat, want)) if not O.same(x, y)]
            if bad:
                return False, dict(reason='flat vector differs', got=[float(x) for x in flat], expected=want, attrs=list(on))
            nd = ds.datavector(flatten=False)
            got_attrs = tuple(ds.domain.attrs)
            if tuple(np.shape(nd)) != tuple(sizes[a] for a in got_attrs) or set(got_attrs) != set(on):
                return False, dict(reason='n-d table has the wrong shape', got=list(np.shape(nd)), attrs=list(got_attrs))
            for idx in np.ndindex(*np.shape(nd)):
                x = frozenset(zip(got_attrs, idx))
                if not O.same(nd[idx], oracle.table[x]):
                    return False, dict(reason='n-d table differs', assignment=O.describe(x), got=float(nd[idx]), expected=oracle.table[x])
            return True, {}

        out = []
        full = count(attrs)
        ok, d = vec_ok(data, attrs, full)
        out.append(('datavector', ok, d))
        tot = float(np.sum(data.datavector()))
        out.append(('datavector-total', O.same(tot, scale), dict(got=tot, expected=scale)))
        out.append(('records', int(data.records) == n, dict(got=int(data.records), expected=n)))
        out.append(('domain-kept', tuple(data.domain.attrs) == attrs and tuple(data.domain.shape) == tuple(sizes[a] for a in attrs), {}))
        # the real full table, read by name, for the commutation clause
        nd = np.asarray(data.datavector(flatten=False))
        real_full = O.OF(attrs, sizes, {frozenset(zip(attrs, idx)): float(nd[idx]) for idx in np.ndindex(*nd.shape)}) if nd.shape == dom.shape else None

        # ---- project: every non-empty attribute list in every order
        agg = dict(dom=(True, {}), vec=(True, {}), comm=(True, {}), wts=(True, {}), rec=(True, {}))
        def note(key, ok, d):
            if not ok and agg[key][0]:
                agg[key] = (False, d)
        k = 0
        for on in _ordered_subsets(attrs, 1):
            k += 1
            arg = list(on) if k % 2 else tuple(on)
            p = data.project(arg)
            okd = tuple(p.domain.attrs) == on and tuple(p.domain.shape) == tuple(sizes[a] for a in on)
            note('dom', okd, dict(cols=list(on), got_attrs=list(p.domain.attrs), got_shape=list(p.domain.shape)))
            ok, d = vec_ok(p, on, count(on))
            note('vec', ok, dict(cols=list(on), **d))
            if real_full is not None:
                removed = [a for a in attrs if a not in on]
                ok, d = vec_ok(p, on, O.reorder(O.aggregate(real_full, removed, O.a_sum), on))
                note('comm', ok, dict(cols=list(on), **d))
            if w is None:
                okw = p.weights is None
            else:
                okw = p.weights is not None and np.array_equal(np.asarray(p.weights, dtype=float), np.array(w, dtype=float))
            note('wts', bool(okw), dict(cols=list(on)))
            note('rec', int(p.records) == n, dict(cols=list(on), got=int(p.records), expected=n))
        out.append(('project:domain-in-requested-order', ) + agg['dom'])
        out.append(('project:datavector-equals-count', ) + agg['vec'])
        out.append(('project:commutes-with-marginalise-transpose', ) + agg['comm'])
        out.append(('project:weights-carried', ) + agg['wts'])
        out.append(('project:records-kept', ) + agg['rec'])
        # str form -> singleton
        ok_s, d_s = True, {}
        for a in attrs:
            p = data.project(a)
            ok = tuple(p.domain.attrs) == (a,) and tuple(p.domain.shape) == (sizes[a],)
            if ok:
                ok, d = vec_ok(p, (a,), count((a,)))
            if not ok and ok_s:
                ok_s, d_s = False, dict(col=a)
        out.append(('project:str-is-singleton', ok_s, d_s))
        # chained projection = direct projection
        subs = _ordered_subsets(attrs, 1)
        first = subs[int(rng.randint(len(subs)))]
        inner = _ordered_subsets(first, 1)
        second = inner[int(rng.randint(len(inner)))]
        p2 = data.project(list(first)).project(list(second))
        ok, d = vec_ok(p2, second, count(second))
        out.append(('project:chained', ok and tuple(p2.domain.attrs) == second, dict(first=list(first), second=list(second), **d)))
        # empty projection: domain and records only (see assumptions)
        p0 = data.project([])
        out.append(('project:empty-list', len(p0.domain.attrs) == 0 and int(p0.records) == n and int(p0.domain.size()) == 1, {}))

        # ---- drop: every proper subset (given in shuffled order, possibly with a foreign name)
        ok_d, d_d = True, {}
        for r in range(0, len(attrs)):
            for dropped in itertools.combinations(attrs, r):
                dl = [str(x) for x in rng.permutation(list(dropped))] if dropped else []
                if rng.rand() < 0.3:
                    dl = dl + ['not-an-attribute']
                keep = tuple(a for a in attrs if a not in dropped)
                q = data.drop(dl)
                ok = tuple(q.domain.attrs) == keep and tuple(q.domain.shape) == tuple(sizes[a] for a in keep) and int(q.records) == n
                if ok:
                    ok, d = vec_ok(q, keep, count(keep))
                else:
                    d = dict(got_attrs=list(q.domain.attrs))
                if not ok and ok_d:
                    ok_d, d_d = False, dict(dropped=dl, **d)
        out.append(('drop', ok_d, d_d))
        # ---- the source dataset is unchanged by all of the above
        ok, d = vec_ok(data, attrs, full)
        out.append(('source-dataset-intact', ok and int(data.records) == n, d))
        return [('dataset.' + c, ok, d) for c, ok, d in out]

    # ------------------------------------------------------------------------------------ domains
    def _run_domain(self, case):
        import numpy as np
        from mbi import Domain
        rng = np.random.RandomState(case['seed'])
        attrs, shape = list(case['attrs']), list(case['sizes'])
        attrs2, shape2 = list(case['attrs2']), list(case['sizes2'])
        size = dict(zip(attrs, shape))
        size2 = dict(zip(attrs2, shape2))
        D = Domain(attrs, shape)
        D2 = Domain(attrs2, shape2)
        out = []

        def is_dom(X, want_attrs, sz=size):
            want_attrs = tuple(want_attrs)
            return (isinstance(X, Domain) and tuple(X.attrs) == want_attrs and tuple(X.shape) == tuple(sz[a] for a in want_attrs)
                    and dict(X.config) == {a: sz[a] for a in want_attrs})

        def some_ordered_subset():
            k = int(rng.randint(0, len(attrs) + 1))
            return [str(x) for x in rng.permutation(attrs)[:k]] if attrs else []

        def some_names():
            k = int(rng.randint(0, len(NAMES) + 1))
            names = [str(x) for x in rng.permutation(list(NAMES))[:k]]
            form = int(rng.randint(3))
            # third form: a set-like, non-sequence collection with a deterministic iteration order (a dict key view; a plain set of
            # str would make a faulty implementation's answer depend on PYTHONHASHSEED and the replay unreproducible)
            return names, (names if form == 0 else tuple(names) if form == 1 else dict.fromkeys(names).keys())

        out.append(('init', is_dom(D, attrs), dict(attrs=list(D.attrs), shape=list(D.shape))))
        F = Domain.fromdict(dict(zip(attrs, shape)))
        out.append(('fromdict', is_dom(F, attrs) and F == D, dict(attrs=list(F.attrs))))
        out.append(('iter-len', list(D) == attrs and len(D) == len(attrs), {}))
        out.append(('getitem', all(D[a] == size[a] for a in attrs), {}))
        out.append(('dunder-contains', all((nm in D) == (nm in attrs) for nm in NAMES), {}))

        sels = [some_ordered_subset() for _ in range(3)] + [[str(x) for x in rng.permutation(attrs)] if attrs else [], []]
        okp = okt = oka = oks = True
        det = {}
        for sel in sels:
            P = D.project(list(sel))
            P2 = D.project(tuple(sel))
            if not (is_dom(P, sel) and is_dom(P2, sel)):
                okp, det = False, dict(sel=sel, got=list(P.attrs))
            pos = {a: i for i, a in enumerate(attrs)}
            if tuple(D.axes(sel)) != tuple(pos[a] for a in sel):
                oka, det = False, dict(sel=sel, got=list(D.axes(sel)))
            if int(D.size(list(sel))) != _prod(size[a] for a in sel):
                oks, det = False, dict(sel=sel, got=int(D.size(list(sel))))
            if len(sel) == len(attrs):
                if not is_dom(D.transpose(sel), sel):
                    okt, det = False, dict(sel=sel)
        out.append(('project:attrs-as-given', okp, det if not okp else {}))
        out.append(('axes', oka, det if not oka else {}))
        out.append(('size-of-attrs-is-product', oks, det if not oks else {}))
        out.append(('transpose', okt, det if not okt else {}))
        out.append(('project:str-is-singleton', all(is_dom(D.project(a), (a,)) for a in attrs), {}))
        out.append(('size-is-product', int(D.size()) == _prod(shape), dict(got=int(D.size()), expected=_prod(shape))))
        out.append(('size-of-str', all(int(D.size(a)) == size[a] for a in attrs), {}))

        okm = oki = okc = True
        det = {}
        for _ in range(3):
            names, arg = some_names()
            want = [a for a in attrs if a not in names]
            M = D.marginalize(arg)
            if not is_dom(M, want):
                okm, det = False, dict(names=names, got=list(M.attrs), expected=want)
            inv = D.invert(arg)
            if list(inv) != want:
                oki, det = False, dict(names=names, got=list(inv), expected=want)
            can = D.canonical(arg)
            wantc = tuple(a for a in attrs if a in names)
            if tuple(can) != wantc:
                okc, det = False, dict(names=names, got=list(can), expected=list(wantc))
        out.append(('marginalize:order-preserving-complement', okm, det if not okm else {}))
        out.append(('invert:order-preserving-complement', oki, det if not oki else {}))
        out.append(('canonical:order-of-self', okc, det if not okc else {}))

        # merge / contains
        extra = [b for b in attrs2 if b not in attrs]
        both = dict(size2)
        both.update(size)
        M = D.merge(D2)
        out.append(('merge:self-then-new', is_dom(M, attrs + extra, both), dict(got=list(M.attrs), expected=attrs + extra)))
        out.append(('merge:size-law', int(M.size()) == _prod(shape) * _prod(size2[b] for b in extra), dict(got=int(M.size()))))
        out.append(('merge:idempotent', D.merge(D) == D and is_dom(D.merge(D), attrs), {}))
        out.append(('contains', bool(D.contains(D2)) == (set(attrs2) <= set(attrs)) and bool(M.contains(D)) and bool(M.contains(D2))
                    and bool(D.contains(D.project(sels[0]))), dict(got=bool(D.contains(D2)))))
        # partition law: project(sel) and marginalize(sel) split the attributes and the size
        sel = sels[0]
        P, Mg = D.project(sel), D.marginalize(sel)
        out.append(('law:project-marginalize-partition', set(P.attrs) | set(Mg.attrs) == set(attrs) and not (set(P.attrs) & set(Mg.attrs))
                    and int(P.size()) * int(Mg.size()) == int(D.size()) and set(P.merge(Mg).attrs) == set(attrs), dict(sel=sel)))

        # sort
        S = D.sort('size')
        S0 = D.sort()
        keys = [size[a] for a in S.attrs] if sorted(S.attrs) == sorted(attrs) else None
        out.append(('sort-size', keys is not None and is_dom(S, S.attrs) and all(x <= y for x, y in zip(keys, keys[1:])) and S0 == S,
                    dict(got=list(S.attrs), sizes=keys)))
        N = D.sort('name')
        out.append(('sort-name', is_dom(N, sorted(attrs)), dict(got=list(N.attrs))))

        # equality
        same = Domain(list(attrs), list(shape))
        ok = (D == same) is True
        perm = [str(x) for x in rng.permutation(attrs)] if attrs else []
        ok = ok and ((D == Domain(perm, [size[a] for a in perm])) == (perm == attrs))
        if attrs:
            i = int(rng.randint(len(attrs)))
            sh = list(shape)
            sh[i] += 1
            ok = ok and (D == Domain(attrs, sh)) is False
        ok = ok and ((D == D2) == (attrs == attrs2 and shape == shape2))
        out.append(('eq', bool(ok), {}))
        return [('domain.' + c, ok, d) for c, ok, d in out]


PROP = C15()
