"""C01 — exact inference returns the true marginals of the product distribution (bounded tier)."""
import itertools
from ..runner import Prop
from ..bounded import exact_common as X

MAGS = [1.0, 50.0, 2000.0]
TOTALS = [0.5, 1.0, 10.0, 1e3]
SHIFTS = [0.37, -17.0, 1e3, -2500.0]


def _pick(rng, xs, p=None):
    return xs[int(rng.choice(len(xs), p=p))]


def _sizes(rng, n):
    return [int(_pick(rng, [1, 2, 3], [0.2, 0.5, 0.3])) for _ in range(n)]


def prufer_tree(rng, nodes):
    """random labelled tree on `nodes` (Pruefer decoding) as an edge list."""
    n = len(nodes)
    if n == 1:
        return []
    if n == 2:
        return [[nodes[0], nodes[1]]]
    seq = [int(rng.randint(n)) for _ in range(n - 2)]
    deg = [1] * n
    for s in seq:
        deg[s] += 1
    edges = []
    for s in seq:
        leaf = min(k for k in range(n) if deg[k] == 1)
        edges.append([nodes[leaf], nodes[s]])
        deg[leaf] -= 1
        deg[s] -= 1
    u, v = [k for k in range(n) if deg[k] == 1]
    edges.append([nodes[u], nodes[v]])
    return edges


class C01(Prop):
    id = 'C01'
    level = 'other'
    title = 'Exact inference returns the true marginals of the product distribution'
    technique = ('run-time contract on the real GraphicalModel.belief_propagation against an explicit joint table '
                 '(numpy, potentials expanded by attribute name), over enumerated clique hypergraphs, elimination orders and message schedules')
    explanation = ('Bounded tier (labelled bounded, never counted as proved): for every set of <= 4 distinct cliques of size <= 3 on <= 4 attributes '
                   '(cyclic, disconnected, nested, attributes in no clique; attribute order inside cliques, list order, duplicates and the domain order are seeded), '
                   'attribute sizes 1..3, and for cycles, chorded cycles, wheels of 3-cliques, ladders, trees and seeded clique sets on 5-6 attributes (96 + 48 cases in quick, 1500 + 160 in thorough), the real GraphicalModel(domain, cliques, total, elimination_order) is built for elimination orders None, int (randomised greedy, '
                   'np.random seeded from the case) and explicit permutations (a seeded sample in quick, every permutation in thorough and in every 4th quick case); '
                   'log-potentials are given on model.cliques (finite / with -inf cells and slices / magnitudes 1, 50, 2000; totals 0.5, 1, 10, 1e3). '
                   'belief_propagation(potentials) must return for every model clique the marginal of the brute-force joint exp(sum potentials) normalised to total '
                   '(compared by attribute name, rtol 1e-7 + 1e-9*total), sum to total, be non-negative and finite, leave the potentials untouched, return the brute-force '
                   'log normaliser with logZ=True, be invariant under adding a constant to one potential, under the elimination order (same joint lifted onto each model), '
                   'and under replacing the public attribute message_order by other linear extensions of the message-dependency order '
                   '(thorough: ALL linear extensions for every junction tree with <= 4 edges, i.e. <= 720 schedules, on the first 3-4 order modes; quick: all of them for the 48 tree cases '
                   'on 5-6 attributes under order None, a seeded sample of 5 + the first lexicographic extension for the other cases on two order modes).')
    rule = ('case = (clique set, domain order, sizes, total, potential regime, list of elimination orders, schedule budget, seed); structures: all sets of <= 4 distinct cliques '
            '(size <= 3) on 1..4 attributes, plus attribute trees on 5-6 attributes (junction trees with 3-4 edges) and cycles / wheels / ladders / seeded hypergraphs on 5-6 attributes; '
            'non-trivial = at least two attributes of size >= 2 and at least one clique with >= 2 attributes; distinct by the whole case dict')
    trusted_base = ['numpy (explicit joint table, exp/log/sum)', 'python itertools (structure / permutation / linear-extension enumeration)']
    assumptions = ['bounded: only the enumerated structures, sizes 1..3, the listed magnitudes/totals and seeded potentials are decided',
                   'float comparison with rtol 1e-7 and atol 1e-9*total; cells below that are compared absolutely only',
                   'potentials are Factors whose axis order equals the clique key of model.cliques',
                   'the int (randomised) elimination mode is explored for the seeds drawn, not for all random streams']
    quick_budget_s = 60
    thorough_budget_s = 1500
    exhaustive = {'quick': False, 'thorough': False}

    # ------------------------------------------------------------------ cases
    def cases(self, tier, seed):
        import numpy as np
        rng = np.random.RandomState(seed)
        quick = tier == 'quick'

        def base(attrs, cliques, k):
            r = np.random.RandomState(rng.randint(2 ** 31 - 1))
            n = len(attrs)
            dom = [attrs[i] for i in r.permutation(n)] if r.rand() < 0.6 else list(attrs)
            return r, dict(kind='bp', attrs=dom, sizes=_sizes(r, n), cliques=X.decorate_cliques(r, cliques),
                           total=_pick(r, TOTALS), npseed=int(r.randint(2 ** 31 - 1)), as_list=bool(r.rand() < 0.3),
                           seed=int(r.randint(2 ** 31 - 1)), mag=_pick(r, MAGS), ninf=_pick(r, [0.0, 0.0, 0.2, 0.45]),
                           slices=bool(r.rand() < 0.5), mode=_pick(r, ['lifted', 'direct']))

        def orders(r, attrs, all_perms, k_sample):
            perms = [list(p) for p in itertools.permutations(attrs)]
            if not all_perms and len(perms) > k_sample:
                perms = [perms[i] for i in r.choice(len(perms), k_sample, replace=False)]
            return [None, int(r.randint(1, 4))] + perms

        # (1) trees on 5-6 attributes first in quick: they are the only junction trees with 4 edges
        tree_cases = []
        n_tree = 48 if quick else 160
        for k in range(n_tree):
            n = 5 if k % 2 == 0 else 6
            attrs = list(X.NAMES[:n])
            shape = k % 4
            r0 = np.random.RandomState(rng.randint(2 ** 31 - 1))
            lab = [attrs[i] for i in r0.permutation(n)]
            if shape == 0:
                edges = [[lab[i], lab[i + 1]] for i in range(n - 1)]            # path
            elif shape == 1:
                edges = [[lab[0], lab[i]] for i in range(1, n)]                 # star
            elif shape == 2:
                edges = [[lab[0], lab[1]], [lab[0], lab[2]], [lab[0], lab[3]]] + [[lab[i - 1], lab[i]] for i in range(4, n)]  # spider
            else:
                edges = prufer_tree(r0, lab)
            r, c = base(attrs, edges, k)
            c['sizes'] = [int(_pick(r, [2, 3, 1], [0.6, 0.25, 0.15])) for _ in range(n)]
            c['orders'] = [None, int(r.randint(1, 4))] + [[attrs[i] for i in r.permutation(n)] for _ in range(2)]
            # all linear extensions (<= 720 for 4 tree edges) on the first order mode(s)
            c['sched'] = dict(mode='all', cap=800, on=1) if quick else dict(mode='all', cap=800, on=3)
            tree_cases.append(c)

        # (2) all sets of <= 4 distinct cliques of size <= 3 on 1..4 attributes
        small = []
        k = 0
        for n in (4, 3, 2, 1):
            attrs = list(X.NAMES[:n])
            for cliques in X.all_clique_sets(attrs, 3, 4, 0):
                r, c = base(attrs, cliques, k)
                allp = (not quick) or k % 4 == 0 or n <= 3
                c['orders'] = orders(r, c['attrs'], allp, 4)
                c['sched'] = dict(mode='sample', k=5, on=2) if quick else dict(mode='all', cap=400, on=4)
                small.append(c)
                k += 1
        perm = rng.permutation(len(small))
        small = [small[i] for i in perm]

        # (3) cyclic / seeded hypergraphs on 5-6 attributes (fill-in on fill-in needs >= 5 attributes): a few in quick, many in thorough
        big = []
        for k in range(96 if quick else 1500):
            n = 5 + k % 2
            attrs = list(X.NAMES[:n])
            r0 = np.random.RandomState(rng.randint(2 ** 31 - 1))
            lab = [attrs[i] for i in r0.permutation(n)]
            shape = k % 6
            if shape == 0:
                cliques = [[lab[i], lab[(i + 1) % n]] for i in range(n)]                                   # n-cycle
            elif shape == 1:
                cliques = [[lab[i], lab[(i + 1) % n]] for i in range(n)] + [[lab[0], lab[2]]]              # cycle with a chord
            elif shape == 2:
                rim = lab[1:]
                cliques = [[lab[0], rim[i], rim[(i + 1) % len(rim)]] for i in range(len(rim))]             # wheel of 3-cliques
            elif shape == 3:
                cliques = [[lab[i], lab[(i + 1) % n]] for i in range(n)] + [[lab[1], lab[n - 1]], [lab[2], lab[n - 2]]]   # ladder-like
            else:
                cliques = X.random_clique_set(r0, attrs, int(r0.randint(3, 7)), 3)
            r, c = base(attrs, cliques, k)
            c['sizes'] = [int(_pick(r, [2, 3, 1], [0.7, 0.2, 0.1])) for _ in range(n)]
            c['orders'] = [None, int(r.randint(1, 4))] + [[attrs[i] for i in r.permutation(n)] for _ in range(5 if quick else 8)]
            c['sched'] = dict(mode='sample', k=4, on=1) if quick else dict(mode='sample', k=12, on=3)
            big.append(c)

        # interleave so that the most diverse cases come first
        ti = bi = 0
        for i, c in enumerate(small):
            if i % 30 == 0 and ti < len(tree_cases):
                yield tree_cases[ti]
                ti += 1
            if i % 15 == 7 and bi < len(big):
                yield big[bi]
                bi += 1
            yield c
        for c in tree_cases[ti:]:
            yield c
        for c in big[bi:]:
            yield c

    def nontrivial(self, case):
        size = dict(zip(case['attrs'], case['sizes']))
        big = sum(1 for a in case['attrs'] if size[a] >= 2)
        return big >= 2 and any(len(set(c)) >= 2 for c in case['cliques'])

    def finding_key(self, case, clause, detail):
        return 'bounded:%s' % clause

    # ------------------------------------------------------------------ driver
    def run_case(self, case):
        import numpy as np
        rng = np.random.RandomState(case['seed'])
        attrs, sizes, total = list(case['attrs']), list(case['sizes']), float(case['total'])
        out = []
        lifted = case['mode'] == 'lifted'
        baseP = None
        if lifted:
            base_arr = X.draw_potentials(rng, attrs, sizes, [tuple(c) for c in _dedupe_keys(case['cliques'])],
                                         case['mag'], case['ninf'], case['slices'])
            base = [(cl, v) for cl, v in base_arr.items()]
            baseP, _ = X.normalise(X.joint_log(attrs, sizes, base), total)
            assert baseP is not None, 'harness: witness cell must keep the joint finite'
        sched = case.get('sched') or dict(mode='none')
        for oi, order in enumerate(case['orders']):
            tag = dict(order=order)
            model = X.build_model(case, order=order)
            mcl = [tuple(c) for c in model.cliques]
            if lifted:
                uncovered = [cl for cl, _ in base if not any(set(cl) <= set(m) for m in mcl)]
                out.append(('input-cliques-representable', not uncovered, dict(tag, uncovered=uncovered, model_cliques=mcl)))
                if uncovered:
                    continue
                arrays = X.lift(attrs, sizes, base, mcl)
            else:
                r2 = np.random.RandomState((case['seed'] + 7919 * (oi + 1)) % (2 ** 31 - 1))
                arrays = X.draw_potentials(r2, attrs, sizes, mcl, case['mag'], case['ninf'], case['slices'])
            pots = X.to_clique_vector(model.domain, arrays)
            before = {cl: np.array(pots[cl].values, dtype=float) for cl in pots}
            P, logZ = X.normalise(X.joint_log(attrs, sizes, X.factors_of(pots)), total)
            assert P is not None, 'harness: witness cell must keep the joint finite'
            if lifted:
                assert X.close(P, baseP, total, rtol=1e-6), 'harness: lifting changed the joint'

            res = model.belief_propagation(pots)
            out.extend(self._check_result(res, mcl, P, attrs, sizes, total, tag, ''))
            same = all(np.array_equal(before[cl], np.asarray(pots[cl].values)) for cl in before) and set(pots.keys()) == set(before)
            out.append(('potentials-not-mutated', same, dict(tag)))

            # log normaliser
            lz = model.belief_propagation(pots, logZ=True)
            lz_ok = bool(np.isfinite(lz)) and abs(float(lz) - logZ) <= 1e-8 * max(1.0, abs(logZ))
            out.append(('logZ-equals-brute-force', lz_ok, dict(tag, got=float(lz), want=logZ)))

            # elimination-order independence: the same lifted joint gives the same marginals on the INPUT cliques
            if lifted:
                ok, det = True, {}
                for cl, _ in base:
                    home = [m for m in mcl if set(cl) <= set(m)][0]
                    f = res[home]
                    got = X.marginal(np.asarray(f.values, dtype=float), list(f.domain.attrs), list(cl))
                    want = X.marginal(baseP, attrs, list(cl))
                    if not X.close(got, want, total):
                        ok, det = False, dict(clique=list(cl), got=got.tolist(), want=want.tolist())
                        break
                out.append(('elimination-order-independent', ok, dict(tag, **det)))

            # shift invariance
            cl = mcl[int(rng.randint(len(mcl)))]
            c = SHIFTS[int(rng.randint(len(SHIFTS)))]
            arr2 = {k: (v + c if k == cl else v) for k, v in before.items()}
            pots2 = X.to_clique_vector(model.domain, arr2)
            res2 = model.belief_propagation(pots2)
            ok, det = True, {}
            for m in mcl:
                o1, d1 = X.factor_marginal_ok(res2[m], m, P, attrs, sizes, total)
                o2 = X.close(np.asarray(res2[m].values), np.asarray(res[m].values), total, rtol=1e-7)
                if not (o1 and o2):
                    ok, det = False, dict(d1, clique=list(m), shifted=list(cl), const=c, unshifted=np.asarray(res[m].values).tolist())
                    break
            out.append(('shift-invariant', ok, dict(tag, **det)))

            # schedules: other linear extensions of the message-dependency order
            if sched.get('mode', 'none') != 'none' and oi < sched.get('on', 1):
                msgs = [tuple(m) for m in model.message_order]
                if len(msgs) >= 2:
                    deps = X.message_deps(msgs)
                    all_ext = False
                    if sched['mode'] == 'all':
                        n_ext = X.count_linear_extensions(msgs, deps, cap=sched['cap'] + 1)
                        if n_ext <= sched['cap']:
                            exts = X.linear_extensions(msgs, deps)
                            all_ext = True
                        else:
                            exts = [X.random_linear_extension(msgs, deps, rng) for _ in range(sched['cap'] // 10)]
                    else:
                        exts = [X.random_linear_extension(msgs, deps, rng) for _ in range(sched['k'])]
                        exts.append(X.linear_extensions(msgs, deps, limit=1)[0])
                    saved = model.message_order
                    ok, det, n_run = True, {}, 0
                    for ext in exts:
                        assert X.is_linear_extension(ext, deps), 'harness: not a linear extension'
                        model.message_order = list(ext)
                        r3 = model.belief_propagation(pots)
                        n_run += 1
                        for m in mcl:
                            o1, d1 = X.factor_marginal_ok(r3[m], m, P, attrs, sizes, total)
                            if not o1:
                                ok, det = False, dict(d1, clique=list(m), schedule=[[list(a), list(b)] for a, b in ext])
                                break
                        if not ok:
                            break
                    model.message_order = saved
                    out.append(('schedule-independent', ok, dict(tag, schedules_run=n_run, messages=len(msgs),
                                                                 all_extensions=all_ext,
                                                                 **det)))
        return out

    def _check_result(self, res, mcl, P, attrs, sizes, total, tag, suffix):
        import numpy as np
        out = []
        missing = [m for m in mcl if m not in res]
        ok_exact, det_exact = not missing, dict(missing=missing) if missing else {}
        ok_sum, det_sum, ok_nn, det_nn, ok_fin, det_fin = True, {}, True, {}, True, {}
        for m in mcl:
            if m in missing:
                continue
            f = res[m]
            v = np.asarray(f.values, dtype=float)
            o, d = X.factor_marginal_ok(f, m, P, attrs, sizes, total)
            if not o and ok_exact:
                ok_exact, det_exact = False, dict(d, clique=list(m))
            if not np.all(np.isfinite(v)) and ok_fin:
                ok_fin, det_fin = False, dict(clique=list(m), got=v.tolist())
            if np.all(np.isfinite(v)):
                if abs(v.sum() - total) > 1e-8 * total and ok_sum:
                    ok_sum, det_sum = False, dict(clique=list(m), sum=float(v.sum()), total=total)
                if np.any(v < 0) and ok_nn:
                    ok_nn, det_nn = False, dict(clique=list(m), min=float(v.min()))
        out.append(('bp-exact' + suffix, ok_exact, dict(tag, **det_exact)))
        out.append(('sum-to-total' + suffix, ok_sum and ok_fin, dict(tag, **det_sum)))
        out.append(('nonnegative' + suffix, ok_nn, dict(tag, **det_nn)))
        out.append(('finite' + suffix, ok_fin, dict(tag, **det_fin)))
        return out


def _dedupe_keys(cliques):
    """input cliques as distinct attribute tuples (the same tuple listed twice gets one base potential; a permuted duplicate gets its own)."""
    seen, out = set(), []
    for c in cliques:
        t = tuple(c)
        if t not in seen:
            seen.add(t)
            out.append(t)
    return out


PROP = C01()
