"""C06 — private data reaches mechanism output only through the DP primitives (bounded tier: record/replay)."""
from ..runner import Prop


class C06(Prop):
    id = 'C06'
    level = 'other'
    technique = ('record/replay non-interference test on neighbouring datasets: outcomes of every numpy.random.normal/laplace/choice call of a run on D '
                 'are replayed into a run on D\' (released values and selections forced equal); event sequences and returned frames are compared '
                 '(bounded tier; the deductive taint tier is separate)')
    explanation = ('Bounded tier (labelled bounded): the real MST, AIM.run, mwem_pgm and adagrid are executed on a dataset D with the sampler calls '
                   'intercepted (pv/bounded/dp_harness.py) and again on a neighbour D\' that is made to observe the identical released values and '
                   'selections; the unwrapped global numpy stream (np.random.shuffle in synthetic_col) is seeded identically.  Clauses: both runs end '
                   'the same way; identical event sequence (kinds, noise scales to 1e-12 relative, sizes, supports of selections); identical returned '
                   'frame (hence a row count that is a function of released values only); the returned dataset lives on the ORIGINAL input domain '
                   '(same attributes and sizes, every value an integer inside its range, columns = domain attributes).')
    rule = ('same seeded case family as C05: (mechanism, dataset spec, parameters, neighbour, outcome seed) = two runs of the real mechanism; '
            'datasets 2-4 attributes of sizes 2-4, 12-~200 records (uniform / skewed / sparse-correlated / boundary: cell counts T and T-1 around the public '
            'support threshold of MST resp. Adaptive Grid); neighbours by removing / adding one record (MST, AIM, Adaptive Grid, MWEM bounded=False) or '
            'replacing one record (MWEM bounded=True); epsilon in {0.5,1,5} x delta in {1e-9,1e-5,0.1}, rounds, noise kind, bounded flag, workloads, '
            'targets / split / threshold; FactoredInference.iters capped at 15/40.  non-trivial = D\' differs from D as a multiset of records and the '
            'domain has >= 2 attributes; distinct by the whole case')
    trusted_base = ['numpy RandomState (harness-owned outcome sequences) and numpy.random.seed for the unwrapped global stream',
                    'the wrapped samplers are the only randomness the mechanisms use besides np.random.shuffle (checked by reading the four files)',
                    'harness shims: stub hdmm.matrix.Identity / autodp, cap on FactoredInference.iters, csr subclass with assignable T for Adaptive Grid']
    assumptions = ['bounded tier only: finitely many datasets, neighbours, parameter settings and outcome sequences',
                   'a dependence that does not change behaviour on any sampled pair is invisible (the deductive taint tier covers all paths)',
                   'floating-point evaluation is deterministic within one process (identical inputs give identical frames)',
                   'AIM settings with rounds < 0.9 * #one-way marginals are required to raise before output (DESIGN C05)']
    quick_budget_s = 90
    thorough_budget_s = 600

    # ---------------------------------------------------------------- bounded tier
    def cases(self, tier, seed):
        from ..bounded import dp_harness as H
        return H.gen_cases(tier, seed)

    def nontrivial(self, case):
        from ..bounded import dp_harness as H
        return H.case_nontrivial(case)

    def run_case(self, case):
        # evaluated in an interpreter with a fixed string-hash seed (see dp_harness.dispatch) so that replay files reproduce
        from ..bounded import dp_harness as H
        return H.dispatch('C06', case, self.run_case_here)

    def run_case_here(self, case):
        from ..bounded import dp_harness as H
        r1, r2, rows, rows2 = H.run_pair(case)
        info = H.describe_pair(case, r1, r2)
        out = []
        over = H.aim_overspend_setting(case)
        if over:
            out.append(('aim-overspend-setting-produces-no-output', r1.output is None and r2.output is None, info))
        elif r1.error is not None:
            raise RuntimeError('record run of %s raised %s' % (case['mech'], r1.error))
        out.append(('same-termination', r1.error_type == r2.error_type, info))
        mism = H.sequence_mismatches(r1, r2)
        det = dict(info, mismatches=mism)
        if mism:
            k = mism[0]['at']
            det['run1_event'] = r1.events[k].brief() if k < len(r1.events) else None
            det['run2_event'] = r2.events[k].brief() if k < len(r2.events) else None
        out.append(('same-event-sequence', not mism, det))
        if r1.output is not None and r2.output is not None:
            if not mism:
                # premise of the clause: run 2 observed identical releases and selections
                ok, d = H.output_equal(r1, r2)
                out.append(('same-output', ok, dict(info, **d)))
                out.append(('row-count-independent-of-private-count', r1.output.df.shape[0] == r2.output.df.shape[0],
                            dict(info, rows_run1=int(r1.output.df.shape[0]), rows_run2=int(r2.output.df.shape[0]))))
            for tag, r in (('run1', r1), ('run2', r2)):
                ok, d = H.conforms(r.output, r.input)
                out.append(('output-on-original-domain', ok, dict(info, run=tag, **d)))
        return out

    def finding_key(self, case, clause, detail):
        return 'bounded:%s:%s' % (case.get('mech'), clause)


PROP = C06()
