"""C12 — every constructed junction tree is valid, with a valid message schedule (bounded tier)."""
import itertools
from collections import Counter
from ..runner import Prop
from ..bounded import exact_common as X

CLAUSES = ['input-cliques-covered', 'every-attribute-appears', 'no-node-contains-another', 'tree-spans-nodes', 'tree-acyclic',
           'tree-connected', 'running-intersection', 'list-order-running-intersection', 'schedule-each-direction-once',
           'schedule-dependencies', 'separator-axes', 'neighbors', 'order-is-permutation']


def check_tree(jt, attrs, cliques):
    """-> {clause: (ok, detail)} for one constructed JunctionTree; only public observables are read."""
    res = {}
    nodes = [tuple(n) for n in jt.maximal_cliques()]
    nsets = [frozenset(n) for n in nodes]
    tnodes = [tuple(n) for n in jt.tree.nodes()]
    tedges = [(tuple(u), tuple(v)) for u, v in jt.tree.edges()]

    unc = [list(c) for c in cliques if not any(set(c) <= s for s in nsets)]
    res['input-cliques-covered'] = (not unc, dict(uncovered=unc))
    seen = set().union(*nsets) if nsets else set()
    miss = [a for a in attrs if a not in seen]
    extra = sorted(seen - set(attrs))
    res['every-attribute-appears'] = (not miss and not extra, dict(missing=miss, not_in_domain=extra))
    bad = [(list(nodes[i]), list(nodes[j])) for i in range(len(nodes)) for j in range(len(nodes)) if i != j and nsets[i] <= nsets[j]]
    res['no-node-contains-another'] = (not bad, dict(pairs=bad[:3]))

    spans = Counter(tnodes) == Counter(nodes) and len(set(nodes)) == len(nodes) and len(nodes) >= 1
    res['tree-spans-nodes'] = (spans, dict(tree_nodes=[list(n) for n in tnodes], maximal_cliques=[list(n) for n in nodes]))
    # union-find: acyclic / connected
    parent = {n: n for n in set(tnodes) | set(nodes)}

    def find(x):
        while parent[x] != x:
            parent[x] = parent[parent[x]]
            x = parent[x]
        return x
    acyclic = True
    endpoints_ok = all(u in parent and v in parent for u, v in tedges)
    for u, v in tedges:
        if not endpoints_ok:
            break
        ru, rv = find(u), find(v)
        if ru == rv:
            acyclic = False
        else:
            parent[ru] = rv
    res['tree-acyclic'] = (acyclic and endpoints_ok, dict(edges=[[list(u), list(v)] for u, v in tedges]))
    ncomp = len({find(n) for n in parent}) if endpoints_ok else -1
    res['tree-connected'] = (ncomp == 1, dict(components=ncomp, edges=[[list(u), list(v)] for u, v in tedges]))

    adj = {n: set() for n in parent}
    for u, v in tedges:
        if endpoints_ok:
            adj[u].add(v)
            adj[v].add(u)
    # running intersection: nodes containing an attribute induce a connected subgraph of the tree
    rip_bad = None
    for a in attrs:
        holders = [n for n in nodes if a in n]
        if not holders:
            continue            # reported by every-attribute-appears
        reach, todo = {holders[0]}, [holders[0]]
        while todo:
            x = todo.pop()
            for y in adj.get(x, ()):
                if a in y and y not in reach:
                    reach.add(y)
                    todo.append(y)
        if set(holders) != reach:
            rip_bad = dict(attribute=a, holders=[list(h) for h in holders], reached=[list(h) for h in reach],
                           edges=[[list(u), list(v)] for u, v in tedges])
            break
    res['running-intersection'] = (rip_bad is None, rip_bad or {})
    # list-order form used by GraphicalModel.mle: (C_1 u ... u C_{k-1}) n C_k inside one earlier C_j
    lo_bad = None
    for k in range(1, len(nodes)):
        inter = set().union(*nsets[:k]) & nsets[k]
        if not any(inter <= nsets[j] for j in range(k)):
            lo_bad = dict(k=k, node=list(nodes[k]), intersection_with_earlier=sorted(inter), listing=[list(n) for n in nodes])
            break
    res['list-order-running-intersection'] = (lo_bad is None, lo_bad or {})

    # schedule
    sched = [(tuple(i), tuple(j)) for i, j in jt.mp_order()]
    directed = [(u, v) for u, v in tedges] + [(v, u) for u, v in tedges]
    once = Counter(sched) == Counter(directed)
    res['schedule-each-direction-once'] = (once, dict(schedule=[[list(i), list(j)] for i, j in sched]))
    deps = X.message_deps(directed)
    pos = {}
    for p, m in enumerate(sched):
        pos.setdefault(m, p)
    dep_bad = None
    for m in directed:
        for d in deps[m]:
            if m in pos and (d not in pos or pos[d] > pos[m]):
                dep_bad = dict(message=[list(m[0]), list(m[1])], needs=[list(d[0]), list(d[1])],
                               schedule=[[list(i), list(j)] for i, j in sched])
                break
        if dep_bad:
            break
    res['schedule-dependencies'] = (dep_bad is None, dep_bad or {})

    sep = jt.separator_axes()
    sep_bad = None
    if {(tuple(i), tuple(j)) for i, j in sep.keys()} != set(directed):
        sep_bad = dict(why='keys differ from the directed tree edges', keys=[[list(i), list(j)] for i, j in sep.keys()])
    else:
        for (i, j), ax in sep.items():
            ax = list(ax)
            if len(set(ax)) != len(ax) or set(ax) != set(i) & set(j):
                sep_bad = dict(pair=[list(i), list(j)], got=ax, want=sorted(set(i) & set(j)))
                break
    res['separator-axes'] = (sep_bad is None, sep_bad or {})

    nb = jt.neighbors()
    nb_bad = None
    if {tuple(k) for k in nb.keys()} != set(nodes):
        nb_bad = dict(why='keys differ from the nodes', keys=[list(k) for k in nb.keys()])
    else:
        for k, v in nb.items():
            if {tuple(x) for x in v} != adj.get(tuple(k), set()) or len(list(v)) != len({tuple(x) for x in v}):
                nb_bad = dict(node=list(k), got=[list(x) for x in v], want=[list(x) for x in adj.get(tuple(k), set())])
                break
    res['neighbors'] = (nb_bad is None, nb_bad or {})

    eo = list(jt.elimination_order)
    eo2 = list(jt.order)
    res['order-is-permutation'] = (sorted(eo) == sorted(attrs) and sorted(eo2) == sorted(attrs),
                                   dict(elimination_order=eo, order=eo2, attrs=list(attrs)))
    return res


class C12(Prop):
    id = 'C12'
    level = 'other'
    title = 'Every constructed junction tree is valid, with a valid message schedule'
    technique = ('run-time contract on the real JunctionTree (maximal_cliques, tree, mp_order, separator_axes, neighbors, elimination_order) '
                 'checked with set/union-find/BFS code over enumerated graphs x elimination orders')
    explanation = ('Bounded tier (labelled bounded, never counted as proved): JunctionTree(domain, cliques, order) of the tree under verification is constructed for every '
                   'labelled graph on <= 5 attributes (given as its edge list under the identity naming and - for every graph on <= 4 attributes, every 8th graph on 5 in quick, all in thorough - once more in a seeded '
                   'disguise: maximal cliques / mixed cover, permuted attribute order inside cliques, permuted domain order, seeded attribute sizes 1..4) x EVERY explicit '
                   'elimination order plus None and int (np.random seeded from the case); for every set of <= 4 cliques of size <= 3 on <= 4 attributes (greedy modes); for '
                   'every graph on 6 nodes up to isomorphism (networkx atlas, seeded labelling) and seeded clique sets on 6-7 attributes with seeded orders; thorough adds every '
                   'labelled graph on 6 attributes with seeded orders. Clauses: every input clique inside some node; every attribute appears; no node contains another; '
                   'tree spans exactly the nodes, is acyclic and connected; running intersection per attribute (BFS in the induced subgraph) and its list-order form used by '
                   'GraphicalModel.mle (maximal_cliques() order); mp_order lists each direction of each tree edge exactly once and (k,i) before (i,j) for k != j; '
                   'separator_axes[(i,j)] equals set(i)&set(j) without repeats; neighbors() equals the tree adjacency; elimination_order / order are permutations of the domain.')
    rule = ('case = (domain order, sizes, clique list, list of order modes, seed); every order mode of the case is constructed and all 13 clauses evaluated on each tree '
            '(detail.trees = number of trees checked); exhaustive part = every labelled graph on <= 5 attributes as edge list x every explicit elimination order (both tiers); '
            'sizes, disguises, int-mode random streams, 6-7 attribute cases are seeded samples; non-trivial = the graph has at least one edge and >= 3 attributes; distinct by the whole case dict')
    trusted_base = ['python sets / union-find / BFS written in the check', 'networkx graph_atlas_g (only as a list of 6-node graphs)',
                    'networkx Graph.nodes()/edges() accessors of the public attribute jt.tree']
    assumptions = ['bounded: decided only on the enumerated graphs / orders; chordality of fill-in graphs and the max-weight spanning tree theorem are not proved',
                   'attribute sizes (which steer the greedy order modes) are seeded samples in 1..4',
                   'int mode explored for the seeded random streams only']
    quick_budget_s = 60
    thorough_budget_s = 1200
    exhaustive = {'quick': True, 'thorough': True}

    # ------------------------------------------------------------------ cases
    def cases(self, tier, seed):
        import numpy as np
        rng = np.random.RandomState(seed)
        quick = tier == 'quick'

        def sub():
            return np.random.RandomState(rng.randint(2 ** 31 - 1))

        def mk(attrs, cliques, orders, r, sizes=None, tag=''):
            return dict(kind='jt', tag=tag, attrs=list(attrs), sizes=sizes or [int(r.randint(1, 5)) for _ in attrs],
                        cliques=[list(c) for c in cliques], orders=orders, npseed=int(r.randint(2 ** 31 - 1)))

        def disguise(r, attrs, edges):
            """same graph: maximal cliques or a mixed cover, attribute order inside cliques permuted, domain order permuted."""
            mc = X.maximal_cliques_bruteforce(attrs, edges)
            mode = int(r.randint(3))
            if mode == 0:
                cl = [c for c in mc if len(c) >= 2 or r.rand() < 0.5]
            elif mode == 1:
                cl = [c for c in mc if len(c) >= 3] + [e for e in edges]
                cl += [[a] for a in attrs if r.rand() < 0.2]
            else:
                cl = list(edges) + [c for c in mc if r.rand() < 0.5]
            cl = X.decorate_cliques(r, cl, max_cliques=99)
            dom = [attrs[i] for i in r.permutation(len(attrs))]
            return dom, cl

        def graph_cases(n, graphs, tag):
            attrs = list(X.NAMES[:n])
            for gi, edges in enumerate(graphs):
                r = sub()
                yield mk(attrs, edges, dict(perms='all', ints=[1, 3], none=True), r, tag=tag + '-edges')
                if n == 5 and quick and gi % 8 != 1:
                    continue            # quick: the disguised twin of every 8th 5-attribute graph only
                dom, cl = disguise(r, attrs, edges)
                yield mk(dom, cl, dict(perms='all', ints=[2], none=True), r, tag=tag + '-disguised')

        # all labelled graphs on <= 5 attributes x all explicit orders (both tiers)
        for n in (4, 3, 2, 1):
            for c in graph_cases(n, X.all_labelled_graphs(list(X.NAMES[:n])), 'labelled%d' % n):
                yield c
        for c in graph_cases(5, X.all_labelled_graphs(list(X.NAMES[:5])), 'labelled5'):
            yield c

        # all graphs on 6 nodes up to isomorphism, seeded labelling and orders
        try:
            import networkx as nx
            atlas = [g for g in nx.graph_atlas_g() if g.number_of_nodes() == 6]
        except Exception:
            atlas = []
        n_ord = 10 if quick else 120
        for g in atlas:
            r = sub()
            attrs = list(X.NAMES[:6])
            lab = [attrs[i] for i in r.permutation(6)]
            edges = [[lab[u], lab[v]] for u, v in g.edges()]
            perms = [[attrs[i] for i in r.permutation(6)] for _ in range(n_ord)]
            if r.rand() < 0.5:
                dom, cl = disguise(r, attrs, edges)
            else:
                dom, cl = attrs, edges
            yield mk(dom, cl, dict(perms=perms, ints=[2], none=True), r, tag='atlas6')

        # every set of <= 4 cliques (size <= 3) on <= 4 attributes: hypergraph structure steers the greedy modes
        for n in (4, 3):
            attrs = list(X.NAMES[:n])
            for cliques in X.all_clique_sets(attrs, 3, 4, 0):
                r = sub()
                dom = [attrs[i] for i in r.permutation(n)]
                perms = [[attrs[i] for i in r.permutation(n)] for _ in range(2)]
                yield mk(dom, X.decorate_cliques(r, cliques), dict(perms=perms, ints=[1, 4], none=True), r, tag='cliquesets%d' % n)

        # thorough: every labelled graph on 6 attributes with seeded orders
        if not quick:
            attrs = list(X.NAMES[:6])
            for edges in X.all_labelled_graphs(attrs):
                r = sub()
                perms = [[attrs[i] for i in r.permutation(6)] for _ in range(6)]
                yield mk(attrs, edges, dict(perms=perms, ints=[2], none=True), r, tag='labelled6')

        # seeded clique sets on 6-7 attributes
        for k in range(150 if quick else 4000):
            r = sub()
            n = 6 + k % 2
            attrs = list(X.NAMES[:n])
            cl = X.random_clique_set(r, attrs, int(r.randint(2, 8)), 4)
            dom = [attrs[i] for i in r.permutation(n)]
            perms = [[attrs[i] for i in r.permutation(n)] for _ in range(8 if quick else 30)]
            yield mk(dom, cl, dict(perms=perms, ints=[3], none=True), r, tag='random%d' % n)

    def nontrivial(self, case):
        return len(case['attrs']) >= 3 and any(len(set(c)) >= 2 for c in case['cliques'])

    def finding_key(self, case, clause, detail):
        return 'bounded:%s' % clause

    # ------------------------------------------------------------------ driver
    def run_case(self, case):
        import numpy as np
        from mbi import Domain
        from mbi.junction_tree import JunctionTree
        attrs = list(case['attrs'])
        dom = Domain(attrs, list(case['sizes']))
        cliques = [tuple(c) for c in case['cliques']]
        o = case['orders']
        modes = []
        if o.get('none'):
            modes.append(None)
        modes += [int(k) for k in o.get('ints', [])]
        perms = o.get('perms', [])
        if perms == 'all':
            perms = [list(p) for p in itertools.permutations(attrs)]
        modes += [list(p) for p in perms]
        agg = {c: [True, {}, 0] for c in CLAUSES}
        for mi, mode in enumerate(modes):
            np.random.seed((int(case['npseed']) + mi) % (2 ** 32))
            jt = JunctionTree(dom, cliques, mode)
            res = check_tree(jt, attrs, cliques)
            for c in CLAUSES:
                ok, det = res[c]
                agg[c][2] += 1
                if not ok and agg[c][0]:
                    agg[c][0] = False
                    agg[c][1] = dict(det, order_mode=mode, np_random_seed=(int(case['npseed']) + mi) % (2 ** 32))
        return [(c, agg[c][0], dict(agg[c][1], trees=agg[c][2])) for c in CLAUSES]


PROP = C12()
