"""C20 — selection and noise primitives are exactly calibrated."""
import math
from ..runner import Prop
from .. import deductive


class Rec:
    """Stand-in random source that records what the primitive asks for (bounded tier)."""
    def __init__(self, pick=0):
        self.calls, self.pick = [], pick

    def choice(self, a, size=None, replace=True, p=None):
        import numpy as np
        self.calls.append(('choice', a, None if p is None else np.array(p, dtype=float)))
        return self.pick

    def normal(self, loc=0.0, scale=1.0, size=None):
        self.calls.append(('normal', loc, scale, size))
        return 0.0

    def laplace(self, loc=0.0, scale=1.0, size=None):
        self.calls.append(('laplace', loc, scale, size))
        return 0.0


def expected_probs(q, coef, logbase=None):
    """Independent definition: p_i proportional to base_i * exp(coef * q_i), computed stably."""
    import numpy as np
    s = coef * (np.asarray(q, dtype=float) - np.max(q))
    if logbase is not None:
        s = s + np.asarray(logbase, dtype=float)
    s = s - np.max(s)
    w = np.exp(s)
    return w / w.sum()


class C20(Prop):
    id = 'C20'
    level = 'proof'
    technique = ('contract-based deductive verification: log-odds site contracts on every private-selection primitive and '
                 'argument-passing contracts on the noise helpers, VCs from the real AST discharged by z3; float/overflow clause bounded')
    level_text = ('Proof (over the reals, for all quality vectors/lengths/parameters) that each selection primitive calls the sampler with '
                  'log p_i - log p_j = eps/(2 sens)(q_i - q_j) + log base_i - log base_j (factor 1 only if monotonic), returns the selected key, '
                  'and that the scale helpers/samplers compute and pass exactly the stated scale; modulo the extern contracts of '
                  'softmax/logsumexp/exp and reals-for-floats. The huge-magnitude (overflow/NaN) clause is decided bounded only.')
    explanation = level_text
    rule = ('bounded tier: (primitive, spelling, quality vector incl. ties / magnitudes up to 1e6 / length 1, eps, sensitivity, base measure) '
            'drawn from a seeded generator; the p= vector captured from the real choice() call is compared with an independently computed '
            'definition; non-trivial = at least 2 candidates with non-equal qualities; distinct by full case')
    trusted_base = ['z3 SMT solver', 'extern contract: scipy.special.softmax(s)_i = exp(s_i - LSE(s)), logsumexp(s) = LSE(s)',
                    'extern contract: np.exp/np.log elementwise with log(exp(t)) = t', 'extern contract: a.max() is an upper bound attained in a',
                    'floats treated as mathematical reals (deductive tier)', 'autodp.privacy_calibrator.ana_gaussian_mech treated as an opaque pure function']
    assumptions = ['floats are mathematical reals in the deductive tier (no overflow/NaN): the huge-magnitude clause is bounded only',
                   'numpy broadcasting of equal-length 1-d arrays; the sampler itself (numpy.random.choice/normal/laplace) is trusted to sample from the p / scale it is given',
                   'callees declared pure in the contracts (est.project, datavector, domain.size, np.abs, sum, functools.partial) are deterministic and side-effect free',
                   'hdmm/autodp are absent from the sandbox: harness-side stubs are used in the bounded tier only']
    quick_budget_s = 60
    thorough_budget_s = 300

    def deductive(self, tier):
        from ..contracts import selection as K
        reps = []
        for rel, q, c, label in K.FUNCTIONS:
            reps.append(deductive.verify_function(rel, q, c, hooks=K.hooks_for(c),
                                                  prefix='%s::%s%s' % (rel, q, '[%s]' % label if label else '')))
        # frame: a selection primitive does not update its score array (or any other argument) in place - the same array may be
        # passed again (MST scores every remaining edge from one weight vector), and a rescaled copy would change later choices
        import time
        from ..vc import frames
        from ..vc.solver import Obligation
        for rel, q in (('mechanisms/mst.py', 'exponential_mechanism'), ('mechanisms/adaptive_grid.py', 'exponential_mechanism'),
                       ('mechanisms/mechanism.py', 'Mechanism.exponential_mechanism'), ('mechanisms/mwem+pgm.py', 'worst_approximated'),
                       ('mechanisms/aim.py', 'AIM.worst_approximated')):
            t0 = time.time()
            r = deductive.FunctionReport(rel, q + ' [arguments are not updated in place]')
            try:
                ow = frames.Ownership(rel, q)
                r.obligations = ow.run()
                r.sha = ow.sha
                o = Obligation('%s::%s/owned-target#every-in-place-update-found(%d)-targets-an-object-of-this-call' % (rel, q, len(r.obligations)), [], None,
                               function='%s::%s' % (rel, q), kind='frame')
                o.verdict = 'discharged' if all(x.verdict == 'discharged' for x in r.obligations) else 'refuted'
                o.backend, o.model = 'ownership analysis (pv/vc/frames.py)', {}
                o.meta = {'base': '%s::%s/owned-target#summary' % (rel, q)}
                r.obligations = r.obligations + [o]
            except Exception as e:
                r.undecided = 'ownership analysis: %s: %s' % (type(e).__name__, e)
            r.vacuity = []
            r.seconds = time.time() - t0
            reps.append(r)
        return reps

    def replay_obligation(self, ob):
        """A refuted site obligation is replayed by driving the same primitive with concrete inputs and
        comparing the captured probability vector / sampler arguments with the definition."""
        fn = ob.function
        kinds = {'Mechanism.exponential_mechanism': ['mech_em'], 'mst.py::exponential_mechanism': ['mst_em'],
                 'adaptive_grid.py::exponential_mechanism': ['ada_em'], 'worst_approximated': ['worst'],
                 'noise_scale': ['scale'], 'gaussian_noise': ['sampler'], 'laplace_noise': ['sampler'], 'best_noise': ['best']}
        want = [k for pat, ks in kinds.items() if pat in fn for k in ks]
        from .. import env
        env.ensure_repo_importable()
        tried = 0
        for case in self.cases('quick', 12345):
            if case['kind'] not in want:
                continue
            tried += 1
            try:
                res = self.run_case(case)
            except Exception as e:
                return dict(reproduced=True, case=case, observed='raised %s: %s' % (type(e).__name__, e))
            bad = [(c, d) for c, ok, d in res if not ok]
            if bad:
                return dict(reproduced=True, case=case, failing_clause=bad[0][0], observed=bad[0][1])
            if tried > 60:
                break
        return dict(reproduced=False, tried_cases=tried)

    # ------------------------------------------------------------------ bounded tier
    def cases(self, tier, seed):
        import numpy as np
        rng = np.random.RandomState(seed)
        n = 40 if tier == 'quick' else 400
        def qvec():
            k = int(rng.choice([1, 2, 3, 5, 8]))
            mag = float(rng.choice([1.0, 30.0, 1e3, 1e6]))
            q = rng.uniform(-mag, mag, k)
            if k > 2 and rng.rand() < 0.4:
                q[1] = q[0]                      # ties
            if rng.rand() < 0.2:
                q = np.round(q)
            return [float(x) for x in q]
        for i in range(n):
            q = qvec()
            eps = float(rng.choice([0.01, 0.5, 1.0, 10.0]))
            sens = float(rng.choice([0.5, 1.0, 2.0, 7.0]))
            base = [float(x) for x in rng.uniform(0.1, 5.0, len(q))] if rng.rand() < 0.5 else None
            yield dict(kind='mech_em', spelling=str(rng.choice(['array', 'dict', 'list'])), q=q, eps=eps, sens=sens, base=base, pick=int(rng.randint(len(q))))
            yield dict(kind='mst_em', q=q, eps=eps, sens=sens, monotonic=bool(rng.rand() < 0.5), pick=int(rng.randint(len(q))))
            yield dict(kind='ada_em', q=q, eps=eps, sens=sens, monotonic=bool(rng.rand() < 0.5), pick=int(rng.randint(len(q))))
            yield dict(kind='worst', seed=int(rng.randint(1 << 30)), eps=eps, penalty=bool(rng.rand() < 0.7), bounded=bool(rng.rand() < 0.5),
                       scale=float(rng.choice([1.0, 1e3, 1e6])))
            yield dict(kind='scale', bounded=bool(rng.rand() < 0.5), s1=float(rng.uniform(0.1, 9)), s2=float(rng.uniform(0.1, 9)), eps=eps,
                       delta=float(10 ** rng.uniform(-9, -2)))
            yield dict(kind='sampler', sigma=float(rng.uniform(0.01, 50)), size=int(rng.randint(1, 9)), bounded=bool(rng.rand() < 0.5))
            yield dict(kind='best', bounded=bool(rng.rand() < 0.5), s1=float(rng.uniform(0.1, 9)), s2=float(rng.uniform(0.1, 9)), eps=eps,
                       delta=float(10 ** rng.uniform(-9, -2)))

    def nontrivial(self, case):
        q = case.get('q')
        if q is not None:
            return len(q) >= 2 and max(q) > min(q)
        return True

    def _cmp(self, name, p, want, out, extra=None):
        import numpy as np
        ok = p is not None and len(p) == len(want) and bool(np.all(np.isfinite(p))) and abs(float(np.sum(p)) - 1) < 1e-9 \
            and bool(np.allclose(p, want, rtol=1e-8, atol=1e-300))
        out.append((name, ok, dict(p=None if p is None else [float(x) for x in p], expected=[float(x) for x in want], **(extra or {}))))

    def run_case(self, case):
        import numpy as np
        from ..realcode import load_mechanism
        out = []
        k = case['kind']
        if k == 'mech_em':
            M = load_mechanism('mechanism')
            rec = Rec(case['pick'])
            m = M.Mechanism(1.0, 0.0, False, prng=rec)      # delta=0: no budget conversion needed
            q, base = case['q'], case['base']
            keys = ['k%d' % i for i in range(len(q))]
            if case['spelling'] == 'dict':
                res = m.exponential_mechanism(dict(zip(keys, q)), case['eps'], case['sens'],
                                              base_measure=None if base is None else dict(zip(keys, base)))
                want_res = keys[case['pick']]
            else:
                arr = np.array(q) if case['spelling'] == 'array' else list(q)
                res = m.exponential_mechanism(arr, case['eps'], case['sens'], base_measure=None if base is None else np.log(base))
                want_res = case['pick']
            calls = [c for c in rec.calls if c[0] == 'choice']
            out.append(('one-selection', len(calls) == 1, dict(calls=len(calls))))
            want = expected_probs(q, 0.5 * case['eps'] / case['sens'], None if base is None else np.log(base))
            self._cmp('selection-probabilities', calls[0][2] if calls else None, want, out)
            out.append(('support-size', bool(calls) and calls[0][1] == len(q), dict(n=calls[0][1] if calls else None)))
            out.append(('returns-selected-key', res == want_res, dict(result=repr(res), expected=repr(want_res))))
            # adding a constant to every quality changes nothing
            rec2 = Rec(case['pick'])
            m2 = M.Mechanism(1.0, 0.0, False, prng=rec2)
            shift = 1234.5
            m2.exponential_mechanism(np.array(q) + shift, case['eps'], case['sens'], base_measure=None if base is None else np.log(base))
            p2 = rec2.calls[0][2]
            out.append(('shift-invariant', bool(np.allclose(p2, want, rtol=1e-6, atol=1e-300)), dict(p_shifted=[float(x) for x in p2])))
        elif k in ('mst_em', 'ada_em'):
            mod = load_mechanism('mst' if k == 'mst_em' else 'adaptive_grid')
            rec = Rec(case['pick'])
            q = np.array(case['q'])
            eps = float('inf') if case['eps'] == 'inf' else case['eps']
            res = mod.exponential_mechanism(q, eps, case['sens'], prng=rec, monotonic=case['monotonic'])
            calls = [c for c in rec.calls if c[0] == 'choice']
            out.append(('one-selection', len(calls) == 1, dict(calls=len(calls))))
            if eps == float('inf'):
                want = (q == q.max()).astype(float)
                want /= want.sum()
            else:
                want = expected_probs(q, (1.0 if case['monotonic'] else 0.5) * eps / case['sens'])
            self._cmp('selection-probabilities', calls[0][2] if calls else None, want, out)
            out.append(('support-size', bool(calls) and calls[0][1] == len(q), {}))
            out.append(('returns-selected-index', res == case['pick'], dict(result=repr(res))))
        elif k == 'worst':
            from mbi import Domain, GraphicalModel, CliqueVector, Factor
            mod = load_mechanism('mwem+pgm')
            rng = np.random.RandomState(case['seed'])
            dom = Domain(['a', 'b', 'c'], [2, 3, 2])
            cliques = [('a', 'b'), ('b', 'c')]
            est = GraphicalModel(dom, cliques, total=float(rng.choice([1.0, 50.0])))
            est.potentials = CliqueVector({cl: Factor(dom.project(cl), rng.randn(*dom.project(cl).shape)) for cl in est.cliques})
            workload = [('a', 'b'), ('b', 'c'), ('a', 'c'), ('c', 'a'), ('b',)][:int(rng.randint(1, 6))]
            answers = {cl: rng.uniform(0, case['scale'], dom.size(cl)) for cl in workload}
            joint = est.datavector(flatten=False)       # oracle for the model's answers: the explicit joint
            full = Factor(dom, joint)
            errs = []
            for cl in workload:
                xest = full.project(cl).datavector()
                errs.append(np.abs(answers[cl] - xest).sum() - (dom.size(cl) if case['penalty'] else 0))
            captured = []
            orig = np.random.choice
            def fake(a, size=None, replace=True, p=None):
                captured.append((a, np.array(p, dtype=float)))
                return 0
            np.random.choice = fake
            try:
                res = mod.worst_approximated(answers, est, workload, case['eps'], penalty=case['penalty'], bounded=case['bounded'])
            finally:
                np.random.choice = orig
            out.append(('one-selection', len(captured) == 1, dict(calls=len(captured))))
            want = expected_probs(errs, 0.5 * case['eps'] / (2.0 if case['bounded'] else 1.0))
            self._cmp('selection-probabilities', captured[0][1] if captured else None, want, out, dict(errors=[float(e) for e in errs]))
            out.append(('returns-selected-candidate', res == workload[0], dict(result=repr(res))))
        elif k == 'scale':
            M = load_mechanism('mechanism')
            m = M.Mechanism(1.0, 0.0, case['bounded'], prng=Rec())
            f = 2.0 if case['bounded'] else 1.0
            b = m.laplace_noise_scale(case['s1'], case['eps'])
            out.append(('laplace-scale', abs(b - f * case['s1'] / case['eps']) <= 1e-12 * abs(b), dict(b=b, expected=f * case['s1'] / case['eps'])))
            import autodp.privacy_calibrator as pc
            unit = pc.ana_gaussian_mech(case['eps'], case['delta'])['sigma']
            s = m.gaussian_noise_scale(case['s2'], case['eps'], case['delta'])
            out.append(('gaussian-scale-doubles-under-bounded', abs(s - f * case['s2'] * unit) <= 1e-12 * abs(s), dict(sigma=s, expected=f * case['s2'] * unit)))
        elif k == 'sampler':
            M = load_mechanism('mechanism')
            rec = Rec()
            m = M.Mechanism(1.0, 0.0, case['bounded'], prng=rec)
            m.gaussian_noise(case['sigma'], case['size'])
            m.laplace_noise(case['sigma'], case['size'])
            ok = len(rec.calls) == 2 and rec.calls[0] == ('normal', 0, case['sigma'], case['size']) and rec.calls[1] == ('laplace', 0, case['sigma'], case['size'])
            out.append(('samplers-draw-with-the-scale-they-are-given', ok, dict(calls=repr(rec.calls))))
        elif k == 'best':
            M = load_mechanism('mechanism')
            rec = Rec()
            m = M.Mechanism(1.0, 0.0, case['bounded'], prng=rec)
            fn = m.best_noise_distribution(case['s1'], case['s2'], case['eps'], case['delta'])
            b = m.laplace_noise_scale(case['s1'], case['eps'])
            s = m.gaussian_noise_scale(case['s2'], case['eps'], case['delta'])
            fn(3)
            kind, loc, scale, size = rec.calls[-1]
            ok = (kind == 'laplace' and scale == b) or (kind == 'normal' and scale == s)
            out.append(('best-noise-uses-the-scale-it-computed', ok and loc == 0 and size == 3, dict(call=repr(rec.calls[-1]), b=b, sigma=s)))
            better = (kind == 'laplace') == (math.sqrt(2) * b < s)
            out.append(('best-noise-picks-smaller-variance', better, dict(kind=kind, laplace_std=math.sqrt(2) * b, gaussian_std=s)))
        return out

    def finding_key(self, case, clause, detail):
        return 'bounded:%s:%s' % (case['kind'], clause)


PROP = C20()
