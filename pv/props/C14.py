"""C14 — factor algebra is addressed by attribute name, never by position (bounded tier).

Cases
  pair   (sizes, A, B, pat, seed): two factors over the ordered attribute subsets A and B of the
         universe a,b,c,d; every operation of the statement that is defined for that pair.
  unary  (sizes, A, pat, seed): scalar forms, exp/log/copy (+ out= forms), full reductions,
         datavector, constructors.
  cv     (sizes, cliques, other, pat, seed, ...): CliqueVector arithmetic, combine, constructors.

The oracle (pv/bounded/factor_oracle.py) stores a factor as {frozenset((attr, value), ...): float}
and defines every operation on assignments; real results are read cell by cell and each cell is
interpreted through the *result's own* domain.attrs.
"""
import itertools
from ..runner import Prop

ATTRS = ('a', 'b', 'c', 'd')
SIZES = (1, 2, 3)


def ordered_subsets(universe=ATTRS):
    out = []
    for k in range(len(universe) + 1):
        out.extend(itertools.permutations(universe, k))
    return out


SUBSETS = ordered_subsets()          # 65 ordered subsets
SIZE_ASSIGNMENTS = list(itertools.product(SIZES, repeat=len(ATTRS)))      # 81


class C14(Prop):
    id = 'C14'
    level = 'other'
    technique = ('bounded run-time contract checking of the real Factor / CliqueVector methods against a dict-based oracle keyed by '
                 'attribute name (deductive tier: label-level representation invariant, attached separately)')
    explanation = ('Bounded tier (labelled bounded, never counted as proved): every operation of the statement is executed on the real '
                   'mbi.Factor / mbi.CliqueVector for pairs of factors over ordered attribute subsets of a 4-attribute universe with sizes in {1,2,3} '
                   'and compared cell by cell with an oracle that stores factors as {frozenset((attr,value)): float} and never touches array axes. '
                   'Clauses per operation: <op>:domain (result.domain.attrs exactly the stated order - self then other\'s new attributes for binary '
                   'operations, the requested order for project/transpose/expand, order-preserving complement for reductions/condition - and '
                   'values.shape == domain.shape == attribute sizes) and <op>:values (every cell equals the scalar operation applied to the operands at '
                   'that assignment; -inf/inf/nan compared exactly, finite values to rtol 1e-9). In-place forms: same table as the pure counterpart, '
                   'object identity kept, right operand untouched. Intended special semantics are checked as such: Factor.__sub__ returns self where '
                   'other is -inf, Factor.log adds 1e-100, division by a factor yields 0 where the divisor is <= 0. CliqueVector: +,-,*,exp,log,dot,size '
                   'clique by clique, combine (each factor of other added once into the first clique of self, in dict order, that contains it; others '
                   'ignored), zeros/ones/uniform/from_data.')
    rule = ('pair case = (size assignment in {1,2,3}^4 of a,b,c,d) x (ordered subset A) x (ordered subset B), 65 ordered subsets incl. empty and full; '
            'per pair: +,-,*,logaddexp, condition under EVERY evidence assignment of B; if set(B)<=set(A) also +=,*=, / (A non-empty), sum/logsumexp/max over B, '
            'project(B) with both aggregators; if set(A)==set(B) transpose; if set(A)<=set(B) expand. quick: every one of the 4225 ordered pairs 3 times with sizes drawn at random, 650 unary and 1500 CliqueVector cases; '
            'thorough: all 81 x 4225 = 342225 structural pair cases and all 81 x 65 unary structures (this structural space is enumerated completely; '
            'cell VALUES are seeded random samples - dyadic rationals in [-4,4] with zeros, pattern neginf adds -inf cells - one draw per structural case; '
            'CliqueVector cases are seeded random samples of clique lists, not an enumeration). Scalar * and / and CliqueVector - use finite values only '
            '(nan_to_num of the code is not part of the statement); scalars are non-zero Python numbers. '
            'non-trivial = the joint table of the case has at least 2 cells (cv: some clique has); distinct by the full case dict.')
    trusted_base = ['pv/bounded/factor_oracle.py (dict-of-assignments oracle, plain Python floats and math)', 'numpy cell indexing of Factor.values',
                    'pandas DataFrame construction (from_data cases only)']
    assumptions = ['bounded: attribute universe of 4 names, sizes 1..3; values are random samples, not symbolic',
                   'a result cell is addressed through the result\'s own domain.attrs (the representation invariant labels(values) = domain.attrs is what is being checked)',
                   'in-place and division forms are only defined when the right operand\'s attributes are contained in the left one\'s (precondition of expand); '
                   'division of a zero-attribute factor by a factor is outside the generated family (numpy returns a scalar that the code cannot index)',
                   'CliqueVector.random / normal are not exercised (they call Factor.random with a second argument and a non-existent Factor.normal)']
    quick_budget_s = 60
    thorough_budget_s = 1500
    exhaustive = {'quick': False, 'thorough': True}

    # ------------------------------------------------------------------------------------ cases
    def cases(self, tier, seed):
        import numpy as np
        rng = np.random.RandomState(seed)
        pats = ('finite', 'neginf')
        n_sub = len(SUBSETS)

        def pair_case(si, i, j, k):
            return dict(kind='pair', sizes=list(SIZE_ASSIGNMENTS[si]), A=list(SUBSETS[i]), B=list(SUBSETS[j]),
                        pat=pats[k % 2], seed=int(rng.randint(2 ** 31 - 1)))

        def unary_case(si, i, k):
            return dict(kind='unary', sizes=list(SIZE_ASSIGNMENTS[si]), A=list(SUBSETS[i]), pat=pats[k % 2], seed=int(rng.randint(2 ** 31 - 1)))

        def cv_case():
            sizes = [int(s) for s in rng.choice(SIZES, size=4)]
            nonempty = SUBSETS[1:]
            n = int(rng.randint(1, 5))
            cliques = []
            while len(cliques) < n:
                c = SUBSETS[int(rng.randint(n_sub))] if rng.rand() < 0.05 else nonempty[int(rng.randint(len(nonempty)))]
                if c not in cliques:
                    cliques.append(c)
            other = []
            for _ in range(int(rng.randint(0, 6))):
                if rng.rand() < 0.7:
                    base = cliques[int(rng.randint(len(cliques)))]
                    k = int(rng.randint(0, len(base) + 1))
                    c = tuple(rng.permutation(list(base))[:k]) if len(base) else ()
                    c = tuple(str(x) for x in c)
                else:
                    c = SUBSETS[int(rng.randint(n_sub))]
                if c not in other:
                    other.append(c)
            return dict(kind='cv', sizes=sizes, cliques=[list(c) for c in cliques], other=[list(c) for c in other],
                        pat=pats[int(rng.randint(2))], seed=int(rng.randint(2 ** 31 - 1)),
                        n_records=int(rng.choice([0, 1, 5, 20])), weighted=bool(rng.rand() < 0.5))

        if tier == 'quick':
            pairs = [(int(rng.randint(len(SIZE_ASSIGNMENTS))), i, j) for _ in range(3) for i in range(n_sub) for j in range(n_sub)]
            unaries = [(int(rng.randint(len(SIZE_ASSIGNMENTS))), i) for i in range(n_sub) for _ in range(10)]
            n_cv = 1500
        else:
            pairs = [(s, i, j) for s in range(len(SIZE_ASSIGNMENTS)) for i in range(n_sub) for j in range(n_sub)]
            unaries = [(s, i) for s in range(len(SIZE_ASSIGNMENTS)) for i in range(n_sub)]
            n_cv = 8000
        order = rng.permutation(len(pairs))
        uorder = rng.permutation(len(unaries))
        # interleave so that every kind is seen early: u unary and c cv cases per block of pair cases
        n_blocks = 500
        per = -(-len(pairs) // n_blocks)
        uper = -(-len(unaries) // n_blocks)
        cper = -(-n_cv // n_blocks)
        pi = ui = ci = 0
        k = 0
        for _ in range(n_blocks):
            for _ in range(per):
                if pi < len(pairs):
                    s, i, j = pairs[order[pi]]
                    pi += 1
                    k += 1
                    yield pair_case(s, i, j, k)
            for _ in range(uper):
                if ui < len(unaries):
                    s, i = unaries[uorder[ui]]
                    ui += 1
                    k += 1
                    yield unary_case(s, i, k)
            for _ in range(cper):
                if ci < n_cv:
                    ci += 1
                    yield cv_case()

    def nontrivial(self, case):
        sizes = dict(zip(ATTRS, case['sizes']))
        def cells(attrs):
            n = 1
            for a in attrs:
                n *= sizes[a]
            return n
        if case['kind'] == 'pair':
            return cells(set(case['A']) | set(case['B'])) >= 2
        if case['kind'] == 'unary':
            return cells(case['A']) >= 2
        return any(cells(c) >= 2 for c in case['cliques'])

    def finding_key(self, case, clause, detail):
        return 'bounded:%s' % clause

    # ------------------------------------------------------------------------------------ drivers
    def run_case(self, case):
        return getattr(self, '_run_' + case['kind'])(case)

    def _run_pair(self, case):
        import numpy as np
        from ..bounded import factor_oracle as O
        rng = np.random.RandomState(case['seed'])
        sizes = dict(zip(ATTRS, case['sizes']))
        A, B = tuple(case['A']), tuple(case['B'])
        pat = case['pat']
        FA = O.random_table(rng, A, sizes, pat)
        FB = O.random_table(rng, B, sizes, pat)
        out = []

        def chk(name, real, attrs, oracle):
            ok, d = O.check_domain(real, attrs, sizes)
            out.append((name + ':domain', ok, d))
            ok, d = O.check_values(real, oracle)
            out.append((name + ':values', ok, d))

        fa, fb = O.to_real(FA), O.to_real(FB)
        fa_before, fb_before = fa.values.copy(), fb.values.copy()
        merged = O.merged_attrs(FA, FB)

        # ---- binary operations on arbitrary overlapping operands
        r_add = fa + fb
        chk('add', r_add, merged, O.pointwise(O.s_add, FA, FB))
        chk('sub', fa - fb, merged, O.pointwise(O.s_sub_bp, FA, FB))
        r_mul = fa * fb
        chk('mul', r_mul, merged, O.pointwise(O.s_mul, FA, FB))
        chk('logaddexp', fa.logaddexp(fb), merged, O.pointwise(O.s_logaddexp, FA, FB))

        # ---- condition: every evidence assignment of B (keys given in B's order; keys outside A are ignored)
        keep = tuple(a for a in A if a not in B)
        ok_d, ok_v, det_d, det_v = True, True, {}, {}
        n_ev = 0
        for vals in itertools.product(*[range(sizes[b]) for b in B]):
            ev = dict(zip(B, [int(v) for v in vals]))
            r = fa.condition(ev)
            n_ev += 1
            o1, d1 = O.check_domain(r, keep, sizes)
            o2, d2 = O.check_values(r, O.condition(FA, ev))
            if not o1 and ok_d:
                ok_d, det_d = False, dict(evidence=ev, **d1)
            if not o2 and ok_v:
                ok_v, det_v = False, dict(evidence=ev, **d2)
        out.append(('condition:domain', ok_d, det_d))
        out.append(('condition:values', ok_v, det_v))

        sub = set(B) <= set(A)
        if sub:
            # ---- aggregations over the attributes B (given in B's order)
            chk('sum', fa.sum(list(B)), keep, O.aggregate(FA, B, O.a_sum))
            chk('logsumexp', fa.logsumexp(list(B)), keep, O.aggregate(FA, B, O.a_logsumexp))
            chk('max', fa.max(list(B)), keep, O.aggregate(FA, B, O.a_max))
            # ---- projection onto B, axes in the requested order
            removed = [a for a in A if a not in B]
            chk('project-sum', fa.project(list(B)), B, O.reorder(O.aggregate(FA, removed, O.a_sum), B))
            chk('project-logsumexp', fa.project(B, agg='logsumexp'), B, O.reorder(O.aggregate(FA, removed, O.a_logsumexp), B))
            # ---- in-place forms against the pure oracle and the pure real result
            for name, pure, sop in (('iadd', r_add, O.s_add), ('imul', r_mul, O.s_mul)):
                f = O.to_real(FA)
                g = O.to_real(FB)
                g_before = g.values.copy()
                f0 = f
                if name == 'iadd':
                    f += g
                else:
                    f *= g
                out.append((name + ':identity', f is f0, {}))
                chk(name, f, A, O.pointwise(sop, FA, FB))
                ok, d = O.check_values(f, O.OF(tuple(pure.domain.attrs), sizes, O.real_table(pure)))
                out.append((name + ':same-as-pure', ok, d))
                out.append((name + ':right-operand-untouched', bool(np.array_equal(g.values, g_before, equal_nan=True)), {}))
            # ---- division by a factor (0 where the divisor is <= 0); zero-attribute dividend excluded (see assumptions)
            if len(A) > 0:
                chk('truediv', fa / fb, A, O.pointwise(O.s_div_guarded, FA, FB))
        if set(A) == set(B):
            chk('transpose', fa.transpose(list(B)), B, O.reorder(FA, B))
        if set(A) <= set(B):
            from mbi import Domain
            chk('expand', fa.expand(Domain(B, [sizes[b] for b in B])), B, O.pointwise(lambda x, y: x, FA, FB, attrs=B))
        # ---- none of the pure operations above may have changed its operands
        intact = bool(np.array_equal(fa.values, fa_before, equal_nan=True) and np.array_equal(fb.values, fb_before, equal_nan=True)
                      and tuple(fa.domain.attrs) == A and tuple(fb.domain.attrs) == B)
        out.append(('pure-operations-leave-operands-intact', intact, {}))
        return out

    def _run_unary(self, case):
        import numpy as np
        from ..bounded import factor_oracle as O
        from mbi import Factor, Domain
        rng = np.random.RandomState(case['seed'])
        sizes = dict(zip(ATTRS, case['sizes']))
        A = tuple(case['A'])
        F = O.random_table(rng, A, sizes, case['pat'])          # may contain -inf
        Ffin = O.random_table(rng, A, sizes, 'finite')
        Fnn = O.random_table(rng, A, sizes, 'nonneg')
        Fpos = O.random_table(rng, A, sizes, 'pos')
        s = float(rng.choice([-1, 1]) * (int(rng.randint(1, 49)) / 8.0))
        si = int(rng.choice([-3, -2, -1, 1, 2, 3]))
        out = []

        def chk(name, real, oracle, attrs=A):
            ok, d = O.check_domain(real, attrs, sizes)
            out.append((name + ':domain', ok, d))
            ok, d = O.check_values(real, oracle)
            out.append((name + ':values', ok, d))

        f, ffin = O.to_real(F), O.to_real(Ffin)
        f_before = f.values.copy()
        # scalar forms
        chk('add-scalar', f + s, O.fmap(lambda v: v + s, F))
        chk('radd-scalar', s + f, O.fmap(lambda v: s + v, F))
        chk('radd-int', si + f, O.fmap(lambda v: si + v, F))
        chk('sub-scalar', f - s, O.fmap(lambda v: v - s, F))
        chk('mul-scalar', ffin * s, O.fmap(lambda v: v * s, Ffin))
        chk('rmul-scalar', s * ffin, O.fmap(lambda v: s * v, Ffin))
        chk('rmul-int', si * ffin, O.fmap(lambda v: si * v, Ffin))
        chk('truediv-scalar', ffin / s, O.fmap(lambda v: v / s, Ffin))
        # python's sum() starts from the int 0 and relies on __radd__
        G = O.random_table(rng, A, sizes, 'finite')
        chk('builtin-sum', sum([f, O.to_real(G)]), O.pointwise(O.s_add, F, G))
        # in-place scalar forms
        h = O.to_real(F)
        h0 = h
        h += s
        out.append(('iadd-scalar:identity', h is h0, {}))
        chk('iadd-scalar', h, O.fmap(lambda v: v + s, F))
        h = O.to_real(Ffin)
        h0 = h
        h *= s
        out.append(('imul-scalar:identity', h is h0, {}))
        chk('imul-scalar', h, O.fmap(lambda v: v * s, Ffin))
        # exp / log / copy
        import math
        chk('exp', f.exp(), O.fmap(math.exp, F))
        chk('log', O.to_real(Fnn).log(), O.fmap(O.s_log_eps, Fnn))
        fpos = O.to_real(Fpos)
        tgt = O.to_real(Ffin)
        r = fpos.log(out=tgt)
        out.append(('log-out:identity', r is tgt, {}))
        chk('log-out', tgt, O.fmap(math.log, Fpos))
        tgt = O.to_real(Ffin)
        r = f.exp(out=tgt)
        out.append(('exp-out:identity', r is tgt, {}))
        chk('exp-out', tgt, O.fmap(math.exp, F))
        tgt = O.to_real(Ffin)
        r = f.copy(out=tgt)
        out.append(('copy-out:identity', r is tgt, {}))
        chk('copy-out', tgt, F)
        c = f.copy()
        chk('copy', c, F)
        # independence of the copy: writing to either side must not show on the other
        c2 = f.copy()
        c2 += 1.0
        c2 *= 0.5
        indep = bool(np.array_equal(f.values, f_before, equal_nan=True))
        g = O.to_real(F)
        c3 = g.copy()
        g += 1.0
        ok3, _ = O.check_values(c3, F)
        out.append(('copy:independent', indep and ok3 and c2 is not f and c3 is not g, {}))
        # full reductions (attrs=None) are scalars
        vs = list(F.table.values())
        for name, got, want in (('sum-all', f.sum(), O.a_sum(vs)), ('logsumexp-all', f.logsumexp(), O.a_logsumexp(vs)), ('max-all', f.max(), O.a_max(vs))):
            out.append((name, bool(np.ndim(got) == 0 and O.same(got, want)), dict(got=float(got), expected=want)))
        # datavector: the table in C order of domain.attrs
        flat = f.datavector()
        want = [F.table[x] for x in O.assignments(A, sizes)]
        ok = np.ndim(flat) == 1 and len(flat) == len(want) and all(O.same(x, y) for x, y in zip(flat, want))
        out.append(('datavector-flat', bool(ok), dict(got=[float(x) for x in np.ravel(flat)], expected=want)))
        nd = f.datavector(flatten=False)
        ok = tuple(np.shape(nd)) == tuple(sizes[a] for a in A)
        if ok:
            nd = np.asarray(nd)
            ok = all(O.same(nd[idx], F.table[frozenset(zip(A, idx))]) for idx in np.ndindex(*nd.shape))
        out.append(('datavector-nd', bool(ok), {}))
        # constructor from a flat vector, and the constant constructors
        dom = Domain(A, [sizes[a] for a in A])
        chk('init-from-flat', Factor(dom, np.array(want, dtype=float)), F)
        n = 1
        for a in A:
            n *= sizes[a]
        chk('zeros', Factor.zeros(dom), O.fmap(lambda v: 0.0, Ffin))
        chk('ones', Factor.ones(dom), O.fmap(lambda v: 1.0, Ffin))
        chk('uniform', Factor.uniform(dom), O.fmap(lambda v: 1.0 / n, Ffin))
        if len(A) > 0:          # np.random.rand() without arguments returns a Python float, which Factor.__init__ rejects
            np.random.seed(case['seed'] % (2 ** 31))
            rnd = Factor.random(dom)
            ok, d = O.check_domain(rnd, A, sizes)
            out.append(('random:domain', ok and bool(np.all((np.asarray(rnd.values) >= 0) & (np.asarray(rnd.values) < 1))), d))
        out.append(('pure-operations-leave-operands-intact', bool(np.array_equal(f.values, f_before, equal_nan=True)), {}))
        return out

    def _run_cv(self, case):
        import numpy as np
        import math
        from ..bounded import factor_oracle as O
        from mbi import Domain, CliqueVector, Factor
        rng = np.random.RandomState(case['seed'])
        sizes = dict(zip(ATTRS, case['sizes']))
        cliques = [tuple(c) for c in case['cliques']]
        other = [tuple(c) for c in case['other']]
        dom = Domain(ATTRS, [sizes[a] for a in ATTRS])
        out = []

        def cv_check(name, real_cv, oracle_by_clique):
            """clique by clique: same key set, each factor over its clique (in the clique's order) with the oracle's cells"""
            if set(real_cv.keys()) != set(oracle_by_clique.keys()):
                out.append((name, False, dict(reason='clique set differs', got=[list(k) for k in real_cv.keys()])))
                return
            for cl, orc in oracle_by_clique.items():
                ok, d = O.check_domain(real_cv[cl], cl, sizes)
                if ok:
                    ok, d = O.check_values(real_cv[cl], orc)
                if not ok:
                    out.append((name, False, dict(clique=list(cl), **d)))
                    return
            out.append((name, True, {}))

        def rand_cv(cls, pat):
            orc = {cl: O.random_table(rng, cl, sizes, pat) for cl in cls}
            return orc, CliqueVector({cl: O.to_real(orc[cl]) for cl in cls})

        # ---- arithmetic, clique by clique (finite values: '-' and '*' go through nan_to_num)
        X, x = rand_cv(cliques, 'finite')
        Y, y = rand_cv(cliques, 'finite')
        c = float(rng.choice([-1, 1]) * (int(rng.randint(1, 33)) / 8.0))
        cv_check('cv-add', x + y, {cl: O.pointwise(O.s_add, X[cl], Y[cl]) for cl in cliques})
        cv_check('cv-sub', x - y, {cl: O.pointwise(lambda u, v: u - v, X[cl], Y[cl]) for cl in cliques})
        cv_check('cv-mul-const', x * c, {cl: O.fmap(lambda v: v * c, X[cl]) for cl in cliques})
        cv_check('cv-rmul-const', c * x, {cl: O.fmap(lambda v: c * v, X[cl]) for cl in cliques})
        cv_check('cv-add-scalar', x + c, {cl: O.fmap(lambda v: v + c, X[cl]) for cl in cliques})
        cv_check('cv-exp', x.exp(), {cl: O.fmap(math.exp, X[cl]) for cl in cliques})
        Z, z = rand_cv(cliques, 'nonneg')
        cv_check('cv-log', z.log(), {cl: O.fmap(O.s_log_eps, Z[cl]) for cl in cliques})
        want = O.a_sum([X[cl].table[k] * Y[cl].table[k] for cl in cliques for k in X[cl].table])
        got = x.dot(y)
        out.append(('cv-dot', bool(O.same(got, want)), dict(got=float(got), expected=want)))
        want = sum(X[cl].cells() for cl in cliques)
        out.append(('cv-size', int(x.size()) == want, dict(got=int(x.size()), expected=want)))
        cv_check('cv-operands-intact', x, X)

        # ---- combine
        S, s = rand_cv(cliques, case['pat'])
        T, t = rand_cv(other, case['pat'])
        objs = {cl: s[cl] for cl in cliques}
        s.combine(t)
        exp = dict(S)
        for cl in other:                       # dict order of `other`
            for cl2 in cliques:                # first containing clique of self, in dict order
                if set(cl) <= set(cl2):
                    exp[cl2] = O.pointwise(O.s_add, exp[cl2], T[cl], attrs=cl2)
                    break
        cv_check('cv-combine', s, exp)
        out.append(('cv-combine:keys-kept-in-order', list(s.keys()) == cliques, dict(got=[list(k) for k in s.keys()])))
        cv_check('cv-combine:other-untouched', t, T)

        # ---- constructors
        cv_check('cv-zeros', CliqueVector.zeros(dom, cliques), {cl: O.from_function(cl, sizes, lambda a: 0.0) for cl in cliques})
        cv_check('cv-ones', CliqueVector.ones(dom, cliques), {cl: O.from_function(cl, sizes, lambda a: 1.0) for cl in cliques})
        def cells(cl):
            n = 1
            for a in cl:
                n *= sizes[a]
            return n
        cv_check('cv-uniform', CliqueVector.uniform(dom, cliques), {cl: O.from_function(cl, sizes, lambda a, cl=cl: 1.0 / cells(cl)) for cl in cliques})
        # from_data: contingency table of the records on each clique, in the clique's order (non-empty cliques: histogramdd needs >= 1 column)
        ne = [cl for cl in cliques if len(cl) > 0]
        if ne:
            import pandas as pd
            from mbi import Dataset
            n = case['n_records']
            recs = [{a: int(rng.randint(sizes[a])) for a in ATTRS} for _ in range(n)]
            w = [int(rng.randint(0, 33)) / 8.0 for _ in range(n)] if case['weighted'] else None
            df = pd.DataFrame({a: np.array([r[a] for r in recs], dtype=int) for a in ATTRS})
            data = Dataset(df, dom, None if w is None else np.array(w, dtype=float))
            want = {}
            for cl in ne:
                tab = {k: 0.0 for k in O.assignments(cl, sizes)}
                for i, r in enumerate(recs):
                    tab[frozenset((a, r[a]) for a in cl)] += 1.0 if w is None else w[i]
                want[cl] = O.OF(cl, sizes, tab)
            cv_check('cv-from-data', CliqueVector.from_data(data, ne), want)
        return out


PROP = C14()
