"""C05 — mechanisms never spend more privacy than the (epsilon, delta) budget (bounded tier: run-time ledger)."""
from ..runner import Prop

TOL = 1e-9


class C05(Prop):
    id = 'C05'
    level = 'other'
    technique = ('run-time privacy ledger on actual neighbouring pairs: numpy.random.normal/laplace/choice wrapped, '
                 'record run on D and replay run on D\' fed the recorded releases and selections, every event charged '
                 'with the actual change of its operand / probability vector (bounded tier; the deductive ledger tier is separate)')
    explanation = ('Bounded tier (labelled bounded): the real MST, AIM.run, mwem_pgm and adagrid are executed twice per case '
                   '(pv/bounded/dp_harness.py) - on a dataset D and on a neighbour D\' under the mechanism\'s adjacency notion - with '
                   'the sampler calls intercepted.  Run 2 observes exactly the released values and selections of run 1, so both runs '
                   'follow one adaptive history.  Gaussian events are charged ||f(D)-f(D\')||_2^2/(2 s^2), Laplace events ||f(D)-f(D\')||_1/b, '
                   'selections range(log p - log p\')^2/8 (zCDP) resp. the range itself (pure epsilon); a selection whose supports differ, '
                   'or a point where the two event sequences stop agreeing, has no finite price.  The sum must not exceed '
                   'cdp_rho(epsilon, delta) of the tree under verification (epsilon itself for MWEM+PGM with Laplace noise) times (1+1e-9).  '
                   'AIM settings with rounds < 0.9 * #one-way marginals overspend internally by design of the code but must end in an '
                   'exception before anything is returned.')
    rule = ('seeded (VERIF_SEED) cases; a case = (mechanism in {MST, AIM, MWEM+PGM, Adaptive Grid}, dataset spec, parameters, neighbour, outcome seed) '
            '= two runs of the real mechanism.  Datasets: 2-4 attributes of sizes 2-4, 12-~200 records, uniform / Dirichlet-skewed / sparse-correlated '
            '(values that never occur) / boundary (cell counts T and T-1 around the public support threshold T of MST resp. Adaptive Grid).  '
            'Neighbours: remove first/last/random record, add random/duplicate/rarest-value record (MST, AIM, Adaptive Grid, MWEM bounded=False); '
            'replace one record in all / one / random attributes (MWEM bounded=True).  Parameters: epsilon in {0.5,1,5} x delta in {1e-9,1e-5,0.1}; '
            'AIM rounds in {1..d-1 (abort family), d, d+1, 2d, 3d, 12, 20[, default 16d]}, workload pairs/triples/mixed/chain, weights 1 and 1+step, max_model_size in {80,1e-3,3e-4}; '
            'MWEM rounds in {1,2,3,5,default}, noise gaussian/laplace, bounded flag, alpha in {0.9,0.5}, workload pairs/pairs+singles/triples/chain; '
            'Adaptive Grid threshold in {0.5,2,5}, targets [] / [a] / [b], split None / [.1,.1,.8] / [1,2,3].  FactoredInference.iters capped at 15/40.  '
            'non-trivial = D\' differs from D as a multiset of records and the domain has >= 2 attributes; distinct by the whole case')
    trusted_base = ['numpy RandomState (harness-owned outcome sequences)',
                    'zCDP facts used for pricing: Gaussian mechanism Delta_2^2/(2 sigma^2); bounded-range selection r^2/8; eps-DP => eps^2/2-zCDP; composition is additive',
                    'cdp_rho of the tree under verification as the budget (its soundness is C07)',
                    'harness shims: stub hdmm.matrix.Identity / autodp, cap on FactoredInference.iters, csr subclass with assignable T for Adaptive Grid']
    assumptions = ['bounded tier only: finitely many datasets, neighbours, parameter settings and outcome sequences',
                   'noise is consumed by exactly one addition `statistic + noise` (anything else is reported as a harness error, exit 3)',
                   'probabilities below 1e-290 on both sides are ignored (softmax underflow)',
                   'iteration counts of the estimation do not enter the accounting (they are capped)',
                   'an AIM run that raises before returning releases nothing (DESIGN 2.3(2))']
    quick_budget_s = 90
    thorough_budget_s = 600

    # ---------------------------------------------------------------- bounded tier
    def cases(self, tier, seed):
        from ..bounded import dp_harness as H
        return H.gen_cases(tier, seed)

    def nontrivial(self, case):
        from ..bounded import dp_harness as H
        return H.case_nontrivial(case)

    def run_case(self, case):
        # evaluated in an interpreter with a fixed string-hash seed (see dp_harness.dispatch) so that replay files reproduce
        from ..bounded import dp_harness as H
        return H.dispatch('C05', case, self.run_case_here)

    def run_case_here(self, case):
        from ..bounded import dp_harness as H
        r1, r2, rows, rows2 = H.run_pair(case)
        info = H.describe_pair(case, r1, r2)
        out = []
        if H.aim_overspend_setting(case):
            silent = r1.output is None and r2.output is None
            out.append(('aim-overspend-setting-produces-no-output', silent, info))
            if silent:
                return out
        elif r1.error is not None:
            # an exception of the code under test on an input of the stated family: broken check, not a verdict
            raise RuntimeError('record run of %s raised %s' % (case['mech'], r1.error))
        p = case['params']
        pure = case['mech'] == 'mwem' and p.get('noise') == 'laplace'
        budget = float(p['epsilon']) if pure else H.real_rho(p['epsilon'], p['delta'])
        ch = H.charges(r1, r2)
        key = 'eps' if pure else 'rho'
        total = float(sum(c[key] for c in ch))
        diverged = H.sequence_mismatches(r1, r2, limit=2)
        if diverged:
            total = float('inf')
        top = sorted(ch, key=lambda c: -c[key])[:4]
        det = dict(info, accounting='pure-eps' if pure else 'zCDP', spent=total, budget=budget,
                   ratio=(total / budget if budget > 0 else None),
                   by_kind={k: float(sum(c[key] for c in ch if c['kind'] == k)) for k in sorted({c['kind'] for c in ch})},
                   charged_events=int(sum(c[key] > 0 for c in ch)), largest=top)
        if diverged:
            det['no_finite_price'] = diverged
        out.append(('ledger-within-budget', total <= budget * (1 + TOL), det))
        return out

    def finding_key(self, case, clause, detail):
        return 'bounded:%s:%s' % (case.get('mech'), clause)


PROP = C05()
