"""C03 — estimation attains the global optimum over all distributions (bounded tier: certified bracket)."""
from ..runner import Prop
from ..bounded import infer_common as IC

TEMPLATES = {
    'overlap': [(0, 1), (1, 2), (0,)],
    'cyclic': [(0, 1), (1, 2), (0, 2)],
    'nested': [(0, 1, 2), (0, 1), (2,)],
    'chain4': [(0, 1), (1, 2), (2, 3)],
    'cyclic4': [(0, 1), (1, 2), (2, 3), (3, 0)],
    'conflict': [(0, 1), (1, 0), (1, 2), (1,)],      # the same marginal measured twice (different order, query, noise)
    'nested4': [(0, 1, 2), (2, 3), (1, 2), (3,)],
}
ORDER = ['overlap', 'cyclic', 'nested', 'conflict', 'chain4', 'cyclic4', 'nested4']
QKINDS = ['identity', 'identity', 'prefix', 'tall', 'randsq', 'wide', 'scaled']
FORMS = ['dense', 'sparse', 'operator']


class C03(Prop):
    id = 'C03'
    level = 'other'            # deductive tier: pv/ded/<id>.py (picked up by Prop.deductive); this module is the bounded tier
    technique = ('certified-bracket run-time contract on FactoredInference.estimate: an independent accelerated projected-gradient + active-set solver on the '
                 'explicit full table gives a reference loss whose exact Frank-Wolfe gap brackets the true minimum; the loss of the returned model is '
                 'recomputed from model.project answers')
    explanation = ('Deductive tier (pv/ded/C03.py): shape of the Armijo acceptance test of mirror_descent and the measurement-grouping obligations shared with C04; '
                   'attaining the optimum is decided only by the bounded tier. Bounded tier (labelled bounded): for seeded measurement sets over domains with <= 4 attributes and <= 200 cells (overlapping, nested, cyclic and '
                   'repeated projections; dense / sparse / LinearOperator queries of kinds identity, prefix, random square, tall, wide, scaled; noise scales differing '
                   'by up to 8x; total supplied or estimated) the real estimate() is run with each of MD, RDA and IG. The harness solves '
                   'min 0.5*||(A p - b)/sigma||^2 over p >= 0, sum p = model.total on the full table, computes the Frank-Wolfe gap g_ref of its solution, and checks '
                   'L_ref - g_ref - tol <= L(model) <= L_ref + tol with tol = 1e-3*(L(uniform) - L_ref) + 1e-9, and L(model) <= L(uniform); the loss of the full table model.datavector() (the returned PARAMETERS, '
                   'which RDA / IG refit with GraphicalModel.mle) is within tol of the loss of the stored clique marginals. '
                   '"Given enough iterations" is instantiated as 5000 (quick) / 50000 (thorough) iterations; a case that misses the upper bound by less than 100*tol is re-run once with 4x '
                   'the iterations before it is reported.')
    rule = ('seeded (VERIF_SEED) instances: template in {overlap, cyclic, nested, conflict, chain4, cyclic4, nested4}, attribute sizes 2..4 with <= 200 cells, records N in '
            '{50, 300, 2000} drawn from a skewed Dirichlet, per-measurement query kind/spelling/noise drawn at random, noise regime in {low, medium, high}; each instance x '
            '{MD, RDA, IG} x total {known, estimated alternating}. Non-trivial = at least two measurements share an attribute and L(uniform) - L_ref > 1e-6; distinct by case hash')
    trusted_base = ['numpy dense linear algebra', 'weak duality of the Frank-Wolfe gap for a convex differentiable objective over the scaled simplex',
                    'scipy.sparse / aslinearoperator used only to spell the inputs']
    assumptions = ['decided only on the seeded finite sample described in rule (bounded, not a proof)',
                   '"enough iterations" = 5000 (quick) / 50000 (thorough), escalated once by 4x on a near miss (excess <= 100*tol); observed on the unchanged tree over seeds 0..3: (L(model)-L_ref)/tol <= 0.24 for 119 of 120 cases, one MD case needed the escalation (1.9 -> 0.004)',
                   'tolerance tol = 1e-3*(L(uniform)-L_ref) + 1e-9 as fixed in DESIGN.md',
                   'the reference problem uses model.total as the total (supplied or estimated by the library; its value is the subject of C09)']
    quick_budget_s = 90
    thorough_budget_s = 1500

    # ---------------------------------------------------------------- cases
    def cases(self, tier, seed):
        import numpy as np
        rng = np.random.RandomState(1000003 * (seed + 1) + 3)
        n_inst = 10 if tier == 'quick' else 24
        iters = 5000 if tier == 'quick' else 50000
        insts = []
        for i in range(n_inst):
            tname = ORDER[i % len(ORDER)]
            tpl = TEMPLATES[tname]
            k = max(max(t) for t in tpl) + 1
            while True:
                sizes = [int(rng.randint(2, 5 if k <= 3 else 4)) for _ in range(k)]
                if IC.prod(sizes) <= 200:
                    break
            attrs = list(IC.ATTR_NAMES[:k])
            sz = dict(zip(attrs, sizes))
            N = int(rng.choice([50, 300, 2000]))
            regime = ['low', 'medium', 'high'][(i // len(ORDER) + i) % 3]
            meas = []
            for t in tpl:
                p = [attrs[j] for j in t]
                m = IC.prod(sz[a] for a in p)
                base = {'low': 0.05, 'medium': 0.4, 'high': 0.8}[regime] * N / m
                meas.append(dict(proj=p, qkind=str(rng.choice(QKINDS)), form=str(rng.choice(FORMS)), qseed=int(rng.randint(1 << 30)),
                                 noise=float(base * rng.choice([0.5, 1.0, 2.0, 4.0]))))
            insts.append(dict(template=tname, attrs=attrs, sizes=sizes, N=N, regime=regime, meas=meas, seed=int(rng.randint(1 << 30)),
                              total='known' if i % 2 == 0 else 'estimated'))
        # a chain whose middle clique is the largest: ordering the cliques by size is then NOT a running-intersection order, which the
        # refit of RDA / IG (GraphicalModel.mle) relies on
        meas = [dict(proj=[a, b], qkind='identity', form='dense', qseed=int(rng.randint(1 << 30)), noise=float(rng.choice([2.0, 5.0])))
                for a, b in (('a', 'b'), ('b', 'c'), ('c', 'd'))]
        insts.append(dict(template='chain4-middle-largest', attrs=['a', 'b', 'c', 'd'], sizes=[2, 4, 4, 2], N=300, regime='medium', meas=meas,
                          seed=int(rng.randint(1 << 30)), total='known'))
        # slowest solver first so that the pool is packed well; every instance with every solver
        for solver in ['MD', 'RDA', 'IG']:
            for j, inst in enumerate(insts):
                c = dict(inst, solver=solver, iters=iters)
                if solver == 'RDA':                  # alternate the total mode across solvers as well
                    c['total'] = 'estimated' if inst['total'] == 'known' else 'known'
                yield c

    def nontrivial(self, case):
        ps = [set(m['proj']) for m in case['meas']]
        return any(ps[i] & ps[j] for i in range(len(ps)) for j in range(i + 1, len(ps)))

    def finding_key(self, case, clause, detail):
        return 'bounded:%s' % clause

    # ---------------------------------------------------------------- driver
    def build(self, case):
        """Instance from the case dict alone: (attrs, sizes, dense queries, answers, noises, projections, spelled measurement list)."""
        import numpy as np
        rng = np.random.RandomState(case['seed'])
        attrs, sizes = list(case['attrs']), list(case['sizes'])
        sz = dict(zip(attrs, sizes))
        n = IC.prod(sizes)
        x = rng.multinomial(case['N'], rng.dirichlet(np.ones(n) * 0.3)).astype(float)
        Qs, ys, sig, projs, ms = [], [], [], [], []
        for s in case['meas']:
            p = tuple(s['proj'])
            Q = IC.make_Q(s['qkind'], IC.prod(sz[a] for a in p), s['qseed'])
            M = IC.marg_matrix(attrs, sizes, p)
            y = Q @ (M @ x) + s['noise'] * rng.randn(Q.shape[0])
            Qs.append(Q); ys.append(y); sig.append(float(s['noise'])); projs.append(p)
            ms.append((IC.spell_Q(Q, s['form']), y, float(s['noise']), p))
        A = np.vstack([Q @ IC.marg_matrix(attrs, sizes, p) / s for Q, p, s in zip(Qs, projs, sig)])
        b = np.concatenate([y / s for y, s in zip(ys, sig)])
        return attrs, sizes, Qs, ys, sig, projs, ms, A, b

    def run_case(self, case):
        import numpy as np
        from mbi import Domain, FactoredInference
        attrs, sizes, Qs, ys, sig, projs, ms, A, b = self.build(case)
        n = IC.prod(sizes)

        def run(iters, used=False):
            eng = FactoredInference(Domain(attrs, sizes), iters=iters)
            if used:
                # the statement does not ask for a new estimator object per call: first a short call on other answers
                eng.iters = 3
                eng.estimate([(Q, y[::-1] * 0.5, s * 2.0, p) for Q, y, s, p in ms][::-1], total=None, engine=case['solver'], options={})
                eng.iters = iters
            model = eng.estimate(list(ms), total=float(case['N']) if case['total'] == 'known' else None, engine=case['solver'], options={})
            T = float(model.total)
            Lm = 0.0
            for Q, y, s, p in zip(Qs, ys, sig, projs):
                r = (Q @ np.asarray(model.project(p).datavector(), dtype=float) - y) / s
                Lm += 0.5 * float(r @ r)
            # the same loss read off the model's full table (its parameters), not its stored clique marginals
            tab = np.asarray(model.datavector(), dtype=float)
            self._table = dict(L=IC.ls_loss(A, b, tab), total=float(tab.sum()), finite=bool(np.all(np.isfinite(tab))))
            return T, Lm

        T, Lm = run(case['iters'])
        first_Lm = Lm
        table = dict(self._table)
        p_ref, L_ref, g_ref = IC.solve_simplex_ls(A, b, T)
        L_uni = IC.ls_loss(A, b, np.full(n, T / n))
        tol = 1e-3 * (L_uni - L_ref) + 1e-9
        det = dict(solver=case['solver'], iters=case['iters'], model_total=T, L_model=Lm, L_ref=L_ref, fw_gap_ref=g_ref, L_uniform=L_uni, tol=tol,
                   excess_over_tol=(Lm - L_ref) / tol)
        if L_ref + tol < Lm <= L_ref + 100 * tol and g_ref <= 0.1 * tol:
            # "given enough iterations": a near miss (at least 90% of the way from the uniform start to the optimum) is
            # re-run once with 4x the iterations before it is reported; anything further away is reported directly
            T2, Lm2 = run(4 * case['iters'])
            det.update(escalated_iters=4 * case['iters'], L_model_escalated=Lm2, first_L_model=Lm)
            if T2 == T:
                Lm = Lm2
                det.update(L_model=Lm, excess_over_tol=(Lm - L_ref) / tol)
        slack = 1e-9 * (1 + abs(L_uni))
        out = [('not-worse-than-uniform-start', max(Lm, first_Lm) <= L_uni + slack, det)]
        # "never a worse fit than the uniform starting point": also when stopped after very few iterations
        few = []
        for it in (1, 2, 7, 40):
            Tf, Lf = run(it)
            Luf = IC.ls_loss(A, b, np.full(n, Tf / n))
            few.append(dict(iters=it, L_model=Lf, L_uniform=Luf, ok=bool(Lf <= Luf + 1e-9 * (1 + abs(Luf)))))
        out.append(('few-iterations-not-worse-than-uniform-start', all(f['ok'] for f in few), dict(solver=case['solver'], runs=few)))
        Tu, Lu = run(det.get('escalated_iters', case['iters']) if Lm != first_Lm else case['iters'], used=True)
        out.append(('used-estimator-attains-what-a-new-one-attains', Tu == T and Lu <= max(Lm, L_ref) + tol,
                    dict(solver=case['solver'], L_model_used_estimator=Lu, L_model_new_estimator=Lm, L_ref=L_ref, tol=tol, total_used=Tu, total_new=T)))
        if g_ref > 0.1 * tol:
            # the harness's own certificate is not sharp enough to decide the bracket on this instance: say so, decide nothing
            out.append(('skipped-reference-not-certified', True, det))
            return out
        # the distribution the returned parameters define fits as well as the clique marginals the solver stored next to them
        out.append(('full-table-of-returned-model-fits-as-well-as-its-marginals',
                    table['finite'] and table['L'] <= max(first_Lm, L_ref) + tol + 1e-6 * (1 + abs(first_Lm)),
                    dict(solver=case['solver'], L_full_table=table['L'], L_stored_marginals=first_Lm, L_ref=L_ref, tol=tol, table_total=table['total'])))
        out += [('loss-not-above-certified-optimum', Lm <= L_ref + tol, det),
                ('loss-not-below-certified-lower-bound', Lm >= L_ref - g_ref - tol, det)]
        return out


PROP = C03()
