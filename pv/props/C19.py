"""C19 — public-data reweighting yields valid weights and never a worse fit (bounded tier)."""
from ..runner import Prop
from ..bounded import approx_common as ac


def build(case):
    """-> (public records ndarray n x d, private counts table, measurements)"""
    import numpy as np
    from scipy import sparse
    attrs = list(case['attrs'])
    shape = list(case['shape'])
    d = len(attrs)
    rng = np.random.RandomState(case['seed'])
    size = int(np.prod(shape))
    # private data: skewed joint, optionally confined to a sub-box (so that public records fall outside its support)
    P = rng.dirichlet(np.ones(size) * 0.5).reshape(shape)
    if case['private_support'] == 'subbox':
        mask = np.zeros(shape)
        mask[tuple(slice(0, max(1, s - 1)) for s in shape)] = 1.0
        P = P * mask
        P = P / P.sum()
    counts = rng.multinomial(case['N'], P.ravel()).reshape(shape).astype(float)
    # public records
    n = case['n_public']
    pk = case['public_kind']
    if pk == 'uniform':
        rec = np.stack([rng.randint(0, s, size=n) for s in shape], axis=1)
    elif pk == 'corner':          # concentrated on the last value of every attribute: outside a sub-box private support
        rec = np.stack([np.where(rng.rand(n) < 0.7, s - 1, rng.randint(0, s, size=n)) for s in shape], axis=1)
    elif pk == 'duplicates':      # few distinct records, many copies
        base = np.stack([rng.randint(0, s, size=max(1, n // 5)) for s in shape], axis=1)
        rec = base[rng.randint(0, base.shape[0], size=n)]
    elif pk == 'private-like':
        idx = rng.choice(size, size=n, p=P.ravel())
        rec = np.stack(np.unravel_index(idx, shape), axis=1)
    else:
        raise ValueError(pk)
    rec = rec.reshape(n, d).astype(int)
    meas = []
    for i, cl in enumerate(ac.tup(case['cliques'])):
        x = ac.marg(counts, attrs, cl).ravel()
        m = x.size
        qk = case['qkinds'][i % len(case['qkinds'])]
        if qk == 'eye':
            Q = np.eye(m)
        elif qk == 'sparse':
            Q = sparse.eye(m, format='csr')
        elif qk == 'dense':
            Q = np.vstack([np.eye(m), np.ones((1, m))])
        elif qk == 'prefix':
            Q = np.tril(np.ones((m, m)))
        elif qk == 'partial':
            Q = np.eye(m)[:max(1, m - 1)]
        else:
            raise ValueError(qk)
        sigma = case['sigmas'][i % len(case['sigmas'])]
        y = np.asarray(Q @ x).ravel() + sigma * rng.randn(Q.shape[0])
        meas.append((Q, y, sigma, cl))
    return rec, counts, meas


def weighted_tables(rec, weights, attrs, shape, cliques):
    """Weighted contingency tables by explicit accumulation (independent of Dataset.datavector / np.histogramdd)."""
    import numpy as np
    out = {}
    for cl in cliques:
        cols = [attrs.index(a) for a in cl]
        t = np.zeros([shape[c] for c in cols])
        np.add.at(t, tuple(rec[:, c] for c in cols), weights)
        out[tuple(cl)] = t
    return out


class C19(Prop):
    id = 'C19'
    level = 'other'
    technique = 'run-time contract on the real estimator; weighted contingency tables and L2 loss recomputed by the harness (bounded)'
    explanation = ('Bounded tier only (labelled bounded, never counted as proved). PublicInference(public_dataset, metric="L2").estimate(measurements, total=T or None) '
                   'of the tree under verification is run on random public/private pairs: public record sets of 1..80 records (uniform, concentrated outside the '
                   'private support, few distinct records with many copies, private-like; with and without pre-existing weights, extra and permuted columns), '
                   'private data confined to a sub-box or not, 1..3 measured cliques with explicit Q (identity, sparse, identity+total row, prefix sums, partial), '
                   'noise 0.1..50, totals known (equal to or different from the number of public records) or estimated. Clauses: the result is a Dataset whose '
                   'weights hold one finite nonnegative weight per public record; they sum to T (rtol 1e-6) or to the independently computed inverse-variance '
                   'estimate max(1, .); result.df equals the public data frame (values, order, columns); the input Dataset\'s df and weights are not mutated; '
                   'Dataset.project(cl).datavector() of the result agrees with the harness\'s explicit weighted counting; the L2 loss recomputed from the '
                   'harness\'s weighted counts <= the loss of uniform weights T/n on the same records (1e-9 relative slack); a second estimate() on the same '
                   'PublicInference object (warm weights) satisfies the same clauses.')
    rule = ('cases = (domain of 2..4 attributes of size 2..4, public record kind and count, private support kind and N, 1..3 cliques of size 1..3, query kinds, '
            'noise scales, total known/other/estimated, data seed); seeded random; non-trivial = at least 2 distinct public records and at least one measurement '
            'whose uniform-weight residual is non-zero; distinct by the hash of the case')
    trusted_base = ['numpy.add.at weighted counting and numpy loss recomputation', 'numpy.linalg.pinv (independent estimate of the total)',
                    'pandas DataFrame construction / equality (DataFrame.equals) and mbi.Domain / mbi.Dataset constructors to build the public dataset']
    assumptions = ['bounded: <= 4 attributes of size <= 4, <= 80 public records, <= 3 measurements',
                   'metric L2 only; Q given explicitly; cliques are tuples in domain order in two thirds of the cases and in a seeded permuted order in the others',
                   'the default 250 mirror-descent iterations of entropic_mirror_descent (not a parameter of estimate)',
                   '"never worse than uniform" is an observation of the line search on these inputs; its acceptance test compares against the initial point, '
                   'so no descent lemma backs it (see DESIGN C19)']
    quick_budget_s = 80
    thorough_budget_s = 500

    def cases(self, tier, seed):
        import numpy as np
        rng = np.random.RandomState(seed + 1900)
        n_cases = 120 if tier == 'quick' else 2500
        A = ac.ATTRS
        for i in range(n_cases):
            d = int(rng.randint(2, 5))
            shape = [int(rng.randint(2, 5)) for _ in range(d)]
            k = int(rng.randint(1, 4))
            cl = ac.random_cliques(rng, d, k)
            if i % 3 == 1:
                # a measurement may name its attributes in any order (Q and y then follow that order, not the domain's)
                cl = [tuple(c[j] for j in rng.permutation(len(c))) for c in cl]
            N = int(rng.choice([1, 30, 1000]))
            n_pub = int(rng.choice([1, 2, 5, 20, 80]))
            tk = str(rng.choice(['N', 'n_public', 'other', 'estimated', 'estimated']))
            total = dict(N=float(max(N, 1)), n_public=float(n_pub), other=float(rng.choice([0.5, 7.0, 12345.0])), estimated=None)[tk]
            yield dict(attrs=A[:d], shape=shape, cliques=ac.jl(cl), N=N, n_public=n_pub,
                       public_kind=str(rng.choice(['uniform', 'corner', 'duplicates', 'private-like'])),
                       private_support=str(rng.choice(['full', 'subbox'])),
                       qkinds=[str(rng.choice(['eye', 'sparse', 'dense', 'prefix', 'partial'])) for _ in range(k)],
                       sigmas=[float(rng.choice([0.1, 1.0, 10.0, 50.0])) for _ in range(k)],
                       total=total, seed=int(rng.randint(1 << 30)),
                       public_weights=bool(i % 4 == 0), extra_column=bool(i % 3 == 0), second_call=bool(i % 5 == 0))

    def nontrivial(self, case):
        return case['n_public'] >= 2 and case['N'] >= 1

    def run_case(self, case):
        import numpy as np
        import pandas as pd
        from mbi import Domain, Dataset, PublicInference
        attrs = list(case['attrs'])
        shape = list(case['shape'])
        rec, counts, meas = build(case)
        n = rec.shape[0]
        cliques = [m[3] for m in meas]
        dom = Domain(attrs, shape)
        cols = list(attrs)
        frame = pd.DataFrame(rec, columns=attrs)
        if case.get('extra_column'):
            frame['zz_extra'] = np.arange(n)
            frame = frame[['zz_extra'] + cols[::-1]]          # permuted order + a column outside the domain
        w0 = (np.arange(n, dtype=float) + 1.0) if case.get('public_weights') else None
        public = Dataset(frame, dom, None if w0 is None else w0.copy())
        df_before = public.df.copy(deep=True)
        T_ind = case['total'] if case['total'] is not None else (ac.estimate_total_independent(meas) or 1.0)

        engine = PublicInference(public, metric='L2')
        out = []
        calls = 2 if case.get('second_call') else 1
        for call in range(calls):
            tag = '' if call == 0 else '[second-call]'
            result = engine.estimate([(Q, y.copy(), s, cl) for Q, y, s, cl in meas], total=case['total'])
            w = None if result.weights is None else np.asarray(result.weights, dtype=float)
            shape_ok = isinstance(result, Dataset) and w is not None and w.shape == (n,)
            out.append(('one-weight-per-public-record' + tag, bool(shape_ok), dict(weights_shape=None if w is None else list(w.shape), public_records=n)))
            if not shape_ok:
                return out
            fin = bool(np.all(np.isfinite(w)) and np.all(w >= 0))
            out.append(('weights-finite-nonnegative' + tag, fin, dict(min=float(np.min(w)) if w.size else None, weights=w if not fin else None)))
            if not fin:
                return out
            out.append(('weights-sum-to-total' + tag, abs(float(w.sum()) - T_ind) <= 1e-6 * abs(T_ind),
                        dict(sum=float(w.sum()), total=T_ind, total_given=case['total'] is not None)))
            same = list(result.df.columns) == list(df_before.columns) and result.df.shape == df_before.shape and \
                bool(np.array_equal(result.df.values, df_before.values)) and list(result.df.index) == list(df_before.index)
            out.append(('records-unchanged' + tag, bool(same), dict(columns=list(result.df.columns), expected_columns=list(df_before.columns))))
            not_mut = public.df.equals(df_before) and ((public.weights is None) if w0 is None else bool(np.array_equal(public.weights, w0)))
            out.append(('public-dataset-not-mutated' + tag, bool(not_mut), dict(weights_before=w0, weights_after=public.weights)))
            if not same:
                return out
            mine = weighted_tables(rec, w, attrs, shape, cliques)
            theirs_ok, worst = True, 0.0
            for cl in cliques:
                v = np.asarray(result.project(list(cl)).datavector(flatten=False), dtype=float)
                e = float(np.abs(v - mine[cl]).max()) if v.shape == mine[cl].shape else float('inf')
                worst = max(worst, e)
                theirs_ok = theirs_ok and e <= 1e-9 * max(1.0, T_ind)
            out.append(('result-tables-equal-weighted-counts' + tag, theirs_ok, dict(max_abs_difference=worst)))
            L = ac.l2_loss(mine, meas)
            uni = weighted_tables(rec, np.full(n, T_ind / n), attrs, shape, cliques)
            L0 = ac.l2_loss(uni, meas)
            out.append(('fit-no-worse-than-uniform-weights' + tag, L <= L0 * (1 + 1e-9) + 1e-12, dict(loss=L, uniform_loss=L0, total=T_ind, public_records=n)))
        return out

    def finding_key(self, case, clause, detail):
        return 'bounded:%s' % clause.split('[')[0]


PROP = C19()
