"""C04 — the optimised objective, its gradient and smoothness bound are the stated ones (bounded tier)."""
import itertools
from ..runner import Prop
from ..bounded import infer_common as IC

REGRESSION = dict(   # the input on which _lipschitz returned 4 before /repo commit f35bc1f (true lambda_max = 6)
    kind='regression', metric='L2', seed=4004, total=10.0,
    attrs=['a', 'b', 'c'], sizes=[3, 2, 2],
    meas=[dict(proj=['b'], how='tuple', qkind='identity', form='dense', qseed=0, noise=1.0),
          dict(proj=['b', 'c'], how='tuple', qkind='identity', form='dense', qseed=0, noise=0.5),
          dict(proj=['a', 'b'], how='tuple', qkind='identity', form='dense', qseed=0, noise=1.0)],
    expect_lambda_max=6.0)

TEMPLATES = {
    2: dict(overlap=[(0, 1), (0,), (1,)], perm=[(0, 1), (1, 0), (0,)], nested=[(0, 1), (1,), (1,)]),
    3: dict(overlap=[(0, 1), (1, 2), (1,)], cyclic=[(0, 1), (1, 2), (0, 2)], nested=[(0, 1, 2), (0, 1), (2,), (1, 0)],
            order=[(1,), (1, 2), (0, 1)], perm=[(2, 0, 1), (1, 2), (0, 2), (2,)]),
    4: dict(chain=[(0, 1), (1, 2), (2, 3)], cyclic=[(0, 1), (1, 2), (2, 3), (3, 0)], star=[(0, 1), (0, 2), (3, 0), (0,)],
            nested=[(0, 1, 2), (2, 3), (3,), (2, 1)], overlap=[(1,), (1, 2), (0, 1), (3, 1), (2,)]),
}
QKINDS = ['identity', 'identity', 'scaled', 'diag', 'prefix', 'randsq', 'tall', 'wide']
FORMS = ['dense', 'sparse', 'operator', 'csc', 'sparseop']
NOISES = [0.1, 0.5, 1.0, 2.0, 7.5]


class C04(Prop):
    id = 'C04'
    level = 'other'            # deductive tier: pv/ded/<id>.py (picked up by Prop.deductive); this module is the bounded tier
    technique = ('run-time contract on FactoredInference.fix_measurements/_setup/_marginal_loss/_lipschitz against an independent dense-linear-algebra '
                 'oracle (counting-loop marginalisation matrices, full joint table), central finite differences, dense eigvalsh of the assembled Hessian')
    explanation = ('Deductive tier (pv/ded/C04.py): obligations of the contract module "objective" (normal form produced by fix_measurements, '
                   'grouping loop of _setup, clique selection of _lipschitz) generated from the real AST and discharged by z3. Bounded tier (labelled bounded): for seeded random domains (<= 4 attributes, sizes 2..4) and measurement sets with overlapping / nested / '
                   'cyclic / permuted projections, dense / sparse / LinearOperator / None queries, str / list / tuple projections and unequal noise, the real '
                   'FactoredInference is set up and _marginal_loss is compared with the stated sum over all measurements computed from an explicit joint table; '
                   'the gradient is compared with central finite differences of the independently computed loss along joint-table directions and along '
                   'per-clique cell perturbations, and with the analytic derivative; all spellings are compared; _lipschitz is compared with the largest '
                   'eigenvalue of the independently assembled Hessian (includes the regression input of commit f35bc1f).')
    rule = ('seeded (VERIF_SEED) random cases: 2..4 attributes named age,bx,c,dd0 (sizes 2..4), projection templates overlap/perm/nested/cyclic/chain/star/order '
            'plus random subsets, 2..6 measurements, query kinds identity/scaled/diag/prefix/random square/tall/wide, metric L2 and L1, total in {1,10,100}; '
            'plus the fixed regression input. Non-trivial = at least two measurements share an attribute; distinct by the hash of the full case spec')
    trusted_base = ['numpy dense linear algebra (matmul, eigvalsh)', 'scipy.sparse / aslinearoperator used only to spell the inputs',
                    'mbi.Domain and mbi.Factor used as data carriers for the candidate marginals']
    assumptions = ['decided only on the seeded finite sample described in rule (bounded, not a proof)',
                   'floating-point comparison tolerances: loss 1e-9 relative, gradient 1e-8 relative (analytic) / 1e-5 (finite differences), Lipschitz bound 1e-6 relative',
                   'the Hessian is taken w.r.t. the concatenated clique-marginal vector under the single measurement-to-clique assignment that reproduces the observed loss',
                   'attributes of size 1 are excluded (scipy eigsh rejects 1-column operators)']
    quick_budget_s = 90
    thorough_budget_s = 600

    # ---------------------------------------------------------------- cases
    def cases(self, tier, seed):
        import numpy as np
        rng = np.random.RandomState(1000003 * (seed + 1) + 4)
        yield dict(REGRESSION)
        r2 = dict(REGRESSION, metric='L1', kind='regression-L1')
        r2.pop('expect_lambda_max')
        yield r2
        n = 2000 if tier == 'quick' else 12000
        for i in range(n):
            k = int(rng.choice([2, 3, 3, 4, 4]))
            names = list(IC.ATTR_NAMES[:k])
            rng.shuffle(names)
            attrs = sorted(names) if rng.rand() < 0.5 else names     # domain order independent of projection order
            sizes = [int(rng.randint(2, 5)) for _ in range(k)]
            tkeys = sorted(TEMPLATES[k])
            if rng.rand() < 0.75:
                tname = tkeys[i % len(tkeys)]
                projs = [tuple(names[j] for j in t) for t in TEMPLATES[k][tname]]
            else:
                tname = 'random'
                projs = []
                for _ in range(int(rng.randint(2, 6))):
                    m = int(rng.randint(1, min(3, k) + 1))
                    projs.append(tuple(rng.permutation(names)[:m].tolist()))
            if rng.rand() < 0.3:                                      # a repeated projection measured twice
                projs.append(projs[int(rng.randint(len(projs)))])
            sz = dict(zip(attrs, sizes))
            meas = []
            for p in projs:
                ncell = IC.prod(sz[a] for a in p)
                qk = str(rng.choice(QKINDS))
                form = str(rng.choice(FORMS))
                if qk == 'identity' and rng.rand() < 0.5:
                    form = 'none'
                how = str(rng.choice(['tuple', 'list', 'str'])) if len(p) == 1 else str(rng.choice(['tuple', 'list']))
                meas.append(dict(proj=list(p), how=how, qkind=qk, form=form, qseed=int(rng.randint(1 << 30)),
                                 noise=float(rng.choice(NOISES))))
            yield dict(kind=tname, metric='L2' if i % 3 else 'L1', seed=int(rng.randint(1 << 30)), total=float(rng.choice([1.0, 10.0, 100.0])),
                       attrs=attrs, sizes=sizes, meas=meas)

    def nontrivial(self, case):
        ps = [set(m['proj']) for m in case['meas']]
        return any(ps[i] & ps[j] for i in range(len(ps)) for j in range(i + 1, len(ps)))

    def finding_key(self, case, clause, detail):
        return 'bounded:%s' % clause

    # ---------------------------------------------------------------- driver
    def run_case(self, case):
        import numpy as np
        from mbi import Domain, Factor, CliqueVector, FactoredInference
        out = []
        rng = np.random.RandomState(case['seed'])
        attrs, sizes, metric, total = list(case['attrs']), list(case['sizes']), case['metric'], case['total']
        sz = dict(zip(attrs, sizes))
        ncells = IC.prod(sizes)
        specs = case['meas']
        projs = [tuple(s['proj']) for s in specs]
        Qd = [IC.make_Q(s['qkind'], IC.prod(sz[a] for a in p), s['qseed']) for s, p in zip(specs, projs)]
        Mfull = [IC.marg_matrix(attrs, sizes, p) for p in projs]
        sig = [float(s['noise']) for s in specs]
        x_true = rng.dirichlet(np.ones(ncells) * 0.7) * total
        ys = [Q @ (M @ x_true) + s * rng.randn(Q.shape[0]) for Q, M, s in zip(Qd, Mfull, sig)]

        def joint_loss(p):
            t = 0.0
            for Q, M, y, s in zip(Qd, Mfull, ys, sig):
                r = (Q @ (M @ p) - y) / s
                t += 0.5 * float(r @ r) if metric == 'L2' else float(np.abs(r).sum())
            return t

        def joint_grad(p):
            g = np.zeros(ncells)
            for Q, M, y, s in zip(Qd, Mfull, ys, sig):
                r = (Q @ (M @ p) - y) / s
                g += M.T @ (Q.T @ (r if metric == 'L2' else np.sign(r))) / s
            return g

        def build(forms, hows):
            return [(IC.spell_Q(Q, f), y, s, IC.spell_proj(p, h)) for Q, y, s, p, f, h in zip(Qd, ys, sig, projs, forms, hows)]

        def setup(measurements):
            dom = Domain(attrs, sizes)
            eng = FactoredInference(dom, metric=metric)
            ms = eng.fix_measurements(measurements)
            eng._setup(ms, total)
            return dom, eng, ms

        def clique_mats(eng):
            return {cl: IC.marg_matrix(attrs, sizes, cl) for cl in eng.model.cliques}

        def mu_of(dom, eng, p, mats):
            return CliqueVector({cl: Factor(dom.project(cl), mats[cl] @ p) for cl in eng.model.cliques})

        def full_grad(g):
            """sum over cliques of the gradient blocks expanded to the full table (by attribute name)."""
            G = np.zeros(ncells)
            for cl in g:
                f = g[cl]
                G += IC.marg_matrix(attrs, sizes, tuple(f.domain.attrs)).T @ np.asarray(f.values, dtype=float).reshape(-1)
            return G

        forms = [s['form'] for s in specs]
        hows = [s['how'] for s in specs]

        # ---- (c1) fix_measurements: caller's list unchanged, order/length kept, normal form
        given = build(forms, hows)
        snapshot = list(given)
        proj_snapshot = [list(m[3]) if isinstance(m[3], list) else m[3] for m in given]
        dom = Domain(attrs, sizes)
        eng = FactoredInference(dom, metric=metric)
        ms = eng.fix_measurements(given)
        same_in = (len(given) == len(snapshot) and all(a is b for a, b in zip(given, snapshot))
                   and all((list(m[3]) if isinstance(m[3], list) else m[3]) == ps for m, ps in zip(given, proj_snapshot))
                   and all(type(m[3]) is type(ps) for m, ps in zip(given, proj_snapshot)))
        out.append(('fix-leaves-input-unchanged', bool(same_in), dict(n=len(given))))
        ok_norm, why = len(ms) == len(given), []
        if ok_norm:
            for i, (m, Q, y, s, p) in enumerate(zip(ms, Qd, ys, sig, projs)):
                v = rng.randn(Q.shape[1])
                good = (len(m) == 4 and m[1] is y and m[2] == s and type(m[3]) is tuple and tuple(m[3]) == p
                        and tuple(m[0].shape) == Q.shape and np.allclose(np.asarray(m[0] @ v).reshape(-1), Q @ v, rtol=1e-10, atol=1e-12))
                if not good:
                    ok_norm = False
                    why.append(dict(index=i, proj=repr(m[3]) if len(m) == 4 else None, shape=getattr(m[0], 'shape', None), expected_shape=Q.shape))
        out.append(('fix-keeps-order-length-and-meaning', bool(ok_norm), dict(problems=why[:3], given=len(given), returned=len(ms))))

        eng._setup(ms, total)
        mats = clique_mats(eng)
        cliques = list(eng.model.cliques)

        # ---- (a) loss on consistent marginals == stated sum, each measurement once; (b) gradient
        p0 = rng.dirichlet(np.ones(ncells) * 0.8) * total
        mu0 = mu_of(dom, eng, p0, mats)
        loss0, g0 = eng._marginal_loss(mu0)
        ref0 = joint_loss(p0)
        out.append(('loss-equals-stated-sum', abs(loss0 - ref0) <= 1e-9 * (1 + abs(ref0)), dict(engine_loss=loss0, oracle_loss=ref0, metric=metric)))
        G0 = full_grad(g0)
        Gref = joint_grad(p0)
        scale = float(np.abs(Gref).max()) + 1e-12
        out.append(('gradient-equals-analytic-derivative-on-joint', bool(np.abs(G0 - Gref).max() <= 1e-8 * scale + 1e-10),
                    dict(max_abs_diff=float(np.abs(G0 - Gref).max()), scale=scale, metric=metric)))
        # central finite differences of the independently computed loss along joint-table directions
        fd_bad, fd_n = [], 0
        for _ in range(4):
            d = rng.randn(ncells)
            d /= np.linalg.norm(d)
            h = (1e-3 if metric == 'L2' else 1e-7) * total
            if metric == 'L1':
                def signs(p):
                    return np.concatenate([np.sign(Q @ (M @ p) - y) for Q, M, y in zip(Qd, Mfull, ys)])
                tries = 0
                while tries < 4 and not np.array_equal(signs(p0 + h * d), signs(p0 - h * d)):
                    h *= 0.01
                    tries += 1
                if not np.array_equal(signs(p0 + h * d), signs(p0 - h * d)):
                    continue                      # a kink of the absolute value inside the stencil: derivative undefined there
            fd = (joint_loss(p0 + h * d) - joint_loss(p0 - h * d)) / (2 * h)
            an = float(G0 @ d)
            fd_n += 1
            tol = 1e-5 * max(abs(fd), scale) + 1e-12 * (1 + abs(ref0)) / h
            if abs(fd - an) > tol:
                fd_bad.append(dict(fd=fd, engine_directional=an, h=h))
        if fd_n:
            out.append(('gradient-matches-finite-differences-joint', not fd_bad, dict(bad=fd_bad[:2], directions=fd_n, metric=metric)))

        # marginals produced by the model's own inference from random potentials (consistent marginals of some joint)
        theta = CliqueVector({cl: Factor(dom.project(cl), rng.randn(*[sz[a] for a in cl])) for cl in cliques})
        mub = eng.model.belief_propagation(theta)
        vals, consistent = [], True
        for Q, y, s, p in zip(Qd, ys, sig, projs):
            cands = []
            for cl in cliques:
                if set(p) <= set(cl):
                    f = mub[cl]
                    P = IC.marg_matrix(list(f.domain.attrs), list(f.domain.shape), p)
                    cands.append(P @ np.asarray(f.values, dtype=float).reshape(-1))
            consistent = consistent and all(np.allclose(c, cands[0], rtol=1e-9, atol=1e-9 * total) for c in cands)
            r = (Q @ cands[0] - y) / s
            vals.append(0.5 * float(r @ r) if metric == 'L2' else float(np.abs(r).sum()))
        if consistent:
            lb, _ = eng._marginal_loss(mub)
            out.append(('loss-equals-stated-sum-on-bp-marginals', abs(lb - sum(vals)) <= 1e-9 * (1 + abs(sum(vals))),
                        dict(engine_loss=lb, oracle_loss=sum(vals))))

        # ---- inconsistent marginal vectors: each measurement is read from exactly one clique containing its projection
        P_cl = {}
        for i, p in enumerate(projs):
            for cl in cliques:
                if set(p) <= set(cl):
                    P_cl[(i, cl)] = IC.marg_matrix(list(cl), [sz[a] for a in cl], p)
        options = [[cl for cl in cliques if (i, cl) in P_cl] for i in range(len(projs))]

        def perturbed():
            return {cl: (mats[cl] @ p0) * (1 + 0.3 * rng.uniform(-1, 1, mats[cl].shape[0])) for cl in cliques}

        def as_cv(vecs):
            return CliqueVector({cl: Factor(dom.project(cl), np.array(vecs[cl])) for cl in cliques})

        def term(i, cl, vecs):
            r = (Qd[i] @ (P_cl[(i, cl)] @ vecs[cl]) - ys[i]) / sig[i]
            return 0.5 * float(r @ r) if metric == 'L2' else float(np.abs(r).sum())

        def oracle_loss(assign, vecs):
            return sum(term(i, cl, vecs) for i, cl in enumerate(assign))

        def oracle_grad(assign, vecs):
            g = {cl: np.zeros(mats[cl].shape[0]) for cl in cliques}
            for i, cl in enumerate(assign):
                P = P_cl[(i, cl)]
                r = (Qd[i] @ (P @ vecs[cl]) - ys[i]) / sig[i]
                g[cl] += P.T @ (Qd[i].T @ (r if metric == 'L2' else np.sign(r))) / sig[i]
            return g

        v1, v2 = perturbed(), perturbed()
        l1, g1 = eng._marginal_loss(as_cv(v1))
        l2, _ = eng._marginal_loss(as_cv(v2))
        matching = []
        for assign in itertools.product(*options):
            if (abs(oracle_loss(assign, v1) - l1) <= 1e-9 * (1 + abs(l1)) and abs(oracle_loss(assign, v2) - l2) <= 1e-9 * (1 + abs(l2))):
                matching.append(assign)
        out.append(('loss-reads-each-measurement-from-exactly-one-clique', bool(matching),
                    dict(engine_loss=l1, n_assignments=len(list(itertools.product(*options))),
                         oracle_range=[min(oracle_loss(a, v1) for a in itertools.product(*options)),
                                       max(oracle_loss(a, v1) for a in itertools.product(*options))])))
        if matching:
            def gvec(g, cl):
                f = g[cl]
                # lay the block out in clique order by attribute name
                T = IC.marg_matrix(list(f.domain.attrs), list(f.domain.shape), cl)
                return T @ np.asarray(f.values, dtype=float).reshape(-1)
            best, best_err = None, None
            for assign in matching:
                og = oracle_grad(assign, v1)
                sc = max(float(np.abs(og[cl]).max()) for cl in cliques) + 1e-12
                err = max(float(np.abs(gvec(g1, cl) - og[cl]).max()) for cl in cliques) / sc
                if best_err is None or err < best_err:
                    best, best_err = assign, err
            out.append(('gradient-equals-analytic-derivative-per-clique', best_err <= 1e-8, dict(relative_error=best_err, metric=metric)))
            # central finite differences of the oracle loss in random directions on the marginal vector
            bad, nd = [], 0
            og = oracle_grad(best, v1)
            sc = max(float(np.abs(og[cl]).max()) for cl in cliques) + 1e-12
            for _ in range(4):
                d = {cl: rng.randn(mats[cl].shape[0]) for cl in cliques}
                nrm = np.sqrt(sum(float(d[cl] @ d[cl]) for cl in cliques))
                d = {cl: d[cl] / nrm for cl in cliques}
                h = (1e-3 if metric == 'L2' else 1e-7) * total

                def shifted(t):
                    return {cl: v1[cl] + t * d[cl] for cl in cliques}
                if metric == 'L1':
                    def sg(vecs):
                        return np.concatenate([np.sign(Qd[i] @ (P_cl[(i, cl)] @ vecs[cl]) - ys[i]) for i, cl in enumerate(best)])
                    tries = 0
                    while tries < 4 and not np.array_equal(sg(shifted(h)), sg(shifted(-h))):
                        h *= 0.01
                        tries += 1
                    if not np.array_equal(sg(shifted(h)), sg(shifted(-h))):
                        continue
                fd = (oracle_loss(best, shifted(h)) - oracle_loss(best, shifted(-h))) / (2 * h)
                an = sum(float(gvec(g1, cl) @ d[cl]) for cl in cliques)
                nd += 1
                tol = 1e-5 * max(abs(fd), sc) + 1e-12 * (1 + abs(l1)) / h
                if abs(fd - an) > tol:
                    bad.append(dict(fd=fd, engine_directional=an, h=h))
            if nd:
                out.append(('gradient-matches-finite-differences-per-clique', not bad, dict(bad=bad[:2], directions=nd, metric=metric)))

        # ---- (d) smoothness constant vs dense Hessian of the L2 loss w.r.t. the concatenated clique-marginal vector
        if metric == 'L2' and matching:
            Lc = float(eng._lipschitz(ms))
            lam = 0.0
            for assign in matching[:1]:
                for cl in cliques:
                    H = np.zeros((mats[cl].shape[0],) * 2)
                    for i, c2 in enumerate(assign):
                        if c2 == cl:
                            B = Qd[i] @ P_cl[(i, cl)] / sig[i]
                            H += B.T @ B
                    lam = max(lam, float(np.linalg.eigvalsh(H)[-1]))
            # cross-check of the assembly against second differences of the engine's own loss is implied by the loss clause
            out.append(('lipschitz-bounds-hessian-eigenvalue', Lc >= lam * (1 - 1e-6) - 1e-12, dict(lipschitz=Lc, lambda_max=lam, lambda_max_expected_under_size_order_grouping=case.get('expect_lambda_max'))))

        # ---- (c2) equivalent spellings give the same loss and gradient
        variants = [('all-dense-tuple', ['dense'] * len(specs), ['tuple'] * len(specs)),
                    ('all-sparse-list', ['sparse'] * len(specs), ['list'] * len(specs)),
                    ('all-operator-str', ['operator'] * len(specs), ['str' if len(p) == 1 else 'tuple' for p in projs]),
                    ('none-for-identity', ['none' if s['qkind'] == 'identity' else 'csc' for s in specs], ['list' if len(p) > 1 else 'str' for p in projs])]
        for name, fs, hs in variants:
            try:
                d2, e2, _ = setup(build(fs, hs))
                m2 = clique_mats(e2)
                lv, gv = e2._marginal_loss(mu_of(d2, e2, p0, m2))
                Gv = full_grad(gv)
                okv = abs(lv - loss0) <= 1e-9 * (1 + abs(loss0)) and float(np.abs(Gv - G0).max()) <= 1e-8 * scale + 1e-10
                det = dict(variant=name, loss=lv, base_loss=loss0, max_grad_diff=float(np.abs(Gv - G0).max()))
            except Exception as e:      # the base spelling ran; an equivalent spelling that raises does not "yield the same loss"
                okv, det = False, dict(variant=name, raised='%s: %s' % (type(e).__name__, e))
            out.append(('spelling-' + name + '-same-loss-and-gradient', bool(okv), det))
        return out


PROP = C04()
