"""C10 — structural zeros carry no mass in any answer (bounded tier)."""
from ..runner import Prop
from ..bounded import model_common as MC

ENGINES = ['MD', 'RDA', 'IG']


class C10(Prop):
    id = 'C10'
    level = 'other'
    technique = ('run-time contract tier (bounded): FactoredInference(structural_zeros=...).estimate histories on small random domains; '
                 'every answer of every returned model inspected at the declared cells')
    explanation = ('Bounded tier only in this module (labelled bounded, never counted as proved): structural zeros declared on measured cliques, '
                   'on sub-cliques of measured cliques, on unmeasured attribute groups (also several at once, also whole slices that make a value '
                   'of a sub-attribute impossible) x 3 solvers x histories of 1..3 estimate calls on one estimator (warm_start on/off, growing / '
                   'changed measurement lists, solver switched between calls).  After every call: model.project(S) for every non-empty attribute '
                   'set S and datavector() have mass 0 (MD) / <= 1e-90*total (RDA, IG: the library refits parameters with log(mu + 1e-100)) in '
                   'every cell all of whose completions are declared; no record of synthetic_data() (round and sample) falls in a declared cell; '
                   'every answer is free of NaN and sums to total (rtol 1e-8).')
    rule = ('seeded random cases: domain of 2..4 attributes with sizes 2..4, named clique structure, 1..3 zero cliques placed as '
            'measured / sub-clique / unmeasured / superset, non-empty proper subsets of cells leaving >= 2 allowed joint cells, history of '
            '1..3 calls; non-trivial = every case (zeros are always declared); distinct by the full case dict')
    trusted_base = ['numpy', 'python multiprocessing fork pool of pv.runner']
    assumptions = ['bounded: only the generated cases are decided; domains have <= 4 attributes of size <= 4',
                   'mass <= 1e-90*total counts as zero for RDA/IG (log floor 1e-100 of Factor.log, see DESIGN C10); exact 0 is demanded for MD',
                   'the empty measurement list with IG is not generated here (estimate raises; reported under C08)']
    quick_budget_s = 80
    thorough_budget_s = 500

    def cases(self, tier, seed):
        import numpy as np
        rng = np.random.RandomState(seed + 101)
        n = 0
        reps = 14 if tier == 'quick' else 90
        # the input of the recorded known finding (large potentials lose the normalisation, see known_findings.json):
        # always exercised so that its KNOWN-FINDING line is printed on every run
        yield dict(dom=[['a', 2], ['b', 3]],
                   steps=[dict(ms=[dict(proj=['a'], q='I', noise=1.0, exact=True, y=[80.0, 20.0])], engine='MD', total=1.0)],
                   zeros=[[['b'], [[0]]]], placement='unmeasured', warm=False, iters=50, truth='skewed', seed=int(seed * 1000003))
        for rep in range(reps):
            for eng in ENGINES:
                for hist in (1, 2, 3):
                    for warm in (False, True):
                        for placement in ('measured', 'sub', 'unmeasured', 'mixed'):
                            n += 1
                            dom = MC.rand_dom(rng, int(rng.choice([2, 3, 3, 4, 4])))
                            attrs = MC.dom_attrs(dom)
                            st = MC.structures(len(dom))
                            names = sorted(st)
                            steps = []
                            for h in range(hist):
                                name = str(rng.choice(names))
                                cl = [list(c) for c in st[name]]
                                if h > 0 and rng.rand() < 0.5:          # grown list: previous projections plus new ones
                                    cl = [s['proj'] for s in steps[-1]['ms']] + cl
                                e = eng if (h == 0 or rng.rand() < 0.6) else str(rng.choice(ENGINES))
                                specs = MC.rand_specs(rng, cl, exact=bool(rng.rand() < 0.1))
                                if rng.rand() < 0.08 and e != 'IG':
                                    specs = []                          # empty list: RDA exits early, MD has zero loss
                                steps.append(dict(ms=specs, engine=e, total=(float(rng.choice([1.0, 20.0, 1000.0])) if rng.rand() < 0.6 else None)))
                            measured = [s['proj'] for s in steps[0]['ms']] or [attrs[:2]]
                            zspec = self._zeros(rng, dom, measured, placement)
                            if not zspec:
                                continue
                            yield dict(dom=dom, steps=steps, zeros=zspec, placement=placement, warm=warm,
                                       iters=int(rng.choice([1, 3, 10, 40])), truth=str(rng.choice(['dirichlet', 'skewed'])),
                                       seed=int(seed * 1000003 + n))

    @staticmethod
    def _zeros(rng, dom, measured, placement):
        attrs = MC.dom_attrs(dom)
        multi = [m for m in measured if len(m) >= 2]
        for _ in range(30):
            zs = []
            kinds = [placement] if placement != 'mixed' else list(rng.choice(['measured', 'sub', 'unmeasured', 'super'], size=int(rng.randint(2, 4))))
            for k in kinds:
                if k == 'measured':
                    cl = sorted(measured[rng.randint(len(measured))], key=attrs.index)
                elif k == 'sub' and multi:
                    m = sorted(multi[rng.randint(len(multi))], key=attrs.index)
                    r = int(rng.randint(1, len(m)))
                    cl = sorted(rng.choice(m, size=r, replace=False).tolist(), key=attrs.index)
                elif k == 'super':
                    m = list(measured[rng.randint(len(measured))])
                    extra = [a for a in attrs if a not in m]
                    cl = sorted(m + extra[:1], key=attrs.index)
                else:
                    r = int(rng.randint(1, min(3, len(attrs)) + 1))
                    cl = sorted(rng.choice(attrs, size=r, replace=False).tolist(), key=attrs.index)
                    if any(set(cl) <= set(m) for m in measured) and len(attrs) > 2:
                        continue
                if any(z[0] == cl for z in zs):
                    continue
                zs.append([cl, MC.rand_zero_cells(rng, dom, cl, str(rng.choice(['one', 'few', 'few', 'slice'])))])
            if zs and (~MC.zero_mask(dom, zs)).sum() >= 2:
                return zs
        return []

    def nontrivial(self, case):
        return bool(case['zeros'])

    def finding_key(self, case, clause, detail):
        if clause == 'mass-sums-to-total' and max((detail or {}).get('max_abs_potential', 0), (detail or {}).get('max_abs_potential_incl_warm_start_history', 0)) >= 1e7:
            # float cancellation regime of belief propagation (relative normalisation error ~ eps * max|potential|, see C08): keyed separately, still a violation
            return 'bounded:%s:potentials>=1e7' % clause
        return 'bounded:%s' % clause

    def run_case(self, case):
        import numpy as np
        from mbi import FactoredInference
        dom = case['dom']
        attrs = MC.dom_attrs(dom)
        domain = MC.mk_domain(dom)
        rng = np.random.RandomState(case['seed'] % (2 ** 31))
        np.random.seed(case['seed'] % (2 ** 31))
        zspec = case['zeros']
        zeros = MC.zeros_dict(zspec)
        full_mask = MC.zero_mask(dom, zspec)
        queries = list(MC.all_subsets(attrs))
        queries += [tuple(reversed(q)) for q in queries if len(q) == 2]
        forced = {q: MC.forced_zero(dom, zspec, q) for q in queries}
        engine = FactoredInference(domain, iters=case['iters'], structural_zeros=zeros, warm_start=case['warm'])
        res = {}

        def note(clause, ok, detail):
            # one entry per clause per case: the first failure is kept
            if clause not in res or (res[clause][0] and not ok):
                res[clause] = (ok, detail if not ok else {})

        for k, step in enumerate(case['steps']):
            ntrue = step['total'] if step['total'] is not None else 50.0
            truth = MC.truth_table(rng, MC.dom_shape(dom), case['truth'], ntrue)
            truth = np.where(full_mask, 0.0, truth)               # data respecting the declared zeros
            truth = truth / truth.sum() * ntrue
            ms, _ = MC.build_measurements(dom, step['ms'], truth, rng)
            model = engine.estimate(ms, total=step['total'], engine=step['engine'])
            total = float(model.total)
            bound = 0.0 if step['engine'] == 'MD' else 1e-90 * total
            pmax = 0.0
            for f in model.potentials.values():
                v = np.asarray(f.values, dtype=float)
                v = np.abs(v[np.isfinite(v)])
                pmax = max(pmax, float(v.max()) if v.size else 0.0)
            # with warm start the parameters of the previous call are the starting point of this one: the float-cancellation regime
            # of belief propagation (known finding) is entered through them even if this call's refit parameters are moderate
            pmax_hist = max(pmax, locals().get('pmax_hist', 0.0)) if case.get('warm') else pmax
            ctx = dict(call=k, engine=step['engine'], model_cliques=[list(c) for c in model.cliques], has_marginals=hasattr(model, 'marginals'),
                       max_abs_potential=pmax, max_abs_potential_incl_warm_start_history=pmax_hist)
            for q in queries:
                a, lab = MC.factor_array(model.project(q), q)
                inq = any(set(q) <= set(cl) for cl in model.cliques)
                nan = bool(np.isnan(a).any())
                note('no-answer-is-nan', not nan, dict(ctx, query=list(q), answer=a.tolist()))
                if forced[q].any():
                    worst = float(np.nanmax(np.where(forced[q], a, 0.0))) if not nan else float('nan')
                    ok = (not nan) and bool(np.all(a[forced[q]] <= bound))
                    note('zero-cells-no-mass-in-clique' if inq else 'zero-cells-no-mass-out-of-clique', ok,
                         dict(ctx, query=list(q), mass_in_declared_cells=worst, allowed=bound, answer=a.tolist(), declared=forced[q].tolist()))
                s = float(np.sum(a))
                note('mass-sums-to-total', abs(s - total) <= 1e-8 * total, dict(ctx, query=list(q), sum=s, total=total))
            dv = np.asarray(model.datavector(), dtype=float)
            nan = bool(np.isnan(dv).any())
            note('no-answer-is-nan', not nan, dict(ctx, query='datavector'))
            dvt = dv.reshape(MC.dom_shape(dom))
            note('zero-cells-no-mass-datavector', (not nan) and bool(np.all(dvt[full_mask] <= bound)),
                 dict(ctx, mass_in_declared_cells=float(np.nanmax(np.where(full_mask, dvt, 0.0))) if not nan else 'nan', allowed=bound))
            note('mass-sums-to-total', abs(float(dv.sum()) - total) <= 1e-8 * total, dict(ctx, query='datavector', sum=float(dv.sum()), total=total))
            for method in ('round', 'sample'):
                rows = None if total >= 5 else int(rng.choice([7, 40]))
                df = model.synthetic_data(rows=rows, method=method).df
                t, inrange = MC.counts_table(df, dom, attrs)
                hit = int(t[full_mask].sum())
                note('synthetic-records-avoid-zero-cells', inrange and hit == 0,
                     dict(ctx, method=method, rows=int(len(df)), records_in_declared_cells=hit, values_in_range=inrange))
        return [(c, ok, d) for c, (ok, d) in res.items()]


PROP = C10()
