"""C13 — estimation is history-free; returned models are immutable snapshots (bounded tier)."""
import copy
from ..runner import Prop
from ..bounded import model_common as MC

ENGINES = ['MD', 'RDA', 'IG']


def _same_Q(a, b):
    import numpy as np
    from scipy import sparse
    if a is None or b is None:
        return a is None and b is None
    if sparse.issparse(a) or sparse.issparse(b):
        if not (sparse.issparse(a) and sparse.issparse(b)):
            return False
        return a.shape == b.shape and a.format == b.format and a.dtype == b.dtype and (a != b).nnz == 0
    return type(a) is type(b) and a.shape == b.shape and a.dtype == b.dtype and bool(np.array_equal(a, b, equal_nan=True))


def measurements_unchanged(now, originals, before):
    """`now` is the caller's list after the call, `originals` the tuple objects that were in it (in order),
    `before` a deep copy taken before the call.  -> None or a description of the first difference."""
    import numpy as np
    if len(now) != len(before):
        return 'list length changed from %d to %d' % (len(before), len(now))
    for i, (m, o, c) in enumerate(zip(now, originals, before)):
        if m is not o:
            return 'list element %d was replaced or the list was reordered' % i
        if len(m) != 4:
            return 'element %d is no longer a 4-tuple' % i
        if not _same_Q(m[0], c[0]):
            return 'query matrix of measurement %d changed' % i
        if not (type(m[1]) is type(c[1]) and m[1].shape == c[1].shape and m[1].dtype == c[1].dtype and np.array_equal(m[1], c[1], equal_nan=True)):
            return 'y of measurement %d changed' % i
        if not (m[2] == c[2] and type(m[2]) is type(c[2])):
            return 'noise of measurement %d changed' % i
        if not (m[3] == c[3] and type(m[3]) is type(c[3])):
            return 'proj of measurement %d changed' % i
    return None


class C13(Prop):
    id = 'C13'
    level = 'other'
    technique = ('run-time contract tier (bounded): histories of estimate calls on one FactoredInference object compared with fresh estimators; '
                 'answers of earlier models snapshotted and re-queried; caller inputs compared with deep copies; warm-start optimum compared '
                 'with the cold-start optimum through losses recomputed from model answers')
    explanation = ('Bounded tier only in this module (labelled bounded, never counted as proved): (history) sequences of 2..4 estimate calls on one '
                   'estimator (warm_start=False; a quarter with warm_start=True, where only the immutability and input clauses apply after the first call), varying measurement lists, totals (known/estimated), solvers, options dicts and callbacks, '
                   'structural zeros on/off: the k-th model answers every attribute-subset query and datavector() identically to the model of a '
                   'fresh estimator given deep copies of the same arguments (bit-exact for MD; rtol 1e-9 / atol 1e-12*total for RDA/IG because '
                   'eigsh starts from a random vector); every earlier model answers bit-identically after every later call; the measurement list '
                   '(element identity and order, Q by content incl. sparse, y, noise, proj), the structural-zero dict and the options dict (apart '
                   'from its callback key, see assumptions) are unchanged.  (callback) a callback passed to one call is not invoked by a later call '
                   'that passes none, on the same or on another estimator (shared default options dict).  (warm) with warm_start=True and many '
                   'iterations (also with structural zeros over a shrinking list, where no previous parameter survives), estimation over a grown / changed list reaches the cold-start optimum and keeps the declared zero cells empty: |L_warm - L_cold| <= 1e-3*(L_uniform - '
                   'L_cold) + 1e-9*(1 + L_cold), losses recomputed by the harness from model.project answers.')
    rule = ('seeded random cases: kind history (2..4 steps; each step = structure, query kinds, total, engine, options, callback), kind callback, '
            'kind warm (2..3 steps, one engine, iters 1000 quick / 3000 thorough); domains of 2..4 attributes with sizes 2..4 (<= 3 attributes for kind warm); '
            'non-trivial = at least two estimate calls on the same estimator; distinct by the full case dict')
    trusted_base = ['numpy / scipy.sparse content comparison', 'copy.deepcopy', 'python multiprocessing fork pool of pv.runner']
    assumptions = ['bounded: only the generated histories are decided (<= 4 calls, <= 4 attributes of size <= 4)',
                   'RDA/IG equality with a fresh estimator is asserted to rtol 1e-9 / atol 1e-12*total (random eigsh start vector)',
                   'estimate() writes the key "callback" into an options dict supplied by the caller; the statement lists the measurement list, '
                   'arrays and zero specification only, so the options dict is compared apart from that key',
                   'warm-start optimum: compared at 1000 (quick) / 3000 (thorough) iterations on noisy measurements of strictly positive tables, tolerance 1e-3 of the initial gap']
    quick_budget_s = 85
    thorough_budget_s = 900

    # ------------------------------------------------------------------ cases
    def cases(self, tier, seed):
        import numpy as np
        rng = np.random.RandomState(seed + 307)
        n = 0

        def nxt():
            nonlocal n
            n += 1
            return int(seed * 1000003 + n)

        def step(dom, names, st, eng=None, plain=False):
            name = str(rng.choice(names))
            e = eng or str(rng.choice(ENGINES))
            opt = None
            r = rng.rand()
            if r < 0.15:
                opt = {}
            elif r < 0.3:
                opt = {'stepsize': 1e-4} if e == 'MD' else {'lipschitz': float(rng.choice([5.0, 50.0]))}
            return dict(ms=MC.rand_specs(rng, st[name], plain=plain), engine=e, options=opt, callback=bool(rng.rand() < 0.25),
                        total=(float(rng.choice([1.0, 30.0, 1000.0])) if rng.rand() < 0.6 else None))

        # warm-start optimum (long): first, so that they run alongside the short cases
        n_warm = 3 if tier == 'quick' else 12
        warm_iters = 1000 if tier == 'quick' else 3000
        for i in range(n_warm):
            for eng in ENGINES:
                dom = MC.rand_dom(rng, int(rng.choice([2, 3, 3])), lo=2, hi=3)
                st = MC.structures(len(dom))
                names = sorted(st)
                k = int(rng.choice([2, 2, 3]))
                steps = []
                for h in range(k):
                    s = step(dom, names, st, eng, plain=True)
                    s['options'], s['callback'], s['total'] = None, False, 500.0
                    if h > 0 and rng.rand() < 0.5:
                        s['ms'] = copy.deepcopy(steps[-1]['ms']) + s['ms']        # grown list
                    for m in s['ms']:
                        m['noise'] = float(rng.choice([1.0, 2.0, 5.0]))
                    steps.append(s)
                yield dict(kind='warm', dom=dom, steps=steps, iters=warm_iters, zeros=[], truth='dirichlet', fresh_truth=bool(rng.rand() < 0.5), seed=nxt())
        # warm start with structural zeros over a SHRINKING list: the clique that held the zero pattern disappears from the model, so
        # nothing of the previous parameters is carried over and the zeros must come from the specification again
        for i in range(1 if tier == 'quick' else 4):
            for eng in ENGINES:
                dom = MC.rand_dom(rng, 3, lo=2, hi=3)
                attrs = MC.dom_attrs(dom)
                pair = [attrs[0], attrs[1]]
                zs = []
                for _ in range(20):
                    zs = [[pair, MC.rand_zero_cells(rng, dom, pair, 'few')]]
                    if (~MC.zero_mask(dom, zs)).sum() >= 2:
                        break
                    zs = [[pair, [[0] * len(pair)]]]
                s1 = dict(ms=MC.rand_specs(rng, [attrs], plain=True), engine=eng, options=None, callback=False, total=500.0)
                s2 = dict(ms=MC.rand_specs(rng, [[a] for a in attrs], plain=True), engine=eng, options=None, callback=False, total=500.0)
                for st_ in (s1, s2):
                    for m in st_['ms']:
                        m['noise'] = float(rng.choice([1.0, 2.0, 5.0]))
                yield dict(kind='warm', dom=dom, steps=[s1, s2], iters=warm_iters, zeros=zs, truth='dirichlet', fresh_truth=True, seed=nxt())
        # default-options callback leak
        for eng in ENGINES:
            for _ in range(2 if tier == 'quick' else 8):
                dom = MC.rand_dom(rng)
                st = MC.structures(len(dom))
                s1, s2 = step(dom, sorted(st), st, eng), step(dom, sorted(st), st)
                yield dict(kind='callback', dom=dom, steps=[s1, s2], iters=int(rng.choice([2, 6])), zeros=[], truth='dirichlet', seed=nxt())
        # histories
        reps = 45 if tier == 'quick' else 400
        for rep in range(reps):
            for k in (2, 3, 4):
                for z in (False, True):
                    dom = MC.rand_dom(rng)
                    st = MC.structures(len(dom))
                    names = sorted(st)
                    steps = [step(dom, names, st) for _ in range(k)]
                    if rng.rand() < 0.3:
                        steps[-1] = copy.deepcopy(steps[int(rng.randint(k - 1))])   # the same arguments again later in the history
                    zs = []
                    if z:
                        attrs = MC.dom_attrs(dom)
                        for _ in range(20):
                            r = int(rng.randint(1, min(3, len(attrs)) + 1))
                            cl = sorted(rng.choice(attrs, size=r, replace=False).tolist())
                            zs = [[cl, MC.rand_zero_cells(rng, dom, cl, str(rng.choice(['one', 'few'])))]]
                            if (~MC.zero_mask(dom, zs)).sum() >= 2:
                                break
                            zs = []
                    yield dict(kind='history', warm=bool(rng.rand() < 0.25), dom=dom, steps=steps, iters=int(rng.choice([1, 4, 25])), zeros=zs,
                               truth=str(rng.choice(['dirichlet', 'skewed'])), seed=nxt())

    def nontrivial(self, case):
        return len(case['steps']) >= 2

    def finding_key(self, case, clause, detail):
        return 'bounded:%s' % clause

    # ------------------------------------------------------------------ helpers
    @staticmethod
    def _answers(model, queries):
        import numpy as np
        out = {}
        for q in queries:
            out[q] = MC.factor_array(model.project(q), q)[0].copy()
        out['datavector'] = np.array(model.datavector(), dtype=float)
        return out

    @staticmethod
    def _compare(a, b, exact, total):
        import numpy as np
        for q in a:
            x, y = a[q], b[q]
            if exact:
                ok = x.shape == y.shape and bool(np.array_equal(x, y, equal_nan=True))
            else:
                ok = x.shape == y.shape and (bool(np.array_equal(x, y, equal_nan=True)) or MC.close(x, y, 1e-9, 1e-12 * total))
            if not ok:
                return dict(query=str(q), maxdiff=MC.maxdiff(x, y), first=x.tolist(), second=y.tolist())
        return None

    def _call(self, est, ms, step, cb):
        kw = dict(total=step['total'], engine=step['engine'])
        if cb is not None:
            kw['callback'] = cb
        opts = None
        if step.get('options') is not None:
            opts = dict(step['options'])
            kw['options'] = opts
        return est.estimate(ms, **kw), opts

    # ------------------------------------------------------------------ driver
    def run_case(self, case):
        import numpy as np
        from mbi import FactoredInference
        dom = case['dom']
        attrs = MC.dom_attrs(dom)
        domain = MC.mk_domain(dom)
        rng = np.random.RandomState(case['seed'] % (2 ** 31))
        np.random.seed(case['seed'] % (2 ** 31))
        queries = list(MC.all_subsets(attrs))
        zmask = MC.zero_mask(dom, case['zeros']) if case['zeros'] else None

        def inputs(step, truth=None):
            ntrue = step['total'] if step['total'] is not None else 80.0
            if truth is None:
                truth = MC.truth_table(rng, MC.dom_shape(dom), case['truth'], ntrue)
                if zmask is not None:
                    truth = np.where(zmask, 0.0, truth)
            return MC.build_measurements(dom, step['ms'], truth, rng) + (truth,)

        if case['kind'] == 'warm':
            return self._run_warm(case, domain, inputs, FactoredInference)
        if case['kind'] == 'callback':
            return self._run_callback(case, domain, inputs, FactoredInference)

        zeros = MC.zeros_dict(case['zeros'])
        zeros_before = copy.deepcopy(zeros)
        warm = bool(case.get('warm', False))
        est = FactoredInference(domain, iters=case['iters'], structural_zeros=zeros, warm_start=warm)
        res = {}

        def note(clause, ok, detail):
            if clause not in res or (res[clause][0] and not ok):
                res[clause] = (ok, detail if not ok else {})

        earlier = []            # (model, snapshot of its answers, call index)
        calls = []
        for k, step in enumerate(case['steps']):
            ms, _, _ = inputs(step)
            originals = list(ms)
            before = copy.deepcopy(ms)
            cb = (lambda mu: calls.append(k)) if step['callback'] else None
            model, opts = self._call(est, ms, step, cb)
            total = float(model.total)
            # caller inputs
            diff = measurements_unchanged(ms, originals, before)
            note('measurement-list-and-arrays-unchanged', diff is None, dict(call=k, engine=step['engine'], difference=diff))
            note('structural-zero-specification-unchanged', zeros == zeros_before and all(type(k2) is tuple for k2 in zeros),
                 dict(call=k, now=str(zeros), before=str(zeros_before)))
            if opts is not None:
                rest = {k2: v for k2, v in opts.items() if k2 != 'callback'}
                note('options-dict-unchanged-apart-from-callback-key', rest == step['options'], dict(call=k, now=str(opts), before=step['options']))
            got = self._answers(model, queries)
            if warm and k > 0:
                # warm-started calls legitimately depend on the history: only immutability / input clauses apply
                for m, snap, j in earlier:
                    bad = self._compare(snap, self._answers(m, queries), True, float(m.total))
                    note('earlier-model-answers-unchanged', bad is None, dict(bad or {}, model_of_call=j, after_call=k, engine_of_later_call=step['engine'], warm_start=True))
                earlier.append((model, got, k))
                continue
            # history-free: fresh estimator, deep copies of the same arguments
            fresh = FactoredInference(domain, iters=case['iters'], structural_zeros=copy.deepcopy(zeros_before), warm_start=False)
            fmodel, _ = self._call(fresh, copy.deepcopy(before), step, (lambda mu: None) if step['callback'] else None)
            want = self._answers(fmodel, queries)
            bad = None
            if float(fmodel.total) != total and not (step['engine'] != 'MD' and abs(float(fmodel.total) - total) <= 1e-9 * total):
                bad = dict(model_total=total, fresh_total=float(fmodel.total))
            bad = bad or self._compare(got, want, step['engine'] == 'MD', total)
            if bad is None and [tuple(c) for c in model.cliques] != [tuple(c) for c in fmodel.cliques]:
                bad = dict(model_cliques=str(model.cliques), fresh_cliques=str(fmodel.cliques))
            note('call-k-equals-fresh-estimator-%s' % ('exact' if step['engine'] == 'MD' else 'rtol1e-9'), bad is None,
                 dict(bad or {}, call=k, engine=step['engine'], history=[s['engine'] for s in case['steps'][:k]]))
            # earlier models re-queried
            for m, snap, j in earlier:
                bad = self._compare(snap, self._answers(m, queries), True, float(m.total))
                note('earlier-model-answers-unchanged', bad is None, dict(bad or {}, model_of_call=j, after_call=k, engine_of_later_call=step['engine']))
            earlier.append((model, got, k))
        return [(c, ok, d) for c, (ok, d) in res.items()]

    def _run_callback(self, case, domain, inputs, FactoredInference):
        s1, s2 = case['steps']
        out = []
        for other in (False, True):
            seen = []
            est = FactoredInference(domain, iters=case['iters'])
            ms1, _, _ = inputs(s1)
            est.estimate(ms1, total=s1['total'], engine=s1['engine'], callback=lambda mu: seen.append(1))
            n1 = len(seen)
            est2 = FactoredInference(domain, iters=case['iters']) if other else est
            for eng in (s1['engine'], s2['engine']):
                ms2, _, _ = inputs(s2)
                est2.estimate(ms2, total=s2['total'], engine=eng)
            out.append(('callback-not-invoked-by-later-call-%s' % ('other-estimator' if other else 'same-estimator'), len(seen) == n1,
                        dict(calls_during_first=n1, calls_during_later=len(seen) - n1, engines=[s1['engine'], s2['engine']])))
            assert n1 > 0, 'vacuous callback case: the callback was never invoked by the call that passed it'
        return out

    def _run_warm(self, case, domain, inputs, FactoredInference):
        import numpy as np
        dom = case['dom']
        eng = case['steps'][0]['engine']
        zeros = MC.zeros_dict(case['zeros']) if case.get('zeros') else {}
        warm = FactoredInference(domain, iters=case['iters'], warm_start=True, structural_zeros=copy.deepcopy(zeros))
        truth = None
        last = None
        for step in case['steps']:
            ms, dense, t = inputs(step, None if (truth is None or case.get('fresh_truth')) else truth)
            truth = t
            mw = warm.estimate(ms, total=step['total'], engine=eng)
            last = (ms, dense, step)
        ms, dense, step = last
        mc = FactoredInference(domain, iters=case['iters'], warm_start=False, structural_zeros=copy.deepcopy(zeros)).estimate(copy.deepcopy(ms), total=step['total'], engine=eng)
        total = float(mc.total)
        extra = []
        if zeros:
            # both optima live on the declared support: the warm-started model puts no more mass on impossible cells than the cold one
            zmask = MC.zero_mask(dom, case['zeros'])
            full = MC.dom_attrs(dom)
            zw = float(MC.factor_array(mw.project(full), full)[0][zmask].sum())
            zc = float(MC.factor_array(mc.project(full), full)[0][zmask].sum())
            extra = [('warm-start-keeps-structural-zeros', zw <= max(1e-6 * total, 10 * zc),
                      dict(mass_on_declared_zero_cells_warm=zw, mass_on_declared_zero_cells_cold=zc, total=total, engine=eng))]

        def ans(m):
            return lambda proj: MC.factor_array(m.project(proj), proj)[0]
        Lw, Lc = MC.loss_of_answers(ans(mw), dense), MC.loss_of_answers(ans(mc), dense)
        Lu = MC.loss_of_answers(lambda proj: np.full(MC.sizes(dom, proj), total / MC.ncells(dom, proj)), dense)
        tol = 1e-3 * max(Lu - Lc, 0.0) + 1e-9 * (1 + abs(Lc))
        return extra + [('warm-start-reaches-cold-start-optimum', float(mw.total) == total and abs(Lw - Lc) <= tol,
                 dict(loss_warm=Lw, loss_cold=Lc, loss_uniform=Lu, tolerance=tol, engine=eng, iters=case['iters'], warm_total=float(mw.total), cold_total=total))]


PROP = C13()
