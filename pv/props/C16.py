"""C16 — approximate marginal oracles are normalised, and exact on acyclic structures (bounded tier)."""
import itertools
from ..runner import Prop
from ..bounded import approx_common as ac

KNOWN_KEY = 'gbp-exact:potential-on-region-with-parent'


def _interleave(*lists):
    its = [iter(l) for l in lists]
    while its:
        for it in list(its):
            try:
                yield next(it)
            except StopIteration:
                its.remove(it)


class C16(Prop):
    id = 'C16'
    level = 'other'
    technique = ('run-time contract on the real oracles against a brute-force joint-table oracle '
                 '(bounded; the deductive normalisation-idiom tier is added separately)')
    explanation = ('Bounded tier only (labelled bounded, never counted as proved). '
                   'RegionGraph(convex=False, minimal in {True,False}).belief_propagation (generalized_belief_propagation) and '
                   'FactorGraph(convex=False).belief_propagation (loopy_belief_propagation) of the tree under verification are run on '
                   'generated clique sets / potentials / totals / sweep counts. (a) normalisation on ARBITRARY clique sets (loopy included, '
                   'uncovered and size-1 attributes, finite potentials up to |theta| ~ 300, totals 1e-3..1e5, 1..100 sweeps, warm '
                   'messages): every returned table and every project(attrs) answer for attrs inside a region is finite, nonnegative and sums to '
                   'total (rtol 1e-8). (b) exactness against the dense joint exp(sum of all potentials) computed with numpy only: GBP on clique sets '
                   'with the running-intersection property (chains, stars, chains of 3-cliques, single cliques, disconnected pieces, random '
                   'junction trees <= 6 attributes) after 200/300 sweeps, loopy BP on tree factor graphs after >= 2*(#factors+#variables)+5 sweeps, '
                   'cold and warm messages, max abs error <= 1e-6*total. Exactness cases come in two kinds: potentials only on the maximal input '
                   'cliques, and potentials on every region; failures of the second kind on a region that has a parent are the recorded known '
                   'finding ' + KNOWN_KEY + ' (GBP beliefs use potentials[r] only), any other exactness failure is a violation.')
    rule = ('cases = (kind in {gbp-exact, lbp-exact, gbp-norm, lbp-norm}, attribute sizes 1..3 over <= 6 attributes, clique list (sizes 1..3, tuples in '
            'domain order), minimal flag, sweeps, total, potential seed/scale/kind, potentials on maximal cliques only or on all regions, cold/warm); '
            'fixed structure library first, then seeded random junction trees / factor trees / arbitrary clique sets; '
            'non-trivial = at least 2 cliques and a non-constant potential; distinct by the hash of the whole case')
    trusted_base = ['numpy dense joint table (exp/sum/transpose) as the exact-marginal oracle',
                    'mbi.Domain / mbi.Factor constructors and Factor.values/.domain.attrs used to pass potentials in and read tables out',
                    'junction-tree test by maximum-weight spanning forest (pv.bounded.approx_common.is_rip) selecting the exactness family']
    assumptions = ['bounded: clique sets over <= 6 attributes of size <= 3, cliques of size <= 3; not a proof for all structures',
                   'finite potentials only: potentials with -inf cells (structural zeros) are NOT generated - on a loopy 7-clique set with many -inf cells and warm '
                   'messages GBP returned tables summing to the number of allowed cells instead of total (messages reach -9e307 after nan_to_num and the '
                   'normalisation idiom loses log(total) to rounding); witness kept as pot_kind "neginf" (replayable), reported, outside the stated family',
                   '"enough sweeps" is instantiated as 200/300 sweeps for GBP (messages are damped by 1/2 per sweep) and >= 2*(#factors+#variables)+5 for loopy BP',
                   'FactorGraph(convex=True) / marginal_oracle "pairwise-convex" (convergent_belief_propagation) is excluded: it needs cvxopt, which is not installed',
                   'RegionGraph.project is observed after assigning .marginals = returned tables, as LocalInference.mirror_descent does',
                   'clique tuples list attributes in domain order and are pairwise distinct (RegionGraph.build_graph creates intersections as sorted tuples)',
                   'exactness with potentials on regions that have a parent is expected to fail (known finding, recorded not repaired)',
                   'set iteration order inside RegionGraph depends on PYTHONHASHSEED; results agree to rounding across runs']
    quick_budget_s = 80
    thorough_budget_s = 540

    # ------------------------------------------------------------------ cases
    def cases(self, tier, seed):
        import numpy as np
        rng = np.random.RandomState(seed + 1600)
        quick = tier == 'quick'
        A = ac.ATTRS

        def shape_for(n, lo=2):
            return [int(rng.randint(lo, 4)) for _ in range(n)]

        def pot():
            return dict(pot_seed=int(rng.randint(1 << 30)), pot_scale=float(rng.choice([0.5, 1.0, 3.0])),
                        pot_kind=str(rng.choice(['normal', 'normal', 'spiky'])))

        # the recorded known finding 'normalised:neginf-potentials' (see known_findings.json): always exercised so that its
        # KNOWN-FINDING line is printed on every run.  Other -inf potentials are not generated (same root cause).
        yield dict(kind='gbp-norm', attrs='abcdef', shape=[2, 3, 1, 2, 1, 2],
                   cliques=[['b', 'c', 'f'], ['a', 'd', 'e'], ['d'], ['b', 'e', 'f'], ['a'], ['b', 'c', 'd'], ['a', 'c', 'd']],
                   minimal=False, iters=1, total=0.001, warm=True, pot_seed=312967656, pot_scale=10.0, pot_kind='neginf')

        # ---------------- GBP exactness
        lib = []
        for n in range(2, 7):
            lib.append(ac.chain(n))
        for n in range(3, 6):
            lib.append(ac.star(n))
        for n in range(3, 7):
            lib.append(ac.chain(n, 3))
        lib += [[('a',)], [('a', 'b')], [('a', 'b', 'c')],
                [('a', 'b'), ('c', 'd')], [('a', 'b'), ('b', 'c'), ('d', 'e')], [('a',), ('b', 'c')],
                [('a', 'b', 'c'), ('c', 'd'), ('d', 'e'), ('c', 'f')],
                [('a', 'b', 'c'), ('a', 'b', 'd'), ('a', 'b', 'e')],
                [('a', 'b', 'c'), ('b', 'c', 'd'), ('b', 'e')],
                [('a', 'b'), ('a', 'b', 'c'), ('c', 'd')],              # non-maximal input clique (dropped by convex=False)
                [('a', 'b', 'c'), ('c', 'd', 'e'), ('e', 'f')],
                [('a', 'b', 'c'), ('b', 'a', 'd')], [('c', 'a', 'b'), ('b', 'd', 'a'), ('d', 'e')]]     # shared attributes listed in different orders
        gbp = []
        for cl in lib:
            n = len(set(sum(cl, ())))
            for minimal in (True, False):
                for pot_on in ('maximal', 'all'):
                    c = dict(kind='gbp-exact', attrs=A[:n], shape=shape_for(n), cliques=ac.jl(cl), minimal=minimal, iters=200,
                             total=float(rng.choice([1.0, 10.0, 1000.0])), pot_on=pot_on, warm=False)
                    c.update(pot())
                    gbp.append(c)
        n_rand = 90 if quick else 900
        for i in range(n_rand):
            n = int(rng.randint(3, 7))
            cl = ac.random_junction_tree(rng, n)
            if i % 3 == 1:
                # "forall clique sets": a clique may list its attributes in any order, and two cliques may list the attributes they share
                # in different relative orders
                cl = [tuple(c_[j] for j in rng.permutation(len(c_))) for c_ in cl]
            c = dict(kind='gbp-exact', attrs=A[:n], shape=shape_for(n, 1 if i % 7 == 0 else 2), cliques=ac.jl(cl),
                     minimal=bool(rng.randint(2)), iters=int(rng.choice([200, 300])), total=float(rng.choice([1.0, 10.0, 0.01, 1e4])),
                     pot_on='maximal' if i % 3 else 'all', warm=bool(i % 4 == 0))
            c.update(pot())
            gbp.append(c)

        # ---------------- loopy BP exactness on tree factor graphs
        lbp = []
        flib = [ac.chain(n) for n in range(2, 7)] + [ac.star(n) for n in range(3, 6)] + \
               [[('a', 'b', 'c'), ('c', 'd'), ('d', 'e', 'f')], [('a',), ('a', 'b'), ('b',), ('b', 'c')], [('a', 'b', 'c')],
                [('a', 'b'), ('c', 'd')], [('a',), ('b',)], [('a', 'b', 'c'), ('c', 'd'), ('c', 'e'), ('c',)]]
        for cl in flib:
            n = len(set(sum(cl, ())))
            for warm in (False, True):
                c = dict(kind='lbp-exact', attrs=A[:n], shape=shape_for(n), cliques=ac.jl(cl), iters=2 * (len(cl) + n) + 5,
                         total=float(rng.choice([1.0, 10.0, 1000.0])), warm=warm)
                c.update(pot())
                lbp.append(c)
        for i in range(120 if quick else 1200):
            n = int(rng.randint(2, 7))
            cl = ac.random_factor_tree(rng, n)
            extra = int(rng.randint(2)) if n < 6 else 0          # an attribute no factor touches
            c = dict(kind='lbp-exact', attrs=A[:n + extra], shape=shape_for(n + extra, 1 if i % 7 == 0 else 2), cliques=ac.jl(cl),
                     iters=int(rng.choice([2 * (len(cl) + n) + 5, 100])), total=float(rng.choice([1.0, 10.0, 0.01, 1e4])), warm=bool(i % 4 == 0))
            c.update(pot())
            lbp.append(c)

        # ---------------- normalisation on arbitrary clique sets
        norm = []
        nlib = [ac.cycle(3), ac.cycle(4), ac.cycle(5), ac.all_pairs(4), ac.all_pairs(5), ac.all_triples(4),
                [('a', 'b', 'c'), ('b', 'c', 'd'), ('a', 'd')], [('a', 'b'), ('b', 'c'), ('a', 'c'), ('a',), ('c', 'd')]]
        for cl in nlib:
            n = len(set(sum(cl, ())))
            for kind in ('gbp-norm', 'lbp-norm'):
                for minimal in ((True, False) if kind == 'gbp-norm' else (None,)):
                    for iters in (1, 25):
                        c = dict(kind=kind, attrs=A[:n], shape=shape_for(n), cliques=ac.jl(cl), minimal=minimal, iters=iters,
                                 total=float(rng.choice([1.0, 10.0])), warm=False)
                        c.update(pot())
                        c['pot_scale'] = float(rng.choice([1.0, 10.0, 100.0]))
                        norm.append(c)
        for i in range(260 if quick else 2600):
            n = int(rng.randint(2, 7))
            cl = ac.random_cliques(rng, n, int(rng.randint(1, 8)))
            kind = 'gbp-norm' if i % 2 else 'lbp-norm'
            c = dict(kind=kind, attrs=A[:n], shape=shape_for(n, 1), cliques=ac.jl(cl), minimal=bool(rng.randint(2)) if kind == 'gbp-norm' else None,
                     iters=int(rng.choice([1, 2, 5, 25, 100])), total=float(rng.choice([1.0, 10.0, 1e-3, 1e5])), warm=bool(i % 5 == 0),
                     pot_seed=int(rng.randint(1 << 30)), pot_scale=float(rng.choice([0.1, 1.0, 10.0, 100.0])),
                     pot_kind=str(rng.choice(['normal', 'spiky'])))
            norm.append(c)
        yield from _interleave(gbp, lbp, norm)

    def nontrivial(self, case):
        return len(case['cliques']) >= 2 and case.get('pot_kind') != 'zero'

    # ------------------------------------------------------------------ driver
    def run_case(self, case):
        import numpy as np
        from mbi import Domain, Factor, CliqueVector, RegionGraph, FactorGraph
        kind = case['kind']
        attrs = list(case['attrs'])
        shape = list(case['shape'])
        cliques = ac.tup(case['cliques'])
        total = case['total']
        if sum(map(ord, ''.join(map(str, case['attrs'])))) + len(cliques) + int(case.get('iters', 0)) & 1:
            # attribute names as a program gets them from a csv / json file: equal strings, but not the same objects in the domain and
            # in the cliques (one-character literals are interned by CPython and would hide any identity comparison in the code)
            fresh = lambda a: ''.join(['v_', a])
            cliques = [tuple(fresh(a) for a in cl) for cl in cliques]
            dom = Domain([fresh(a) for a in attrs], shape)
            attrs = [fresh(a) for a in attrs]
        else:
            dom = Domain(attrs, shape)
        gbp = kind.startswith('gbp')
        exact = kind.endswith('exact')
        if gbp:
            model = RegionGraph(dom, list(cliques), total=total, minimal=case['minimal'], convex=False, iters=case['iters'])
        else:
            model = FactorGraph(dom, list(cliques), total=total, convex=False, iters=case['iters'])
        regions = sorted(model.cliques, key=lambda r: (len(r), r))
        my_regions = ac.closure(ac.maximal(cliques), attrs) if gbp else sorted(cliques, key=lambda r: (len(r), r))
        out = [('object-cliques-are-the-regions', sorted(map(tuple, regions)) == sorted(my_regions),
                dict(model_cliques=regions, independent=my_regions))]
        if sorted(map(tuple, regions)) != sorted(my_regions):
            return out
        if exact:
            assert (ac.is_rip(cliques) if gbp else ac.factor_graph_is_forest(cliques)), 'generator produced a structure outside the exactness family'
        mx = set(ac.maximal(cliques))
        has_parent = {r: any(set(r) < set(s) for s in regions) for r in regions}

        def draw(seed):
            rng = np.random.RandomState(seed)
            pots = {}
            for r in regions:
                sh = tuple(shape[attrs.index(a)] for a in r)
                if gbp and exact and case.get('pot_on') == 'maximal' and r not in mx:
                    pots[r] = np.zeros(sh)
                elif case.get('pot_kind') == 'neginf':
                    v = case['pot_scale'] * rng.randn(*sh)
                    k = rng.randint(0, max(1, v.size // 2) + 1)
                    if v.size > 1 and k:
                        v.flat[1 + rng.choice(v.size - 1, size=min(k, v.size - 1), replace=False)] = -np.inf
                    pots[r] = v
                else:
                    pots[r] = ac.draw_table(rng, sh, case['pot_scale'], case['pot_kind'])
            return pots

        def cv(pots):
            return CliqueVector({r: Factor(dom.project(r), pots[r].copy()) for r in regions})

        if case.get('warm'):
            model.belief_propagation(cv(draw(case['pot_seed'] + 1)))      # leaves warm messages behind
        pots = draw(case['pot_seed'])
        mu = model.belief_propagation(cv(pots))
        if gbp:
            model.marginals = mu                                          # as LocalInference.mirror_descent does

        missing = [r for r in regions if r not in mu]
        out.append(('returns-a-table-per-clique', not missing, dict(missing=missing)))
        if missing:
            return out

        # (a) normalisation
        bad = []
        for r in regions:
            a, v = ac.table(mu[r])
            ok, d = ac.valid_table(v, total)
            if not (ok and set(a) == set(r) and v.shape == tuple(shape[attrs.index(x)] for x in a)):
                bad.append(dict(region=r, table=v, **d))
        out.append(('normalised', not bad, dict(bad=bad[:3])))
        subsets = []
        for r in regions:
            for k in range(1, len(r) + 1):
                for s in itertools.combinations(r, k):
                    if s not in subsets:
                        subsets.append(s)
        badp = []
        proj = {}
        for s in subsets:
            a, v = ac.table(model.project(s), s)
            proj[s] = v
            ok, d = ac.valid_table(v, total)
            if not ok:
                badp.append(dict(attrs=s, table=v, **d))
        out.append(('project-normalised', not badp, dict(bad=badp[:3])))

        # (b) exactness
        if exact:
            P = ac.exact_joint(attrs, shape, pots, total)
            flag = bool(gbp and any(has_parent[r] and np.any(pots[r] != 0) for r in regions))
            worst, where = 0.0, None
            for r in regions:
                a, v = ac.table(mu[r], r)
                e = float(np.abs(v - ac.marg(P, attrs, r)).max()) / total
                if not e <= worst:
                    worst, where = e, r
            name = 'gbp-exact' if gbp else 'lbp-exact'
            det = dict(max_abs_error_over_total=worst, region=where, potential_on_region_with_parent=flag)
            if not worst <= 1e-6:
                det.update(returned=ac.table(mu[where], where)[1], exact=ac.marg(P, attrs, where))
            out.append((name, worst <= 1e-6, det))
            worst, where = 0.0, None
            for s in subsets:
                e = float(np.abs(proj[s] - ac.marg(P, attrs, s)).max()) / total
                if not e <= worst:
                    worst, where = e, s
            out.append((name.replace('exact', 'project-exact'), worst <= 1e-6,
                        dict(max_abs_error_over_total=worst, attrs=where, potential_on_region_with_parent=flag)))
        return out

    def finding_key(self, case, clause, detail):
        if clause in ('gbp-exact', 'gbp-project-exact') and detail.get('potential_on_region_with_parent'):
            return KNOWN_KEY
        if clause in ('normalised', 'project-normalised') and case.get('pot_kind') == 'neginf':
            return 'normalised:neginf-potentials'
        return 'bounded:%s' % clause


PROP = C16()
