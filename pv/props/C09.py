"""C09 — known totals are honoured; unknown totals are the best linear estimate (bounded tier)."""
from ..runner import Prop
from ..bounded import infer_common as IC

FULL_KINDS = ['identity', 'scaled', 'diag', 'prefix', 'randsq', 'tall', 'sparsefr']     # ones vector in the row space
DEF_KINDS = ['deficient', 'contrast']                                                   # ones vector NOT in the row space
COPIES = ['factored', 'local', 'public']
COND_MAX = 1e4


class C09(Prop):
    id = 'C09'
    level = 'other'            # deductive tier: pv/ded/<id>.py (picked up by Prop.deductive); this module is the bounded tier
    technique = ('run-time contract on the total-estimation copies (FactoredInference._setup, LocalInference._setup, public_inference.estimate_total) and on '
                 'estimate(..., total=T) against an independent dense pseudo-inverse oracle, swept over query kinds and sizes 1..64')
    explanation = ('Deductive tier (pv/ded/C09.py): contracts pv/contracts/totals.py on the total-estimation copies (known total passed through, formula of the '
                   'combination) discharged by z3. Bounded tier (labelled bounded): (1) estimate(ms, total=T) with the three FactoredInference solvers, LocalInference (convex oracle) and '
                   'PublicInference for several T, with measurements that imply a very different count: model.total == T exactly (public: weights sum to T), and '
                   'every model answer sums to model.total; (1b) one estimator (warm_start on and off, cliques fixed or growing) called five times with different supplied / omitted totals: each call\'s model carries that call\'s total; (2) total omitted: for every size n in 1..64 and query kind in {identity, scaled, diagonal, prefix, '
                   'random full-rank square, tall, sparse full-rank, LinearOperator, None} noise-free answers of a dataset with N >= 1 records give total == N; '
                   'rank-deficient queries whose row space misses the ones vector are ignored (alone: total == 1); (3) several noisy measurements with unequal '
                   'noise give max(1, inverse-variance weighted combination) with the minimum-norm solution computed by numpy pinv/lstsq. '
                   'MixtureInference (fourth copy) needs jax, which is absent from the sandbox: not exercised.')
    rule = ('kinds x sizes enumerated: n in 1..64 (single attribute; n with a factorisation a*b, a,b>=2 also as a two-attribute projection in either order) x 9 query kinds x '
            '3 copies, spelling (dense/sparse/operator/None) and dataset drawn from VERIF_SEED; plus seeded weighted cases (2-4 measurements, noise in [0.2,20], optional '
            'deficient member, optional estimate below 1) and known-total cases (5 engines x 6 totals; 16 repeated-call sequences of 5 calls). Random square / tall / sparse matrices are kept only when '
            'cond(Q) <= 1e4; a membership decision is only asserted when the dense residual of Q^T v = 1 is < 1e-9 or > 1e-3. '
            'Non-trivial = total omitted and at least one query with more than one cell, or a known total different from the implied count; distinct by case hash')
    trusted_base = ['numpy.linalg.pinv / lstsq / cond (dense oracle for the minimum-norm solution and the row-space test)',
                    'scipy.sparse / aslinearoperator used only to spell the inputs']
    assumptions = ['decided only on the enumerated/seeded finite family described in rule (bounded, not a proof)',
                   'relative tolerance 1e-6 on estimated totals; exact equality on supplied totals (1e-9 relative on PublicInference weights, which are normalised in floating point)',
                   'MixtureInference._setup copy not run (jax absent)',
                   'query matrices with cond > 1e4 are outside the explored family']
    quick_budget_s = 90
    thorough_budget_s = 600

    # ---------------------------------------------------------------- cases
    def cases(self, tier, seed):
        import numpy as np
        rng = np.random.RandomState(1000003 * (seed + 1) + 9)
        # (1) known totals
        for eng in ['MD', 'RDA', 'IG', 'local', 'public']:
            for T in [0.5, 1.0, 7, 1000.0, 12345.678, 3.0e6]:
                yield dict(kind='known', engine=eng, total=T, seed=int(rng.randint(1 << 30)))
        # (1b) one estimator called repeatedly (with and without warm start): every call honours ITS OWN total
        for eng in ['MD', 'RDA', 'IG', 'local']:
            for warm in (True, False):
                for grow in (False, True):
                    yield dict(kind='sequence', engine=eng, warm=warm, grow=grow, seed=int(rng.randint(1 << 30)))
        # the sequence on which LocalInference.mirror_descent_auto recursed without bound before fix 994e1cb (see known_findings.json), in every run
        yield dict(kind='sequence', engine='local', warm=True, grow=False, seed=313048240)
        # (2) noise-free sweep, diverse first: sizes interleaved
        sizes = list(range(1, 65))
        order = [sizes[i] for i in np.argsort([(n * 37) % 64 for n in sizes])]
        reps = 2 if tier == 'quick' else 6
        for rep in range(reps):
            for n in order:
                for kind in FULL_KINDS + DEF_KINDS:
                    for copy in COPIES:
                        form = str(rng.choice(['dense', 'sparse', 'operator', 'csc', 'sparseop']))
                        if kind == 'identity' and copy == 'factored' and rng.rand() < 0.5:
                            form = 'none'
                        shape = [n]
                        facs = [(a, n // a) for a in range(2, n) if n % a == 0 and n // a >= 2]
                        if facs and rng.rand() < 0.4:
                            shape = list(facs[int(rng.randint(len(facs)))])
                        yield dict(kind='noisefree', copy=copy, qkind=kind, n=n, shape=shape, swap=bool(rng.rand() < 0.5), form=form,
                                   qseed=int(rng.randint(1 << 30)), seed=int(rng.randint(1 << 30)),
                                   N=int(rng.choice([1, 2, 17, 1000, 54321])), via='estimate' if (copy != 'public' and rng.rand() < 0.15) else 'setup')
        # (3) weighted combinations
        nw = 1200 if tier == 'quick' else 6000
        for i in range(nw):
            k = int(rng.randint(2, 5))
            n = int(rng.choice([1, 2, 3, 5, 8, 13, 21, 34, 64]))
            members = []
            for j in range(k):
                qk = str(rng.choice(FULL_KINDS)) if (j == 0 or rng.rand() < 0.75) else str(rng.choice(DEF_KINDS))
                members.append(dict(qkind=qk, qseed=int(rng.randint(1 << 30)), noise=float(np.exp(rng.uniform(np.log(0.2), np.log(20.0)))),
                                    form=str(rng.choice(['dense', 'sparse', 'operator']))))
            yield dict(kind='weighted', copy=COPIES[i % 3], n=n, members=members, seed=int(rng.randint(1 << 30)),
                       N=int(rng.choice([1, 3, 40, 5000])), below_one=bool(i % 5 == 0))

    def nontrivial(self, case):
        if case['kind'] in ('known', 'sequence'):
            return True
        return case['n'] > 1

    def finding_key(self, case, clause, detail):
        return 'bounded:%s' % clause

    # ---------------------------------------------------------------- helpers
    @staticmethod
    def _total_by_copy(copy, dom, ms, via='setup'):
        """Run the real total estimation of one copy; returns (total, model or None)."""
        from mbi import FactoredInference, LocalInference
        if copy == 'factored':
            eng = FactoredInference(dom, iters=1)
            if via == 'estimate':
                model = eng.estimate(list(ms))
                return model.total, model
            eng._setup(eng.fix_measurements(list(ms)), None)
            return eng.model.total, None
        if copy == 'local':
            eng = LocalInference(dom, marginal_oracle='convex', iters=1)
            if via == 'estimate':
                model = eng.estimate(list(ms))
                return model.total, model
            eng._setup(list(ms), None)
            return eng.model.total, None
        from mbi import public_inference
        return public_inference.estimate_total(list(ms)), None

    @staticmethod
    def _oracle_total(Qs, ys, noises):
        """Independent dense oracle.  -> (total or None if some membership is numerically borderline, details)"""
        import numpy as np
        num = den = 0.0
        used, info = 0, []
        for Q, y, s in zip(Qs, ys, noises):
            v, res, dv = IC.min_norm_ones(Q)
            info.append(dict(residual=res, used=res < 1e-9))
            if 1e-9 <= res <= 1e-3 or dv > 1e-6 * (1 + float(np.abs(v).max())):
                return None, info
            if res < 1e-9:
                var = s * s * float(v @ v)
                num += float(v @ y) / var
                den += 1.0 / var
                used += 1
        if used == 0:
            return 1.0, info
        return max(1.0, num / den), info

    # ---------------------------------------------------------------- driver
    def run_case(self, case):
        import numpy as np
        from mbi import Domain
        out = []
        rng = np.random.RandomState(case['seed'])
        np.random.seed(case['seed'] % (1 << 31))
        if case['kind'] == 'known':
            return self._run_known(case, rng)
        if case['kind'] == 'sequence':
            return self._run_sequence(case, rng)

        if case['kind'] == 'noisefree':
            n, shape = case['n'], case['shape']
            names = ['age', 'bx'][:len(shape)]
            dom = Domain(names, shape)
            proj = tuple(names[::-1]) if (case['swap'] and len(names) > 1) else tuple(names)
            Q = IC.make_Q(case['qkind'], n, case['qseed'])
            if case['qkind'] in ('randsq', 'tall', 'sparsefr') and np.linalg.cond(Q) > COND_MAX:
                return [('skipped-ill-conditioned-query', True, dict(cond=float(np.linalg.cond(Q))))]
            x = rng.multinomial(case['N'], rng.dirichlet(np.ones(n) * 0.5)).astype(float)
            y = Q @ x
            ms = [(IC.spell_Q(Q, case['form']), y, 1.0, proj)]
            exp, info = self._oracle_total([Q], [y], [1.0])
            if exp is None:
                return [('skipped-borderline-row-space-membership', True, dict(info=info))]
            tot, model = self._total_by_copy(case['copy'], dom, ms, case['via'])
            tot = float(tot)
            det = dict(total=tot, N=case['N'], oracle=exp, membership=info)
            if info[0]['used']:
                out.append(('noise-free-full-rank-total-equals-N', abs(tot - case['N']) <= 1e-6 * case['N'], det))
            else:
                out.append(('only-inexpressive-queries-total-is-1', tot == 1, det))
            out.append(('total-at-least-1', tot >= 1, det))
            if model is not None:
                out += self._answers(model, [proj], tot)
            return out

        # weighted
        n = case['n']
        dom = Domain(['age'], [n])
        x = rng.multinomial(case['N'], rng.dirichlet(np.ones(n) * 0.5)).astype(float)
        Qs, ys, noises, ms = [], [], [], []
        for mem in case['members']:
            Q = IC.make_Q(mem['qkind'], n, mem['qseed'])
            if mem['qkind'] in ('randsq', 'tall', 'sparsefr') and np.linalg.cond(Q) > COND_MAX:
                continue
            s = mem['noise']
            y = Q @ x + s * rng.randn(Q.shape[0])
            if mem['qkind'] in DEF_KINDS:
                y = y + 1e3 * rng.randn(Q.shape[0])         # must not influence the result at all
            Qs.append(Q); ys.append(y); noises.append(s)
        if case['below_one']:
            # shift the answers so that every usable member's own estimate v.y lies in (-2, 0.5): combination is below 1
            for i, Q in enumerate(Qs):
                v, res, _ = IC.min_norm_ones(Q)
                if res < 1e-9:
                    target = float(rng.uniform(-2.0, 0.5))
                    ys[i] = ys[i] + v * (target - float(v @ ys[i])) / float(v @ v)
        if not Qs:
            return [('skipped-ill-conditioned-query', True, {})]
        ms = [(IC.spell_Q(Q, mem['form']), y, s, ('age',)) for Q, y, s, mem in zip(Qs, ys, noises, case['members'])]
        exp, info = self._oracle_total(Qs, ys, noises)
        if exp is None:
            return [('skipped-borderline-row-space-membership', True, dict(info=info))]
        tot, _ = self._total_by_copy(case['copy'], dom, ms)
        tot = float(tot)
        det = dict(total=tot, oracle=exp, membership=info, noises=noises)
        out.append(('inverse-variance-combination-of-expressive-queries', abs(tot - exp) <= 1e-6 * max(1.0, abs(exp)), det))
        out.append(('total-at-least-1', tot >= 1, det))
        return out

    def _answers(self, model, projs, tot):
        import numpy as np
        res = []
        for p in projs:
            for q in {tuple(p), tuple(p[:1])}:
                s = float(np.asarray(model.project(q).datavector()).sum())
                res.append(('answers-sum-to-model-total', abs(s - tot) <= 1e-8 * max(1.0, abs(tot)), dict(proj=list(q), answer_sum=s, total=tot)))
        return res

    def _run_sequence(self, case, rng):
        """estimate() called five times on ONE estimator: totals N1 (omitted), N2 (omitted), T (supplied), noisy (omitted), 7 (supplied);
        the measured cliques stay the same (or grow by one when case['grow']).  Each call's model carries that call's total."""
        import numpy as np
        from mbi import Domain, FactoredInference, LocalInference
        names, shape = ['age', 'bx', 'c'], [int(rng.randint(2, 4)) for _ in range(3)]
        dom = Domain(names, shape)
        sz = dict(zip(names, shape))
        projs = [('age',), ('bx',), ('age', 'bx')]
        eng = case['engine']
        if eng == 'local':
            est = LocalInference(dom, marginal_oracle='convex', iters=2, warm_start=case['warm'])
        else:
            est = FactoredInference(dom, iters=2, warm_start=case['warm'])
        plan = [(100, None, 0.0), (250, None, 0.0), (60, 400.0, 0.0), (100, None, 2.0), (30, 7.0, 0.0)]
        out = []
        for step, (N, T, noise) in enumerate(plan):
            ps = list(projs) + ([('bx', 'c')] if case['grow'] and step >= 2 else [])
            ms, Qs, ys, ss = [], [], [], []
            for p in ps:
                n = IC.prod(sz[a] for a in p)
                x = rng.multinomial(N, rng.dirichlet(np.ones(n))).astype(float)
                s = float(rng.choice([0.5, 1.0, 4.0]))
                y = x + noise * s * rng.randn(n)
                ms.append((np.eye(n), y, s, p)); Qs.append(np.eye(n)); ys.append(y); ss.append(s)
            try:
                if eng == 'local':
                    model = est.estimate(ms, total=T)
                else:
                    model = est.estimate(ms, total=T, engine=eng)
            except Exception as e:           # raised inside the repository on an in-family call sequence: the call returned no model at all
                out.append(('repeated-call-returns-a-model', False, dict(step=step, supplied=T, engine=eng, warm_start=case['warm'],
                                                                         raised='%s: %s' % (type(e).__name__, str(e)[:200]))))
                return out
            out.append(('repeated-call-returns-a-model', True, dict(step=step)))
            exp = T if T is not None else self._oracle_total(Qs, ys, ss)[0]
            det = dict(step=step, model_total=float(model.total), expected=exp, supplied=T, engine=eng, warm_start=case['warm'], grown=bool(case['grow'] and step >= 2))
            if T is not None:
                out.append(('known-total-used-exactly[repeated-call]', model.total == T, det))
            elif exp is not None:
                out.append(('inverse-variance-combination-of-expressive-queries[repeated-call]', abs(float(model.total) - exp) <= 1e-6 * max(1.0, abs(exp)), det))
            s_ans = float(np.asarray(model.project(('age',)).datavector()).sum())
            out.append(('answers-sum-to-model-total[repeated-call]', abs(s_ans - float(model.total)) <= 1e-6 * max(1.0, abs(float(model.total))), dict(det, answer_sum=s_ans)))
        return out

    def _run_known(self, case, rng):
        import numpy as np
        from mbi import Domain, Dataset, FactoredInference, LocalInference, PublicInference
        T, eng = case['total'], case['engine']
        names, shape = ['age', 'bx', 'c'], [int(rng.randint(2, 5)) for _ in range(3)]
        dom = Domain(names, shape)
        sz = dict(zip(names, shape))
        projs = [('age', 'bx'), ('bx', 'c'), ('bx',)]
        implied = float(rng.choice([3.0, 250.0, 40000.0]))           # the measurements themselves say something else
        ms = []
        for p in projs:
            n = IC.prod(sz[a] for a in p)
            x = rng.dirichlet(np.ones(n)) * implied
            s = float(rng.choice([0.5, 1.0, 4.0]))
            Q = np.eye(n) if eng in ('local', 'public') or rng.rand() < 0.5 else None
            ms.append((Q, x + s * rng.randn(n), s, p))
        out = []
        if eng == 'public':
            pub = Dataset.synthetic(dom, 25)
            pi = PublicInference(pub)
            est = pi.estimate(ms, total=T)
            w = float(np.sum(pi.weights))
            w2 = float(np.sum(est.weights))
            out.append(('known-total-used-exactly', abs(w - T) <= 1e-9 * T and abs(w2 - T) <= 1e-9 * T, dict(weights_sum=w, returned_weights_sum=w2, total=T, implied=implied)))
            s = float(est.project(('age', 'bx')).datavector().sum())
            out.append(('answers-sum-to-model-total', abs(s - T) <= 1e-8 * T, dict(answer_sum=s, total=T)))
            return out
        if eng == 'local':
            model = LocalInference(dom, marginal_oracle='convex', iters=1).estimate(ms, total=T)
        else:
            model = FactoredInference(dom, iters=1).estimate(ms, total=T, engine=eng)
        out.append(('known-total-used-exactly', model.total == T, dict(model_total=model.total, total=T, implied=implied, engine=eng)))
        out += self._answers(model, projs, float(model.total))
        return out


PROP = C09()
