"""C17 — the convex region-graph oracle (hazan_peng_shashua) solves its variational problem (bounded tier)."""
from ..runner import Prop
from ..bounded import approx_common as ac

BUDGET = {0.1: 3000, 0.5: 6000, 0.9: 20000}          # potential scale > 1
BUDGET_SCALE1 = {0.1: 1500, 0.5: 2000, 0.9: 8000}    # potential scale <= 1


def _interleave(*lists):
    its = [iter(l) for l in lists]
    while its:
        for it in list(its):
            try:
                yield next(it)
            except StopIteration:
                its.remove(it)


class C17(Prop):
    id = 'C17'
    level = 'other'
    technique = ('run-time contract on the real oracle: numeric KKT certificate against an independently assembled constraint matrix, '
                 'plus an independent Lagrangian-dual solver of the same convex programme (bounded)')
    explanation = ('Bounded tier only (labelled bounded, never counted as proved). RegionGraph(convex=True, iters=N, convergence=tol, damping=d)'
                   '.belief_propagation (hazan_peng_shashua) of the tree under verification is run to convergence on trees, loops and dense clique sets '
                   'over <= 4 attributes of size 2..3 with random potentials on EVERY region, d in {0.1, 0.5, 0.9}, totals {1, 10}, tol in {1e-9, 1e-10}, '
                   'minimal in {True, False}. Clauses on the returned tables mu (p_r = mu_r/total): '
                   '(1) regions = the intersection closure of the cliques (computed by the harness); '
                   '(2) convergence within the iteration budget (3000/6000/20000 sweeps for d = 0.1/0.5/0.9; 1500/2000/8000 when the potential scale is 1): mean L1 parent/child disagreement, '
                   'recomputed with numpy over the edges of the object\'s region graph, <= tol; '
                   '(3) every table finite, nonnegative, sums to total; '
                   '(4) any two regions agree on their shared attributes to 1e-7*total (all pairs, not only graph edges); '
                   '(5) KKT stationarity: theta_r - log p_r - 1 lies in the row space of the constraint matrix (normalisation rows + marginal-consistency '
                   'rows for ALL region pairs r subset p) assembled by the harness from the domain alone, least-squares residual <= 1e-6; '
                   '(6) objective sum_r <theta_r,p_r> + H(p_r) >= D(lambda) - 1e-6 for the dual point lambda found by an independent L-BFGS/Newton '
                   'solver of the Lagrangian dual over the Hasse-diagram edges (any dual value upper-bounds the optimum, so this clause is sound '
                   'whatever the dual solver\'s accuracy); (7) the tables equal the dual solver\'s primal tables to 1e-6 (unique optimum).')
    rule = ('cases = (clique list over <= 4 attributes, sizes in {2,3}, damping, total, tolerance, minimal flag, potential seed and scale in {1,2,3}); '
            'fixed library (chains, star, 3-clique chain, triangle, 4-cycle, all pairs, all triples, mixed, sets with measured sub-cliques) then seeded '
            'random clique sets (thorough); non-trivial = the region poset has at least one parent/child pair; distinct by the hash of the case')
    trusted_base = ['numpy.linalg.lstsq (row-space residual)', 'scipy.optimize.minimize L-BFGS-B + harness Newton polish (independent dual solver)',
                    'weak duality of the convexified free-energy programme (unit counting numbers, strictly concave objective)',
                    'mbi.Domain / mbi.Factor constructors and Factor.values used to pass potentials in and read tables out']
    assumptions = ['bounded: <= 4 attributes of size <= 3, potentials N(0, scale^2) with scale <= 3, finite potentials only (-inf out of scope)',
                   'iteration budgets 3000/6000/20000 for damping 0.1/0.5/0.9 (1500/2000/8000 at potential scale 1): >= 5x the largest sweep count observed in calibration '
                   '(570/1035/3728 at scale 3; 129/270/1267 at scale 1)',
                   'the statement is conditional on convergence: the all-triples set {abc,abd,acd,bcd} at damping 0.1 does NOT converge on the unchanged tree '
                   '(feasibility stays O(total) after 20000 sweeps for potential scale 3); damping < 0.5 on that set is outside the calibrated family, '
                   'one such probe is run in the thorough tier and reported as hypothesis-unmet when it does not converge',
                   'FactorGraph(convex=True) (the other "convex" oracle) is not covered: it needs cvxopt, which is not installed',
                   'set iteration order inside RegionGraph (minimal edge choice) depends on PYTHONHASHSEED; every choice must satisfy the clauses']
    quick_budget_s = 80
    thorough_budget_s = 560

    # ------------------------------------------------------------------ cases
    def cases(self, tier, seed):
        import numpy as np
        rng = np.random.RandomState(seed + 1700)
        quick = tier == 'quick'
        trees = [ac.chain(3), ac.chain(4), ac.star(4), ac.chain(4, 3), [('a', 'b'), ('b', 'c'), ('b',)], [('a', 'b', 'c'), ('c', 'd'), ('c',)]]
        loops = [ac.cycle(3), ac.cycle(4), [('a', 'b'), ('b', 'c'), ('b',), ('a', 'c')], [('a', 'b', 'c'), ('b', 'c', 'd'), ('a', 'd')]]
        dense = [ac.all_pairs(4), [('a', 'b'), ('b', 'c'), ('c', 'd'), ('a', 'd'), ('a', 'c')], [('a', 'b', 'c'), ('a', 'b', 'd'), ('a', 'c', 'd')],
                 [('a', 'b', 'c'), ('a', 'd'), ('b', 'd'), ('c', 'd')], ac.all_triples(4)]
        state = dict(k=0)

        def mk(cl, damping, scale=None, shape=None, minimal=None, n_attrs=None):
            n = n_attrs or len(set(sum(cl, ())))
            state['k'] += 1
            k = state['k']
            sc = float(scale if scale is not None else rng.choice([1.0, 2.0]))
            return dict(attrs=ac.ATTRS[:n], shape=shape or [int(rng.randint(2, 4)) for _ in range(n)], cliques=ac.jl(cl), damping=damping,
                        iters=(BUDGET_SCALE1 if sc <= 1.0 else BUDGET)[damping], convergence=[1e-9, 1e-10][k % 2], total=[1.0, 10.0][(k // 2) % 2],
                        minimal=bool(k % 5 != 0) if minimal is None else minimal,
                        pot_seed=int(rng.randint(1 << 30)), pot_scale=sc)

        slow, mid, fast = [], [], []
        all3 = ac.all_triples(4)
        for cl in trees:
            for d in (0.1, 0.5, 0.9):
                for rep in range(1 if (quick and d == 0.9) else 2):
                    fast.append(mk(cl, d))
        for k, cl in enumerate(loops):
            for d in (0.1, 0.5):
                mid.append(mk(cl, d))
            if not quick or k != 2:
                slow.append(mk(cl, 0.9, scale=1.0))
        for cl in dense:
            if cl != all3:
                mid.append(mk(cl, 0.1))
            mid.append(mk(cl, 0.5, scale=1.0, shape=[2, 2, 2, 2] if (quick and cl == all3) else None))
        slow.insert(0, mk(ac.all_pairs(4), 0.9, scale=1.0, shape=[2, 2, 2, 2]))
        if not quick:
            slow.insert(1, mk(dense[1], 0.9, scale=1.0, shape=[2, 2, 2, 2]))
            slow.insert(0, mk(all3, 0.9, scale=1.0))
            probe = mk(all3, 0.1, scale=3.0, shape=[2, 3, 2, 3], minimal=True)
            probe.update(iters=3000, probe_outside_family=True)
            slow.insert(0, probe)
            for cl in loops + dense:
                for d in (0.1, 0.5, 0.9):
                    if cl == all3 and d < 0.5:
                        continue
                    for sc in (2.0, 3.0):
                        (slow if d == 0.9 else mid).append(mk(cl, d, scale=sc))
            for i in range(150):
                n = int(rng.randint(3, 5))
                cl = ac.random_cliques(rng, n, int(rng.randint(2, 6)))
                cl = [c for c in cl if len(c) >= 1]
                if len(ac.closure(cl)) == len(cl) and not ac.subset_pairs(ac.closure(cl)):
                    continue
                d = float(rng.choice([0.1, 0.5, 0.9]))
                if d < 0.5 and len([c for c in ac.maximal(cl) if len(c) == 3]) >= 4:
                    continue
                mid.append(mk(cl, d, n_attrs=n))
        return _interleave(slow, mid, fast)

    def nontrivial(self, case):
        regs = ac.closure(ac.tup(case['cliques']), list(case['attrs']))
        return bool(ac.subset_pairs(regs))

    # ------------------------------------------------------------------ driver
    def run_case(self, case):
        import numpy as np
        from mbi import Domain, Factor, CliqueVector, RegionGraph
        attrs = list(case['attrs'])
        shape = list(case['shape'])
        cliques = ac.tup(case['cliques'])
        total, tol = case['total'], case['convergence']
        dom = Domain(attrs, shape)
        rg = RegionGraph(dom, list(cliques), total=total, minimal=case['minimal'], convex=True, iters=case['iters'],
                         convergence=tol, damping=case['damping'])
        regions = ac.closure(cliques, attrs)
        out = [('regions-are-the-intersection-closure', sorted(map(tuple, rg.cliques)) == sorted(regions),
                dict(model_cliques=sorted(rg.cliques), independent=regions))]
        if not out[0][1]:
            return out
        rng = np.random.RandomState(case['pot_seed'])
        theta = {r: case['pot_scale'] * rng.randn(*ac.region_shape(r, attrs, shape)) for r in regions}
        sweeps = [0]
        mu = rg.belief_propagation(CliqueVector({r: Factor(dom.project(r), theta[r].copy()) for r in regions}),
                                   callback=lambda m: sweeps.__setitem__(0, sweeps[0] + 1))
        missing = [r for r in regions if r not in mu]
        out.append(('returns-a-table-per-region', not missing, dict(missing=missing)))
        if missing:
            return out
        tab = {r: ac.table(mu[r], r)[1] for r in regions}

        # (3) validity
        bad = []
        for r in regions:
            ok, d = ac.valid_table(tab[r], total)
            if not ok:
                bad.append(dict(region=r, table=tab[r], **d))
        out.append(('normalised', not bad, dict(bad=bad[:3])))
        if bad:
            return out

        # (2) convergence: mean L1 disagreement over the edges of the object's own region graph, recomputed with numpy
        edges = [(p, r) for p in regions for r in rg.children[p]]
        l1 = [float(np.abs(ac.marg(tab[p], list(p), r) - tab[r]).sum()) for p, r in edges]
        feas = float(np.mean(l1)) if l1 else 0.0
        conv = feas <= tol * (1 + 1e-6) + 1e-15
        det = dict(mean_l1_disagreement=feas, tolerance=tol, sweeps_used=sweeps[0], budget=case['iters'], edges=len(edges))
        if not conv and case.get('probe_outside_family'):
            out.append(('probe-outside-family:hypothesis-run-to-convergence-unmet(nothing claimed)', True, det))
            return out
        out.append(('converges-within-budget', conv, det))
        if not conv:
            return out

        # (4) agreement on every shared sub-region (all region pairs)
        worst, where = 0.0, None
        for i, r in enumerate(regions):
            for s in regions[i + 1:]:
                z = tuple(a for a in r if a in s)
                if not z:
                    continue
                e = float(np.abs(ac.marg(tab[r], list(r), z) - ac.marg(tab[s], list(s), z)).max())
                if not e <= worst:
                    worst, where = e, (r, s)
        out.append(('agree-on-shared-subregions', worst <= 1e-7 * total, dict(max_abs_disagreement=worst, regions=where, bound=1e-7 * total)))

        # (5) KKT stationarity against the independently assembled constraint matrix (all subset pairs)
        p = {r: tab[r] / total for r in regions}
        A = ac.constraint_matrix(regions, attrs, shape, ac.subset_pairs(regions))
        x = np.concatenate([p[r].ravel() for r in regions])
        g = np.concatenate([theta[r].ravel() for r in regions]) - np.log(x) - 1.0
        lam = np.linalg.lstsq(A.T, g, rcond=None)[0]
        res = float(np.abs(A.T @ lam - g).max())
        out.append(('kkt-stationarity', res <= 1e-6 * max(1.0, float(np.abs(g).max())),
                    dict(lstsq_residual=res, gradient_sup=float(np.abs(g).max()), constraints=A.shape[0], variables=A.shape[1])))
        b = np.zeros(A.shape[0])
        b[:len(regions)] = 1.0
        out.append(('kkt-primal-feasible', float(np.abs(A @ x - b).max()) <= 1e-7, dict(max_constraint_violation=float(np.abs(A @ x - b).max()))))

        # (6)+(7) independent dual solver
        D, Pd, infeas = ac.dual_solve(theta, regions, attrs, shape, ac.cover_edges(regions))
        F = ac.free_energy(theta, p, regions)
        out.append(('objective-not-below-independent-dual-bound', F >= D - 1e-6 * max(1.0, abs(D)),
                    dict(objective=F, dual_upper_bound=D, dual_solver_infeasibility=infeas)))
        if infeas <= 1e-9:
            diff = max(float(np.abs(Pd[r] - p[r]).max()) for r in regions)
            out.append(('equals-independent-optimum', diff <= 1e-6, dict(max_abs_difference=diff, dual_solver_infeasibility=infeas)))
        return out

    def finding_key(self, case, clause, detail):
        return 'bounded:%s' % clause


PROP = C17()
