"""C18 — approximate (local) estimation is valid, and exact when nothing is relaxed (bounded tier)."""
from ..runner import Prop
from ..bounded import approx_common as ac

FEW_ITERS_KEY = 'fit-no-worse-than-uniform:few-iterations'
EXACT_ITERS = 1000
FACTORED_ITERS = 3000
FINAL_ITERS = 30000
CYCLE_KEY = 'bounded:disjoint-cliques-reach-exact-optimum:period-2-cycle'
LAST_NOT_BEST_KEY = 'fit-no-worse-than-uniform:last-iterate-not-best'
ESCALATED_ITERS = 6000


def _interleave(*lists):
    its = [iter(l) for l in lists]
    while its:
        for it in list(its):
            try:
                yield next(it)
            except StopIteration:
                its.remove(it)


def build_measurements(case):
    """Private data (random skewed joint, N records) -> noisy linear measurements (Q, y, sigma, clique) with explicit Q."""
    import numpy as np
    from scipy import sparse
    attrs = list(case['attrs'])
    shape = list(case['shape'])
    rng = np.random.RandomState(case['seed'])
    P = rng.dirichlet(np.ones(int(np.prod(shape))) * 0.5).reshape(shape)
    counts = rng.multinomial(case['N'], P.ravel()).reshape(shape).astype(float)
    meas = []
    for i, cl in enumerate(ac.tup(case['cliques'])):
        x = ac.marg(counts, attrs, cl).ravel()
        n = x.size
        qk = case['qkinds'][i % len(case['qkinds'])]
        if qk == 'eye':
            Q = np.eye(n)
        elif qk == 'sparse':
            Q = sparse.eye(n, format='csr')
        elif qk == 'dense':
            Q = np.vstack([np.eye(n), np.ones((1, n))])
        elif qk == 'prefix':
            Q = np.tril(np.ones((n, n)))
        elif qk == 'partial':          # does not determine the total
            Q = np.eye(n)[:max(1, n - 1)]
        else:
            raise ValueError(qk)
        sigma = case['sigmas'][i % len(case['sigmas'])]
        y = np.asarray(Q @ x).ravel() + sigma * rng.randn(Q.shape[0])
        meas.append((Q, y, sigma, cl))
    return meas


def _enforced_tolerance():
    """The tolerance the estimator enforces is the constant its own stopping test compares the oracle's feasibility measure with
    (`if model.primal_feasibility(mu) < <constant>: break` in mirror_descent_auto), read from the tree under verification; 1.0 if that
    test cannot be found (the deductive tier then reports the wiring obligation as undecided)."""
    import ast
    from .. import frontend
    try:
        fn, _s, _h = frontend.get_function('src/mbi/local_inference.py', 'LocalInference.mirror_descent_auto')
        for n in ast.walk(fn):
            if isinstance(n, ast.If) and len(n.body) == 1 and isinstance(n.body[0], ast.Break) and isinstance(n.test, ast.Compare) \
                    and isinstance(n.test.left, ast.Call) and ast.unparse(n.test.left.func).endswith('.primal_feasibility') \
                    and isinstance(n.test.comparators[0], ast.Constant) and isinstance(n.test.comparators[0].value, (int, float)):
                return float(n.test.comparators[0].value)
    except Exception:
        pass
    return 1.0


class C18(Prop):
    id = 'C18'
    level = 'other'
    technique = ('run-time contract on the real estimator for every available marginal oracle; loss recomputed by the harness; '
                 'disjoint-clique optimum cross-checked against exact estimation (bounded)')
    explanation = ('Bounded tier only (labelled bounded, never counted as proved). LocalInference(domain, marginal_oracle in {convex, approx, pairwise}, '
                   'iters in {1, 50, 300}).estimate(measurements, total=T or None) of the tree under verification is run on generated measurement sets '
                   '(explicit Q: identity, sparse identity, identity+total row, prefix sums, partial identity; noise 0.1..50; 1..6 measured cliques incl. '
                   'loops, repeated and nested cliques; known and estimated totals). Clauses: completes (an exception IS the violation; the defect fixed in '
                   'commit 2770dcf was of this kind); model.total equals the independent inverse-variance estimate (or T); for every measured clique '
                   'model.project(clique) is finite, nonnegative and sums to total (rtol 1e-6); L2 loss recomputed by the harness from those answers <= loss '
                   'of the uniform start (+1e-9 relative); with the convex oracle the mean L1 parent/child disagreement of model.marginals, recomputed with '
                   'numpy, is < 1.0 (the tolerance mirror_descent_auto enforces). Disjoint clique families: with iters=%d every oracle reaches the loss of '
                   'FactoredInference(iters=%d) on the same measurements (and of an independent projected-gradient solver of the separable problem, whichever is lower) within 1e-3*(L_uniform - L_opt) + 1e-6. '
                   'Known finding recorded by key %s: the last mirror-descent step is never checked, so with < 10 iterations the fit can be worse '
                   'than the uniform start.' % (EXACT_ITERS, FACTORED_ITERS, FEW_ITERS_KEY))
    rule = ('cases = (kind in {general, disjoint-exact}, clique list over <= 5 attributes of size 2..3, oracle, iters, total known/estimated, '
            'per-measurement noise and query kind, data seed and N in {1, 20, 1000}); library structures x oracles x iteration counts first, then '
            'seeded random clique sets; non-trivial = at least 2 measurements; distinct by the hash of the case')
    trusted_base = ['numpy recomputation of the L2 loss and of marginals', 'numpy.linalg.pinv (independent estimate of the total)',
                    'mbi.FactoredInference(iters=%d) as the reference optimum of the disjoint-clique clause (its own correctness is C03/C08)' % FACTORED_ITERS,
                    'mbi.Domain constructor; Factor.values/.domain.attrs to read tables']
    assumptions = ['bounded: <= 5 attributes of size <= 3, <= 6 measurements',
                   'marginal_oracle "pairwise-convex" (FactorGraph(convex=True)) is excluded: it needs cvxopt, which is not installed',
                   'LocalInference does not call fix_measurements: Q is always given explicitly and proj as a tuple in domain order',
                   'iteration counts {1, 50, 300}; iters=300 only on structures with <= 6 regions (cost); disjoint-clique exactness with iters=%d and ONE noise scale for all '
                   'measurements of a case, plus cases with a clique measured twice at scales s and 2s..3s (with noise scales 0.1 and 10 mixed, 1000 iterations leave a relative gap of 3.7e-3 and 10000 are needed; calibration); '
                   'mirror descent shows long plateaus on some inputs (loss 483 after 1000 iterations, optimum 0.77 reached by 2000), so a case failing at %d iterations is '
                   're-run with %d and then %d before it is judged ("enough iterations")' % (EXACT_ITERS, EXACT_ITERS, ESCALATED_ITERS, FINAL_ITERS),
                   'fit clause with iters < 10 fails on the unchanged tree (known finding, recorded not repaired); for iters >= 10 it is enforced',
                   'metric L2, numpy backend, no structural zeros, warm_start=False']
    quick_budget_s = 80
    thorough_budget_s = 560

    # ------------------------------------------------------------------ cases
    def cases(self, tier, seed):
        import numpy as np
        rng = np.random.RandomState(seed + 1800)
        quick = tier == 'quick'
        A = ac.ATTRS
        QK = ['eye', 'sparse', 'dense', 'prefix', 'partial']

        def mk(kind, cl, oracle, iters, total_known=None, n_attrs=None):
            n = n_attrs or len(set(sum(cl, ())))
            N = int(rng.choice([1, 20, 1000, 1000]))
            known = bool(rng.randint(2)) if total_known is None else total_known
            return dict(kind=kind, attrs=A[:n], shape=[int(rng.randint(2, 4)) for _ in range(n)], cliques=ac.jl(cl), oracle=oracle, iters=iters,
                        total=float(max(N, 1)) if known else None, N=N, seed=int(rng.randint(1 << 30)),
                        sigmas=[float(rng.choice([0.1, 1.0, 10.0, 50.0])) for _ in range(min(len(cl), 2))],
                        qkinds=[str(rng.choice(QK[:4] if kind == 'disjoint-exact' else QK)) for _ in range(min(len(cl), 3))])

        small = [ac.chain(3), ac.cycle(3), [('a', 'b'), ('c',)], [('a',), ('a', 'b'), ('b', 'c')], [('a', 'b')], [('a', 'b'), ('a', 'b'), ('b',)],
                 [('a',), ('b',), ('c',)], ac.star(4)]
        big = [ac.all_pairs(4), [('a', 'b', 'c'), ('b', 'c', 'd'), ('a', 'd')], ac.chain(5), ac.cycle(4), [('a', 'b', 'c'), ('c', 'd', 'e')],
               # region graphs deeper than two levels: "diamonds" (two overlaps of one clique that overlap again: the message schedule of
               # the approx oracle matters) and nested marginals (a region with both parents and children)
               [('a', 'b', 'c'), ('a', 'b', 'd'), ('b', 'c', 'e')], [('a', 'b', 'c'), ('a', 'b', 'd'), ('a', 'c', 'd')],
               [('a',), ('a', 'b'), ('a', 'b', 'c')], [('a', 'b', 'c'), ('b', 'c', 'd'), ('b', 'e')]]
        gen_slow, gen = [], []
        for cl in small:
            for oracle in ('pairwise', 'convex', 'approx'):
                gen_slow.append(mk('general', cl, oracle, 300))
                for iters in (1, 50):
                    gen.append(mk('general', cl, oracle, iters))
        for cl in big:
            for oracle in ('pairwise', 'convex', 'approx'):
                for iters in (1, 50):
                    gen.append(mk('general', cl, oracle, iters))
            gen_slow.append(mk('general', cl, 'pairwise', 300))
        n_rand = 40 if quick else 700
        for i in range(n_rand):
            n = int(rng.randint(2, 6))
            cl = ac.random_cliques(rng, n, int(rng.randint(1, 6)))
            iters = int(rng.choice([1, 50, 50, 300])) if len(ac.closure(cl)) <= 6 else int(rng.choice([1, 50]))
            oracle = str(rng.choice(['pairwise', 'convex', 'approx']))
            (gen_slow if iters == 300 else gen).append(mk('general', cl, oracle, iters, n_attrs=n))
        if not quick:
            for cl in big:
                for oracle in ('convex', 'approx'):
                    gen_slow.append(mk('general', cl, oracle, 300))

        dis = []
        dlib = [[('a', 'b'), ('c',)], [('a',), ('b',), ('c',)], [('a', 'b'), ('c', 'd')], [('a', 'b', 'c')], [('a', 'b'), ('c', 'd', 'e')]]
        for rep in range(2 if quick else 16):
            for cl in dlib:
                c = mk('disjoint-exact', cl, None, EXACT_ITERS)
                del c['oracle']
                c['oracles'] = ['pairwise', 'convex', 'approx']
                c['sigmas'] = c['sigmas'][:1]          # one noise scale for all measurements (conditioning; see assumptions)
                dis.append(c)
        # a clique measured twice at different (well-conditioned: factor 2..3) noise scales: the weighting 1/sigma^2 matters
        for rep in range(1 if quick else 8):
            for cl in ([('a', 'b'), ('a', 'b'), ('c',)], [('a',), ('b', 'c'), ('a',), ('b', 'c')], [('a',), ('b', 'c')]):
                c = mk('disjoint-exact', cl, None, EXACT_ITERS)
                del c['oracle']
                c['oracles'] = ['pairwise', 'convex', 'approx']
                s0 = float(rng.choice([0.5, 1.0, 2.0]))
                s1 = s0 * float(rng.choice([2.0, 3.0]))
                # every repeated clique at both scales; the two-clique structure has one scale per clique
                c['sigmas'] = [s0, s1, s0] if len(cl) == 3 else [s0, s0, s1, s1] if len(cl) == 4 else [s0, s1]
                c['N'] = 1000
                c['total'] = 1000.0 if c['total'] is not None else None
                c['qkinds'] = ['eye', 'eye', 'eye'] if len(cl) == 3 else ['eye', 'dense']
                c['tight'] = True
                dis.append(c)
        # the recorded known finding (period-2 cycle of mirror_descent_auto), so that every run exercises and reports it
        known = dict(kind='disjoint-exact', attrs=A[:3], shape=[2, 2, 3], cliques=ac.jl([('a',), ('b', 'c')]), iters=EXACT_ITERS, total=1000.0, N=1000,
                     seed=1049956192, sigmas=[0.5, 1.5], qkinds=['eye', 'dense'], oracles=['pairwise', 'convex', 'approx'], tight=True)
        known2 = dict(kind='general', attrs=A[:4], shape=[2, 2, 2, 3], cliques=ac.jl(ac.all_pairs(4)), oracle='pairwise', iters=300, total=1.0, N=1,
                      seed=104503663, sigmas=[0.1, 0.1], qkinds=['eye', 'eye', 'sparse'])
        return _interleave([known, known2], gen_slow, dis, gen)

    def nontrivial(self, case):
        return len(case['cliques']) >= 2

    # ------------------------------------------------------------------ driver
    def run_case(self, case):
        import numpy as np
        from mbi import Domain
        attrs = list(case['attrs'])
        shape = list(case['shape'])
        dom = Domain(attrs, shape)
        meas = build_measurements(case)
        T_ind = case['total'] if case['total'] is not None else (ac.estimate_total_independent(meas) or 1.0)
        uni = {cl: np.full(ac.region_shape(cl, attrs, shape), T_ind / np.prod(ac.region_shape(cl, attrs, shape))) for _, _, _, cl in meas}
        L0 = ac.l2_loss(uni, meas)
        ref = None
        if case['kind'] == 'disjoint-exact':
            cl_list = ac.tup(case['cliques'])
            assert all(a == b or not (set(a) & set(b)) for i, a in enumerate(cl_list) for b in cl_list[i + 1:]), 'generator: distinct cliques must be disjoint'
            from mbi import FactoredInference
            fm = FactoredInference(dom, iters=FACTORED_ITERS).estimate([(Q, y.copy(), s, cl) for Q, y, s, cl in meas], total=case['total'])
            L_fi = ac.l2_loss({cl: ac.table(fm.project(cl), cl)[1] for _, _, _, cl in meas}, meas)
            # independent optimum: the problem separates over the disjoint cliques (accelerated projected gradient on the scaled simplex)
            L_star, gap = 0.0, 0.0
            for cl in sorted(set(cl_list)):
                ms = [m for m in meas if m[3] == cl]
                _, f, g = ac.simplex_least_squares([m[0] for m in ms], [m[1] for m in ms], [m[2] for m in ms], T_ind)
                L_star, gap = L_star + f, gap + g
            ref = dict(exact_estimation_loss=L_fi, independent_optimum=L_star, independent_optimum_gap_bound=gap)
        out = []
        oracles = case['oracles'] if 'oracles' in case else [case['oracle']]
        for oracle in oracles:
            tag = '[%s]' % oracle if len(oracles) > 1 else ''
            res = self._estimate(case, dom, meas, oracle, case['iters'])
            if 'exception' in res:
                out.append(('completes' + tag, False, res))
                continue
            out.append(('completes' + tag, True, {}))
            model = res['model']
            T = float(model.total)
            out.append(('total-is-given-or-inverse-variance-estimate' + tag, abs(T - T_ind) <= 1e-6 * max(1.0, abs(T_ind)),
                        dict(model_total=T, independent=T_ind)))
            tabs, bad = self._tables(model, meas, attrs, shape, T_ind)
            out.append(('measured-tables-valid' + tag, not bad, dict(bad=bad[:3])))
            if bad:
                continue
            L = ac.l2_loss(tabs, meas)
            fit_ok = L <= L0 * (1 + 1e-9) + 1e-9
            fit_det = dict(loss=L, uniform_loss=L0, iters=case['iters'], oracle=oracle)
            if not fit_ok and case['iters'] >= 10:
                # diagnostic for the finding key: was an earlier iterate no worse than uniform (the estimator hands back its last
                # iterate without comparing it with anything)?
                traj = []

                def watch(mu):
                    try:
                        traj.append(ac.l2_loss({cl: np.asarray(mu[cl].datavector(flatten=False), dtype=float) for _, _, _, cl in meas if cl in mu}, meas))
                    except Exception:
                        pass
                try:
                    from mbi import LocalInference
                    np.random.seed(case['seed'] % (1 << 31))
                    LocalInference(dom, marginal_oracle=oracle, iters=case['iters']).estimate(
                        [(Q, y.copy(), s, cl) for Q, y, s, cl in meas], total=case['total'], callback=watch)
                except Exception:
                    traj = []
                if traj:
                    best = float(min(traj))
                    fit_det.update(best_iterate_loss=best, iterates_seen=len(traj), last_iterates=[float(x) for x in traj[-4:]],
                                   last_iterate_not_best=bool(best <= L0 * (1 + 1e-9) + 1e-9))
            out.append(('fit-no-worse-than-uniform' + tag, fit_ok, fit_det))
            if oracle == 'convex':
                # overlap within the tolerance the estimator enforces (mean L1 parent/child disagreement < 1)
                mg = {tuple(r): ac.table(model.marginals[r], r)[1] for r in model.cliques}
                edges = [(p, r) for p in model.cliques for r in model.children[p]]
                l1 = [float(np.abs(ac.marg(mg[p], list(p), r) - mg[r]).sum()) for p, r in edges]
                feas = float(np.mean(l1)) if l1 else 0.0
                tol = _enforced_tolerance()
                out.append(('convex-overlap-within-enforced-tolerance' + tag, feas < tol, dict(mean_l1_disagreement=feas, enforced_tolerance=tol, edges=len(edges), total=T)))
            if ref is not None:
                Lopt = min(ref['exact_estimation_loss'], ref['independent_optimum'])
                tolv = 1e-3 * max(L0 - Lopt, 0.0) + 1e-6
                if case.get('tight'):
                    # well-conditioned repeated-clique cases: 2% of the optimal loss (a wrong weighting moves the loss by tens of percent;
                    # 28 calibration instances were within 3e-5 of the optimum after 1000 iterations)
                    tolv = min(tolv, 0.02 * Lopt + 1e-6)
                det = dict(ref, loss=L, uniform_loss=L0, tolerance=tolv, iters=case['iters'], oracle=oracle)
                ok = L <= Lopt + tolv
                latest = res
                if not ok and self._cycling(res.get('last_iterates') or [], T_ind):
                    # the iteration alternates between two points (x[t] == x[t-2] != x[t-1]) at equal loss, so the step-size rule,
                    # which only reacts to an increasing loss, never fires: more iterations cannot help (known finding)
                    det['period_2_cycle'] = True
                elif not ok:
                    # "with enough iterations": mirror descent shows long plateaus on some inputs; escalate once before judging
                    res2 = self._estimate(case, dom, meas, oracle, ESCALATED_ITERS)
                    if 'exception' in res2:
                        out.append(('completes' + tag, False, res2))
                        continue
                    latest = res2
                    tabs2, bad2 = self._tables(res2['model'], meas, attrs, shape, T_ind)
                    L2 = ac.l2_loss(tabs2, meas) if not bad2 else float('inf')
                    det.update(loss_after_escalation=L2, escalated_iters=ESCALATED_ITERS)
                    ok = L2 <= Lopt + tolv
                    if not ok:
                        # the step-size restarts of mirror_descent_auto can leave a step so small that one table does not move
                        # for thousands of iterations (observed: stuck from 50 to 6000, optimum reached by 20000): last escalation
                        res3 = self._estimate(case, dom, meas, oracle, FINAL_ITERS)
                        if 'exception' not in res3:
                            latest = res3
                            tabs3, bad3 = self._tables(res3['model'], meas, attrs, shape, T_ind)
                            L3 = ac.l2_loss(tabs3, meas) if not bad3 else float('inf')
                            det.update(loss_after_final_escalation=L3, final_iters=FINAL_ITERS)
                            ok = L3 <= Lopt + tolv
                if not ok and 'period_2_cycle' not in det:
                    det['period_2_cycle'] = self._cycling(latest.get('last_iterates') or [], T_ind)
                out.append(('disjoint-cliques-reach-exact-optimum' + tag, ok, det))
        return out

    def _estimate(self, case, dom, meas, oracle, iters):
        import numpy as np, traceback
        from mbi import LocalInference
        np.random.seed(case['seed'] % (1 << 31))
        last = []

        def remember(mu):
            # the last few iterates of the measured tables (diagnostic only: is the iteration cycling?)
            last.append({cl: np.array(mu[cl].datavector(), dtype=float, copy=True) for _, _, _, cl in meas if cl in mu})
            if len(last) > 4:
                last.pop(0)
        try:
            engine = LocalInference(dom, marginal_oracle=oracle, iters=iters)
            model = engine.estimate([(Q, y.copy(), s, cl) for Q, y, s, cl in meas], total=case['total'],
                                    callback=remember if case.get('kind') == 'disjoint-exact' else None)
            return dict(model=model, last_iterates=last)
        except Exception as e:
            return dict(exception='%s: %s' % (type(e).__name__, e), traceback=traceback.format_exc(limit=8), oracle=oracle, iters=iters)

    def _tables(self, model, meas, attrs, shape, T_ind):
        tabs, bad = {}, []
        for Q, y, s, cl in meas:
            a, v = ac.table(model.project(cl), cl)
            tabs[cl] = v
            ok, d = ac.valid_table(v, T_ind, rtol=1e-6)
            if not (ok and v.shape == ac.region_shape(cl, attrs, shape)):
                bad.append(dict(clique=cl, table=v, **d))
        return tabs, bad

    @staticmethod
    def _cycling(last, total):
        """True iff the final iterates alternate between two clearly different points: x[t] == x[t-2] != x[t-1] (to 1e-6 of the
        total resp. by more than 1e-3 of it) for some measured table."""
        import numpy as np
        if len(last) < 4:
            return False
        for cl in last[-1]:
            a, b, c, d = (it.get(cl) for it in last[-4:])
            if any(x is None for x in (a, b, c, d)):
                continue
            same2 = max(np.abs(d - b).max(), np.abs(c - a).max()) <= 1e-6 * max(1.0, total)
            diff1 = np.abs(d - c).max() > 1e-3 * max(1.0, total)
            if same2 and diff1:
                return True
        return False

    def finding_key(self, case, clause, detail):
        clause = clause.split('[')[0]
        if clause == 'fit-no-worse-than-uniform' and case.get('iters', 0) < 10:
            return FEW_ITERS_KEY
        if clause == 'fit-no-worse-than-uniform' and isinstance(detail, dict) and detail.get('last_iterate_not_best'):
            return LAST_NOT_BEST_KEY
        if clause == 'disjoint-cliques-reach-exact-optimum' and isinstance(detail, dict) and detail.get('period_2_cycle'):
            return CYCLE_KEY
        return 'bounded:%s' % clause


PROP = C18()
