"""Paths and interpreter bootstrap.

VERIF_REPO (default /repo) selects the tree under verification, so that the self-test can
point the same checks at a scratch copy.  The repository is imported from that tree's
sources (src/ for the mbi package, the root for mechanisms/), never from a snapshot.
"""
import os, sys

VERIF = os.path.dirname(os.path.dirname(os.path.abspath(__file__)))
REPO = os.path.abspath(os.environ.get('VERIF_REPO', '/repo'))
SEED = int(os.environ.get('VERIF_SEED', '0') or 0)
GUARD = 'PRIVATE_PGM_VERIF'
# evidence/ and replays/ describe /repo itself; a run against another tree (self-test, seeded change) writes under .scratch/
OUT = VERIF if REPO == '/repo' else os.path.join(VERIF, '.scratch', os.path.basename(REPO) or 'tree')


def repo_path(rel):
    return os.path.join(REPO, rel)


def ensure_repo_importable():
    """Put the tree under verification first on sys.path (mbi from REPO/src, mechanisms from REPO)."""
    for p in (os.path.join(REPO, 'src'), REPO):
        if p in sys.path:
            sys.path.remove(p)
    sys.path.insert(0, REPO)
    sys.path.insert(0, os.path.join(REPO, 'src'))
    import warnings
    warnings.filterwarnings('ignore')
    os.environ.setdefault('MPLBACKEND', 'Agg')
    for m in [k for k in sys.modules if k == 'mbi' or k.startswith('mbi.')]:
        f = getattr(sys.modules[m], '__file__', '') or ''
        if not f.startswith(REPO + os.sep):
            del sys.modules[m]
    import mbi  # noqa
    f = mbi.__file__
    assert f.startswith(os.path.join(REPO, 'src')), 'mbi imported from %s, expected %s' % (f, REPO)
