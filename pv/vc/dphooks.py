"""Hooks that attach *site contracts* to the random primitives (C20, later C05/C06).

Selection site  `<prng>.choice(n, p=p)`:
    obligations  choice/support-size   n == len(p) == the declared number of candidates
                 choice/log-odds       for arbitrary candidates i, j:
                                       log p[i] - log p[j] == <contract's log-odds expression in i, j>
    The probability vector must have been produced by exp(.) / softmax(.) so that its log form is known
    (extern contract of scipy.special.softmax / logsumexp, see arrays.py).
Noise site  `<prng>.normal(loc, scale, size)` / `.laplace(...)`:
    obligations  noise/loc, noise/scale, noise/size   equal to the contract's expressions.
"""
import ast
import z3
from . import engine as E
from .arrays import Arr, int_term


class SiteHooks:
    def __init__(self, sites):
        self.sites = sites          # {'choice': {...}, 'normal': {...}, 'laplace': {...}}

    def call(self, eng, st, name, recv, args, kw, node):
        short = name.split('.')[-1]
        if short == 'choice' and 'choice' in self.sites:
            return self.choice(eng, st, args, kw, node)
        if short in ('normal', 'laplace') and short in self.sites:
            return self.noise(eng, st, short, args, kw, node)
        return NotImplemented

    def choice(self, eng, st, args, kw, node):
        site = self.sites['choice']
        p = kw.get('p')
        if not isinstance(p, Arr) or not hasattr(p, 'logf'):
            raise E.Unsupported('probability vector at line %d is not exp(...)/softmax(...) of a modelled array' % node.lineno)
        n = args[0]
        i, j = eng.fresh('cand_i', E.I), eng.fresh('cand_j', E.I)
        entry = eng.entry_names()
        extra = dict(entry)
        extra.update(i=E.Num(i), j=E.Num(j))
        ncand, facts = None, []
        s2 = st.fork()
        nc = eng.ev(s2, ast.parse(site['n'], mode='eval').body) if False else None
        # number of candidates
        tn, f1 = eng.spec('same(%s, __n)' % site['n'], st, dict(extra, __n=n), mode='prove')
        tp, f2 = eng.spec('same(%s, __pn)' % site['n'], st, dict(extra, __pn=E.Num(p.n)), mode='prove')
        s3 = st.fork()
        for f in f1 + f2:
            s3.assume(f)
        eng.oblige(s3, 'choice/support-size@L%d' % node.lineno, z3.And(tn, tp), kind='selection-site')
        # log-odds
        s4 = st.fork()
        s4.assume(z3.And(i >= 0, i < p.n, j >= 0, j < p.n))
        li = p.logf.at(eng, s4, i).real()
        lj = p.logf.at(eng, s4, j).real()
        s4.env = dict(s4.env)
        s4.env.update(extra)
        eng._spec_mode = getattr(eng, '_spec_mode', 0) + 1
        try:
            want = eng.ev(s4, ast.parse(site['logodds'], mode='eval').body)
        finally:
            eng._spec_mode -= 1
        eng.oblige(s4, 'choice/log-odds@L%d' % node.lineno, li - lj == want.real(), kind='selection-site')
        idx = eng.fresh('chosen', E.I)
        st.assume(z3.And(idx >= 0, idx < p.n))
        st.ghost['selected_idx'] = idx
        st.ghost['n_choice_sites'] = st.ghost.get('n_choice_sites', z3.IntVal(0)) + 1
        return E.Num(idx)

    def noise(self, eng, st, kind, args, kw, node):
        site = self.sites[kind]
        names = ['loc', 'scale', 'size']
        bound = {}
        for k, a in zip(names, args):
            bound[k] = a
        bound.update(kw)
        extra = dict(eng.entry_names())
        for k in names:
            if k in site:
                if k not in bound:
                    raise E.Unsupported('sampler argument %s not passed at line %d' % (k, node.lineno))
                t, facts = eng.spec('same(%s, __a)' % site[k], st, dict(extra, __a=bound[k]), mode='prove')
                s2 = st.fork()
                for f in facts:
                    s2.assume(f)
                eng.oblige(s2, 'noise/%s-%s@L%d' % (kind, k, node.lineno), t, kind='noise-site')
        st.ghost['n_noise_sites'] = st.ghost.get('n_noise_sites', z3.IntVal(0)) + 1
        return E.Obj(eng.fresh('noise', E.V), cls='noise')
