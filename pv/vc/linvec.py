"""Linear combinations of opaque vectors: the value-level abstraction for message-passing update equations.

Log-space tables (potentials, messages, beliefs) are opaque vector ATOMS; the code combines them with +, -, multiplication and
division by scalars, and a few non-linear maps (logsumexp over axes, logsumexp(), exp).  A value is kept as

        sum_i  c_i * atom_i   +   c_1 * ONE            (c_i real-valued z3 terms, ONE the all-ones vector)

so that `same(a, b)` for two such values is the conjunction of the coefficient equalities — decided semantically by the solver
over the reals.  A specification therefore pins the VALUE of an update (which messages enter with which weight), not the way the
expression is spelled: reordered sums, `x/c` versus `(1/c)*x`, hoisted sub-expressions all verify.

Non-linear maps create a new atom from a canonical term of their argument (coefficients simplified, atoms in a fixed order);
comprehension sums are atoms by the engine's deterministic comprehension values (pv/vc/engine.py: comp_term).
Elementwise semantics on aligned tables (C14) and reals for floats are the standing assumptions; the -inf special case of
Factor.__sub__ is not modelled here (C01's cell-level contract covers it)."""
import ast
import z3
from . import engine as E

R, V, B, I = E.R, E.V, E.B, E.I
ONE = z3.Const('ONE_vector', V)


class LinV(E.Val):
    def __init__(self, terms, taint=E.FALSE):
        self.terms = {k: v for k, v in terms.items()}      # ast id -> (atom term, coefficient)
        self.taint, self.ghost = taint, None

    def __repr__(self):
        return 'LinV(%s)' % ', '.join('%s*%s' % (z3.simplify(c), a) for a, c in self.terms.values())


def lin(v):
    if isinstance(v, LinV):
        return v
    if isinstance(v, E.Obj):
        return LinV({v.t.get_id(): (v.t, z3.RealVal(1))}, v.taint)
    if isinstance(v, E.Num):
        return LinV({ONE.get_id(): (ONE, v.real())}, v.taint)
    return None


def combine(a, b, sign):
    out = dict(a.terms)
    for k, (t, c) in b.terms.items():
        if k in out:
            out[k] = (t, out[k][1] + sign * c)
        else:
            out[k] = (t, sign * c)
    return LinV(out, E.t_or(a.taint, b.taint))


def scale(a, c):
    return LinV({k: (t, c * co) for k, (t, co) in a.terms.items()}, a.taint)


def comp_sums(t, out=None, seen=None):
    """ids of the comprehension reductions (sum / max / min over a comprehension the sequence theory does not model) in a term"""
    out = set() if out is None else out
    seen = set() if seen is None else seen
    stack = [t]
    while stack:
        x = stack.pop()
        if x.get_id() in seen:
            continue
        seen.add(x.get_id())
        if z3.is_app(x):
            if x.decl().name().startswith('reduce_') or x.decl().name().startswith('comp_'):
                out.add(x.get_id())
                continue
            stack.extend(x.children())
    return out


def comp_mismatch(terms_a, terms_b):
    """Do both sides contain comprehension reductions the other side lacks?  Two differently written comprehensions may denote the
    same sum (a sum over a sub-list versus the full sum minus one term); the encoding cannot tell, so such a difference is
    inconclusive, never a refutation."""
    A, B = set(), set()
    for t in terms_a:
        comp_sums(t, A)
    for t in terms_b:
        comp_sums(t, B)
    return bool(A - B) and bool(B - A)


_INCONCLUSIVE = [0]


def inconclusive_marker():
    _INCONCLUSIVE[0] += 1
    return z3.Bool('havoc_differently_written_comprehension_sums!%d' % _INCONCLUSIVE[0])


def equal(a, b):
    if comp_mismatch([x for t, c in a.terms.values() for x in (t, c)], [x for t, c in b.terms.values() for x in (t, c)]):
        return inconclusive_marker()
    keys = set(a.terms) | set(b.terms)
    cs = []
    for k in keys:
        ca = a.terms[k][1] if k in a.terms else z3.RealVal(0)
        cb = b.terms[k][1] if k in b.terms else z3.RealVal(0)
        cs.append(ca == cb)
    return z3.And(*cs) if cs else E.TRUE


class LinHooks:
    """real_dicts: names of dict locals whose values are numbers; vector_dicts: dict locals holding vectors, with read-after-write of
    the last store under the same key; sites: [dict(container=<name>, name=<label>, spec=<text with __arg, __key>)]"""

    def __init__(self, real_dicts=(), vector_dicts=(), sites=(), tables_are_factors=True):
        self.real_dicts, self.vector_dicts, self.sites = set(real_dicts), set(vector_dicts), list(sites)
        self.tables_are_factors = tables_are_factors      # mbi.Factor has no __neg__ / __rsub__ (numpy arrays have)

    def init(self, eng, st):
        for s in self.sites:
            st.ghost.setdefault('n_site_' + s['name'], z3.IntVal(0))
        # stores into each container in textual order: a site with nth=k speaks about the k-th of them (of=<how many there are>)
        self.store_ord = {}
        per = {}
        stores = [n for n in ast.walk(eng.fn) if isinstance(n, (ast.Assign, ast.AugAssign))]
        stores.sort(key=lambda n: (n.lineno, n.col_offset))
        for n in stores:
            for t in (n.targets if isinstance(n, ast.Assign) else [n.target]):
                r = t
                while isinstance(r, ast.Subscript):
                    r = r.value
                if r is not t and (isinstance(r, ast.Name) or (isinstance(r, ast.Attribute) and isinstance(r.value, ast.Name))):
                    rn = r.id if isinstance(r, ast.Name) else '%s.%s' % (r.value.id, r.attr)
                    per[rn] = per.get(rn, 0) + 1
                    self.store_ord[id(t)] = per[rn]
        # (re)bindings of plain locals in textual order (chained `a = b = e` counts once per name)
        self.assign_ord, perl = {}, {}
        for n in stores:
            for t in (n.targets if isinstance(n, ast.Assign) else [n.target]):
                for x in ([t] if isinstance(t, ast.Name) else [y for y in ast.walk(t) if isinstance(y, ast.Name) and isinstance(y.ctx, ast.Store)] if isinstance(t, (ast.Tuple, ast.List)) else []):
                    perl[x.id] = perl.get(x.id, 0) + 1
                    self.assign_ord[id(x)] = perl[x.id]
        for s in self.sites:
            if 'local' in s:
                if 'of' in s and perl.get(s['local'], 0) != s['of']:
                    raise E.Unsupported('assignment anchors drifted: %d bindings of `%s`, the contract was written for %d' % (perl.get(s['local'], 0), s['local'], s['of']))
                continue
            if 'of' in s and per.get(s['container'], 0) != s['of']:
                raise E.Unsupported('store anchors drifted: %d stores into `%s`, the contract was written for %d' % (per.get(s['container'], 0), s['container'], s['of']))

    def on_assign(self, eng, st, tgt, val, node):
        """sites with local=<name>: the value the nth textual (re)binding of that local receives (evaluated before the binding, so
        the specification reads the old value of the local under its own name)"""
        for site in self.sites:
            if site.get('local') != tgt.id or self.assign_ord.get(id(tgt)) != site.get('nth'):
                continue
            t, facts = eng.spec(site['spec'], st, {'__arg': val}, mode='prove')
            s2 = st.fork()
            for x in facts:
                s2.assume(x)
            eng.oblige(s2, 'site/%s@L%d' % (site['name'], node.lineno), t, kind='assign-site')
            st.ghost['n_site_' + site['name']] = st.ghost.get('n_site_' + site['name'], z3.IntVal(0)) + 1

    def _applies(self, site, tgt):
        return 'nth' not in site or self.store_ord.get(id(tgt)) == site['nth']

    # canonical V term of a value (for arguments of non-linear maps)
    def canon(self, eng, v):
        if isinstance(v, E.Obj):
            return v.t
        if isinstance(v, E.Num):
            v = lin(v)
        sc, ad = eng.uf('vec_scale', R, V, V), eng.uf('vec_add', V, V, V)
        items = sorted(v.terms.values(), key=lambda tc: str(tc[0]))
        acc = None
        for t, c in items:
            c = z3.simplify(c)
            if z3.is_rational_value(c) and c.as_fraction() == 0:
                continue
            term = t if (z3.is_rational_value(c) and c.as_fraction() == 1) else sc(c, t)
            acc = term if acc is None else ad(acc, term)
        return acc if acc is not None else z3.Const('ZERO_vector', V)

    def to_V(self, v):
        return None

    def binop(self, eng, st, op, l, r, node):
        vec = lambda x: isinstance(x, LinV) or (isinstance(x, E.Obj) and x.cls not in ('dict', 'list', 'set', 'str', 'tuple', 'type', 'function'))
        if isinstance(op, (ast.Add, ast.Sub)) and (vec(l) or vec(r)) and lin(l) is not None and lin(r) is not None and (isinstance(l, LinV) or isinstance(r, LinV) or vec(l) and vec(r) or isinstance(l, E.Num) or isinstance(r, E.Num)):
            if isinstance(l, E.Num) and isinstance(r, E.Num):
                return NotImplemented
            if isinstance(op, ast.Sub) and isinstance(l, E.Num) and not eng.in_spec() and self.tables_are_factors:
                return eng.abort(st)          # number - table: Factor has no __rsub__ (TypeError)
            return combine(lin(l), lin(r), 1 if isinstance(op, ast.Add) else -1)
        if isinstance(op, ast.MatMult) and isinstance(l, E.Bound):
            l = eng.bound_as_value(st, l)                      # Q.T : an attribute value
        if isinstance(op, ast.MatMult) and lin(r) is not None and not isinstance(r, E.Num):
            if isinstance(l, LinV):
                # inner product of two tables / vectors: bilinear, symmetric
                ip = eng.uf('inner', V, V, R)
                tot = z3.RealVal(0)
                for ta, ca in l.terms.values():
                    for tb, cb in lin(r).terms.values():
                        a_, b_ = (ta, tb) if str(ta) <= str(tb) else (tb, ta)
                        tot = tot + ca * cb * ip(a_, b_)
                return E.Num(tot, npy=True, taint=E.t_or(l.taint, r.taint))
            if isinstance(l, E.Obj) and l.cls not in ('dict', 'list', 'set', 'str', 'tuple'):
                # matrix (operator) applied to a vector: linear in the vector
                mm = eng.uf('matvec', V, V, V)
                return LinV({mm(l.t, t).get_id(): (mm(l.t, t), c) for t, c in lin(r).terms.values()}, E.t_or(l.taint, r.taint))
        if isinstance(op, ast.Mult):
            if isinstance(l, E.Num) and vec(r):
                return scale(lin(r), l.real())
            if isinstance(r, E.Num) and vec(l):
                return scale(lin(l), r.real())
        if isinstance(op, ast.Div) and isinstance(r, E.Num) and vec(l):
            st.assume(r.real() != 0)
            return scale(lin(l), 1 / r.real())
        return NotImplemented

    def attr(self, eng, st, o, name, node):
        if isinstance(o, LinV):
            return E.Bound(o, name, taint=o.taint)           # a method of the table; resolved in `call`
        return NotImplemented

    def unary(self, eng, st, op, v, node):
        if isinstance(op, ast.USub) and isinstance(v, (LinV, E.Obj)) and lin(v) is not None and not isinstance(v, E.Num):
            if eng.in_spec() or not self.tables_are_factors:
                return scale(lin(v), z3.RealVal(-1))
            # the library's Factor defines neither __neg__ nor __rsub__: `-table` raises TypeError, the path ends here (and the
            # reachability probes of the function report it)
            return eng.abort(st)
        return NotImplemented

    def call(self, eng, st, name, recv, args, kw, node):
        short = name.split('.')[-1]
        if recv is None and name == 'same' and len(args) == 2 and isinstance(args[0], E.Num) and isinstance(args[1], E.Num):
            if comp_mismatch([args[0].real()], [args[1].real()]):
                return E.BoolV(inconclusive_marker())
            return E.BoolV(args[0].real() == args[1].real())
        if recv is None and name == 'same' and len(args) == 2 and isinstance(args[0], E.Obj) and isinstance(args[1], E.Obj):
            if comp_mismatch([args[0].t], [args[1].t]):
                return E.BoolV(inconclusive_marker())
            return NotImplemented
        if recv is None and name == 'same' and len(args) == 2 and (isinstance(args[0], LinV) or isinstance(args[1], LinV)):
            a, b = lin(args[0]), lin(args[1])
            if a is None or b is None:
                return E.BoolV(E.FALSE)
            return E.BoolV(equal(a, b))
        if recv is not None and isinstance(recv, (LinV, E.Obj)) and short in ('logsumexp', 'exp', 'log', 'sum', 'max', 'sign') and not isinstance(recv, E.Num) \
                and (isinstance(recv, LinV) or recv.cls not in ('dict', 'list', 'set')):
            c = self.canon(eng, recv)
            if short in ('logsumexp', 'sum', 'max') and not args and not kw:
                return E.Num(eng.uf('map_%s_all' % short, V, R)(c), npy=True, taint=recv.taint)       # a number
            av = [eng.to_V(a) for a in args]
            f = eng.uf('map_%s_%d' % (short, len(av)), *([V] * (len(av) + 1) + [V]))
            return E.Obj(f(c, *av), taint=recv.taint)
        # function forms on tables: logsumexp(x) is a number, np.exp(x) / np.log(x) are tables
        vec = lambda x: isinstance(x, LinV) or (isinstance(x, E.Obj) and x.cls not in ('dict', 'list', 'set', 'str', 'tuple', 'type', 'function'))
        if recv is None and len(args) == 1 and not kw and vec(args[0]):
            if name in ('logsumexp', 'scipy.special.logsumexp'):
                return E.Num(eng.uf('map_logsumexp_all', V, R)(self.canon(eng, args[0])), npy=True, taint=args[0].taint)
            if name in ('np.exp', 'np.log', 'np.sign'):
                return E.Obj(eng.uf('map_%s_0' % name[3:], V, V)(self.canon(eng, args[0])), taint=args[0].taint)     # x.sign() and np.sign(x): one map
            if name in ('abs', 'np.abs'):
                return E.Obj(eng.uf('map_abs_0', V, V)(self.canon(eng, args[0])), taint=args[0].taint)
        return NotImplemented

    def _root_and_key(self, eng, st, node, k_last):
        """x[k1][k2]... -> ('x', V term of the key path)"""
        keys, cur = [k_last], node.value
        while isinstance(cur, ast.Subscript):
            keys.append(eng.ev(st, cur.slice))
            cur = cur.value
        if not isinstance(cur, ast.Name) and not (isinstance(cur, ast.Attribute) and isinstance(cur.value, ast.Name)):
            return None, None
        keys.reverse()
        ks = [eng.to_V(x) for x in keys]
        kt = ks[0] if len(ks) == 1 else eng.uf('keypath%d' % len(ks), *([V] * len(ks) + [V]))(*ks)
        return (cur.id if isinstance(cur, ast.Name) else '%s.%s' % (cur.value.id, cur.attr)), kt

    def getitem(self, eng, st, o, k, node):
        if isinstance(node.value, ast.Subscript):
            nm, kt = self._root_and_key(eng, st, node, k)
            if nm in self.vector_dicts:
                last = (st.__dict__.get('_lin_last') or {}).get(nm)
                if last is not None and z3.eq(last[0], kt):
                    return last[1]
            return NotImplemented
        if isinstance(node.value, ast.Attribute) and isinstance(node.value.value, ast.Name):
            nm = '%s.%s' % (node.value.value.id, node.value.attr)
            if nm in self.vector_dicts:
                last = (st.__dict__.get('_lin_last') or {}).get(nm)
                if last is not None and z3.eq(last[0], eng.to_V(k)):
                    return last[1]
            return NotImplemented
        if isinstance(node.value, ast.Name):
            nm = node.value.id
            if nm in self.vector_dicts:
                last = (st.__dict__.get('_lin_last') or {}).get(nm)
                if last is not None and z3.eq(last[0], eng.to_V(k)):
                    return last[1]
            if nm in self.real_dicts and isinstance(o, (E.Obj, E.DictV)):
                base = eng.to_V(o) if not isinstance(o, E.DictV) else eng.fresh('dict', V)
                return E.Num(eng.uf('as_real', V, R)(eng.uf('getitem', V, V, V)(base, eng.to_V(k))), npy=True, taint=o.taint)
        return NotImplemented

    def setitem(self, eng, st, tgt, o, k, val, node):
        if isinstance(tgt.value, ast.Subscript):
            nm, kt = self._root_and_key(eng, st, tgt, k)
            if nm is None:
                return NotImplemented
            for site in self.sites:
                if site.get('container') != nm or not self._applies(site, tgt):
                    continue
                t, facts = eng.spec(site['spec'], st, {'__arg': val, '__key': k}, mode='prove')
                s2 = st.fork()
                for x in facts:
                    s2.assume(x)
                eng.oblige(s2, 'site/%s@L%d' % (site['name'], node.lineno), t, kind='store-site')
                st.ghost['n_site_' + site['name']] = st.ghost.get('n_site_' + site['name'], z3.IntVal(0)) + 1
            if nm in self.vector_dicts:
                d = dict(st.__dict__.get('_lin_last') or {})
                d[nm] = (kt, val)
                st._lin_last = d
                # the nested container changes identity (fresh value for the root), the stored value is remembered above
                eng._in_store = True
                try:
                    st.env[nm] = E.Obj(eng.fresh('upd_' + nm, V), cls='dict', taint=getattr(st.env.get(nm), 'taint', E.FALSE))
                finally:
                    eng._in_store = False
                return True
            return NotImplemented
        if isinstance(tgt.value, ast.Attribute) and isinstance(tgt.value.value, ast.Name):
            nm = '%s.%s' % (tgt.value.value.id, tgt.value.attr)
            for site in self.sites:
                if site.get('container') != nm or not self._applies(site, tgt):
                    continue
                t, facts = eng.spec(site['spec'], st, {'__arg': val, '__key': k}, mode='prove')
                s2 = st.fork()
                for x in facts:
                    s2.assume(x)
                eng.oblige(s2, 'site/%s@L%d' % (site['name'], node.lineno), t, kind='store-site')
                st.ghost['n_site_' + site['name']] = st.ghost.get('n_site_' + site['name'], z3.IntVal(0)) + 1
            if nm in self.vector_dicts and isinstance(val, LinV):
                d = dict(st.__dict__.get('_lin_last') or {})
                d[nm] = (eng.to_V(k), val)
                st._lin_last = d
                eng.store_item(st, tgt.value, o, k, E.Obj(self.canon(eng, val), taint=val.taint), node)
                return True
            return NotImplemented
        if isinstance(tgt.value, ast.Name):
            nm = tgt.value.id
            for site in self.sites:
                if site.get('container') != nm or not self._applies(site, tgt):
                    continue
                t, facts = eng.spec(site['spec'], st, {'__arg': val, '__key': k}, mode='prove')
                s2 = st.fork()
                for x in facts:
                    s2.assume(x)
                eng.oblige(s2, 'site/%s@L%d' % (site['name'], node.lineno), t, kind='store-site')
                st.ghost['n_site_' + site['name']] = st.ghost.get('n_site_' + site['name'], z3.IntVal(0)) + 1
            if nm in self.vector_dicts:
                d = dict(st.__dict__.get('_lin_last') or {})
                d[nm] = (eng.to_V(k), val)
                st._lin_last = d
                if isinstance(val, LinV):
                    # the container itself only needs to change identity; the value is remembered above
                    eng._in_store = True
                    try:
                        eng.store_item(st, tgt.value, o, k, E.Obj(self.canon(eng, val), taint=val.taint), node)
                    finally:
                        eng._in_store = False
                    return True
        return NotImplemented

    def havoc_ghost_value(self, eng, st, old):
        return getattr(old, 'ghost', None)
