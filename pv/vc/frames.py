"""Frame and definite-assignment obligations (C13), decided by a small flow analysis over the real AST.

Two kinds of obligation, both about *every* history of calls because they are statements about the program text:

def-before-use   within one call of an entry method, every attribute of `self` that some method other than __init__
                 assigns (the engine state that survives between calls) is assigned earlier in the same call before it
                 is read — unless the read sits under a guard that tests a configured flag (warm_start).  Hence, with
                 the flag off, the result of a call cannot depend on earlier calls through `self`.
owned-target     every in-place update (augmented assignment to a subscript / attribute, `out=` argument, masked
                 store, mutating method) in the listed functions targets an object that was allocated in the same
                 function activation: its root variable is a local that is only ever bound to allocation expressions
                 (copies, zeros(...), constructor calls, arithmetic results, comprehensions of such) — never to a
                 parameter, an attribute of a parameter, or an element of one.

The analysis is conservative (may report "not established" for code that is in fact fine: then the obligation is
undecided, which the runner never reports as a violation by itself).
"""
import ast
from .. import frontend
from .solver import Obligation


def _methods(cls_node):
    return {n.name: n for n in cls_node.body if isinstance(n, ast.FunctionDef)}


def self_attr(node, selfname='self'):
    return isinstance(node, ast.Attribute) and isinstance(node.value, ast.Name) and node.value.id == selfname


class DefUse:
    def __init__(self, rel, clsname, entry, guard_flag, exhaustive_params=()):
        self.rel, self.clsname, self.entry, self.flag = rel, clsname, entry, guard_flag
        self.exhaustive = set(exhaustive_params)      # if/elif chains comparing these parameters with constants cover all legal values
        self.cls, _, self.sha = frontend.get_function(rel, clsname)
        self.m = _methods(self.cls)
        self.persistent = self.persistent_attrs()
        self.obligations = []
        self.visiting = []

    def persistent_attrs(self):
        out = set()
        for name, fn in self.m.items():
            if name == '__init__':
                continue
            for n in ast.walk(fn):
                tg = []
                if isinstance(n, ast.Assign):
                    tg = n.targets
                elif isinstance(n, (ast.AugAssign, ast.AnnAssign)):
                    tg = [n.target]
                for t in tg:
                    for x in ast.walk(t):
                        if self_attr(x) and isinstance(x.ctx, ast.Store):
                            out.add(x.attr)
                    # state created in __init__ but updated in place later (`self.cache[k] = v`, `self.seen[k] += 1`) survives too
                    r = t
                    while isinstance(r, ast.Subscript):
                        r = r.value
                    if r is not t and self_attr(r):
                        out.add(r.attr)
                if isinstance(n, ast.Call) and isinstance(n.func, ast.Attribute) and \
                        n.func.attr in ('append', 'update', 'setdefault', 'add', 'extend', 'insert', 'pop', 'clear', 'remove', 'popitem', 'discard'):
                    r = n.func.value
                    while isinstance(r, ast.Subscript):
                        r = r.value                      # self.groups[cl].append(...) updates self.groups
                    if self_attr(r):
                        out.add(r.attr)
        return out

    def ob(self, fn, name, ok, detail):
        o = Obligation('%s::%s.%s/def-before-use#%s' % (self.rel, self.clsname, fn, name), [], None,
                       function='%s::%s.%s' % (self.rel, self.clsname, fn), kind='definite-assignment')
        o.verdict = 'discharged' if ok else 'refuted'
        o.backend = 'definite-assignment analysis (pv/vc/frames.py)'
        o.model = {} if ok else detail
        o.meta = {'base': o.name}
        self.obligations.append(o)

    def guarded(self, guards):
        """is some enclosing `if` test a conjunction containing `self.<flag>`?"""
        for g in guards:
            terms = g.values if isinstance(g, ast.BoolOp) and isinstance(g.op, ast.And) else [g]
            for t in terms:
                if self_attr(t) and t.attr == self.flag:
                    return True
        return False

    def run(self):
        assigned = self.walk_fn(self.entry, set(), [])
        return self.obligations

    def walk_fn(self, name, assigned, guards):
        if name in self.visiting or name not in self.m:
            return assigned
        self.visiting.append(name)
        assigned = self.block(self.m[name].body, set(assigned), guards, name)
        self.visiting.pop()
        return assigned

    def block(self, stmts, assigned, guards, fn):
        for s in stmts:
            assigned = self.stmt(s, assigned, guards, fn)
        return assigned

    def reads(self, expr, assigned, guards, fn):
        """check reads in evaluation order; follow self.<method>(...) calls"""
        for n in ast.walk(expr):
            if isinstance(n, ast.Call) and self_attr(n.func) and n.func.attr in self.m:
                assigned |= self.walk_fn(n.func.attr, assigned, guards) - assigned if False else set()
        # calls first (they may assign), conservatively in source order
        calls = [n for n in ast.walk(expr) if isinstance(n, ast.Call) and self_attr(n.func) and n.func.attr in self.m]
        for n in ast.walk(expr):
            if self_attr(n) and isinstance(n.ctx, ast.Load) and n.attr in self.persistent and n.attr not in self.m:
                if n.attr not in assigned:
                    is_hasattr = False
                    ok = self.guarded(guards)
                    self.ob(fn, '%s@L%d' % (n.attr, n.lineno), ok,
                            dict(attribute=n.attr, line=n.lineno, reason='read of state that survives between calls, not assigned earlier in this call and not under a `self.%s` guard' % self.flag))
                else:
                    self.ob(fn, '%s@L%d' % (n.attr, n.lineno), True, {})
        for c in calls:
            assigned = self.walk_fn(c.func.attr, assigned, guards)
        return assigned

    def stmt(self, s, assigned, guards, fn):
        if isinstance(s, (ast.Assign, ast.AugAssign, ast.AnnAssign)):
            val = s.value
            if val is not None:
                assigned = self.reads(val, assigned, guards, fn)
            tg = s.targets if isinstance(s, ast.Assign) else [s.target]
            for t in tg:
                if self_attr(t) and not isinstance(s, ast.AugAssign):
                    assigned = assigned | {t.attr}
                else:
                    for x in ast.walk(t):
                        if x is not t or not self_attr(t):
                            pass
                    assigned = self.reads(t, assigned, guards, fn) if not self_attr(t) else assigned
            return assigned
        if isinstance(s, ast.Expr):
            return self.reads(s.value, assigned, guards, fn)
        if isinstance(s, ast.Return):
            return self.reads(s.value, assigned, guards, fn) if s.value is not None else assigned
        if isinstance(s, ast.If):
            # `hasattr(self, 'x')` in the test is not a read of the value
            test_wo_hasattr = s.test
            assigned = self.reads_test(s.test, assigned, guards, fn)
            a1 = self.block(s.body, set(assigned), guards + [s.test], fn)
            a2 = self.block(s.orelse, set(assigned), guards, fn)
            t = s.test
            if not s.orelse and isinstance(t, ast.Compare) and isinstance(t.left, ast.Name) and t.left.id in self.exhaustive:
                return a1            # last arm of an exhaustive chain (precondition: the parameter takes one of the listed values)
            return a1 & a2
        if isinstance(s, (ast.For, ast.While)):
            if isinstance(s, ast.For):
                assigned = self.reads(s.iter, assigned, guards, fn)
            else:
                assigned = self.reads(s.test, assigned, guards, fn)
            self.block(s.body, set(assigned), guards, fn)        # the body may run zero times: nothing it assigns counts
            return assigned
        if isinstance(s, ast.Assert):
            return self.reads(s.test, assigned, guards, fn)
        if isinstance(s, (ast.Import, ast.ImportFrom, ast.Pass, ast.Break, ast.Continue)):
            return assigned
        if isinstance(s, ast.FunctionDef):
            return assigned
        for n in ast.iter_child_nodes(s):
            if isinstance(n, ast.expr):
                assigned = self.reads(n, assigned, guards, fn)
        return assigned

    def reads_test(self, test, assigned, guards, fn):
        # a conjunction `self.flag and <rest>`: the rest is only evaluated when the flag holds
        if isinstance(test, ast.BoolOp) and isinstance(test.op, ast.And) and any(self_attr(v) and v.attr == self.flag for v in test.values):
            g2 = guards + [test]
            for v in test.values:
                assigned = self.reads(v, assigned, g2, fn)
            return assigned
        return self.reads(test, assigned, guards, fn)


# ---------------------------------------------------------------------------------------- ownership of in-place targets
ALLOC_CALL_SUFFIXES = ('copy', 'zeros', 'ones', 'uniform', 'random', 'exp', 'log', 'expand', 'project', 'sum', 'logsumexp',
                       'active', 'belief_propagation', 'mle', 'flatten', 'astype',
                       'apply', 'max', 'dot', 'keys', 'values', 'items', 'intersection', 'union', 'tocoo', 'to', 'sign')
ALLOC_NAMES = ('Factor', 'CliqueVector', 'dict', 'list', 'set', 'tuple', 'sorted', 'np.zeros', 'np.ones', 'np.array', 'np.exp', 'np.log',
               'np.where', 'np.nan_to_num', 'np.divide', 'np.repeat', 'np.arange', 'np.modf', 'GraphicalModel', 'defaultdict',
               'self.Factor', 'np.append', 'np.sum', 'logsumexp', 'np.random.choice', 'pd.DataFrame', 'float', 'int', 'len', 'abs',
               'np.sqrt', 'np.sign', 'sparse.eye', 'aslinearoperator', 'np.dtype', 'eigsh', 'lsmr', 'np.dot', 'max', 'min',
               'torch.tensor', 'torch.LongTensor', 'torch.FloatTensor', 'JunctionTree', 'reduce', 'np.logaddexp', 'np.moveaxis_copy',
               'np.random.rand', 'prng.rand', 'prng.normal', 'np.random.normal',
               # read-only view: an in-place update through it raises ValueError instead of changing shared storage
               'np.broadcast_to')


# methods whose result shares storage with the receiver: Factor.transpose (np.moveaxis view) and datavector(flatten=False)
# (returns self.values); their result is owned exactly when the receiver is.  Both contracts are checked by ReturnsFresh below.
ALIAS_OF_RECEIVER = ('transpose', 'datavector')
# repo methods in ALLOC_CALL_SUFFIXES whose "returns an object allocated in the call" contract ReturnsFresh discharges
# (anything else in the allocator lists is numpy / scipy / pandas / builtins semantics, assumed)


def root_name(e):
    while isinstance(e, (ast.Subscript, ast.Attribute)):
        e = e.value
    return e.id if isinstance(e, ast.Name) else None


class Ownership:
    """owned-target obligations for one function (and the functions nested in it), flow-sensitive on local bindings.

    obj[x]   : the object bound to local x was allocated in this activation
    elems[x] : so were its elements (for containers of Factors / arrays)
    """

    def __init__(self, rel, qual, allowed_param_writes=()):
        self.rel, self.qual = rel, qual
        self.fn, _, self.sha = frontend.get_function(rel, qual)
        self.allowed = set(allowed_param_writes)
        self.obligations = []
        self.local_fns = {n.name: n for n in ast.walk(self.fn) if isinstance(n, ast.FunctionDef) and n is not self.fn}
        self.returns_alloc = {}
        self.ctor_mode = False

    def ob(self, name, ok, detail):
        o = Obligation('%s::%s/owned-target#%s' % (self.rel, self.qual, name), [], None, function='%s::%s' % (self.rel, self.qual), kind='frame')
        o.verdict = 'discharged' if ok else 'refuted'
        o.backend = 'ownership analysis (pv/vc/frames.py)'
        o.model = {} if ok else detail
        o.meta = {'base': o.name}
        self.obligations.append(o)

    # ---- freshness of an expression under the current facts
    def fresh(self, e, obj, elems):
        """-> (object is fresh, elements are fresh)"""
        if isinstance(e, (ast.Constant, ast.BinOp, ast.UnaryOp, ast.Compare, ast.BoolOp, ast.JoinedStr)):
            return True, True
        if isinstance(e, ast.IfExp):
            a, b = self.fresh(e.body, obj, elems), self.fresh(e.orelse, obj, elems)
            return a[0] and b[0], a[1] and b[1]
        if isinstance(e, (ast.ListComp, ast.SetComp, ast.GeneratorExp)):
            return True, self.fresh(e.elt, obj, elems)[0]
        if isinstance(e, ast.DictComp):
            return True, self.fresh(e.value, obj, elems)[0]
        if isinstance(e, (ast.List, ast.Tuple, ast.Set)):
            return True, all(self.fresh(x, obj, elems)[0] for x in e.elts)
        if isinstance(e, ast.Dict):
            return True, all(self.fresh(v, obj, elems)[0] for v in e.values)
        if isinstance(e, ast.Lambda):
            return True, True
        if isinstance(e, ast.Call):
            f = ast.unparse(e.func)
            outs = [k.value for k in e.keywords if k.arg == 'out']
            if outs:
                return self.fresh(outs[0], obj, elems)       # f(..., out=x) returns x
            if f in self.local_fns:
                r = self.returns_alloc.get(f, False)
                return r, r
            if isinstance(e.func, ast.Attribute) and e.func.attr in ALIAS_OF_RECEIVER:
                if e.func.attr == 'datavector':
                    flat = [k.value for k in e.keywords if k.arg == 'flatten'] + list(e.args[:1])
                    if not flat or not (isinstance(flat[0], ast.Constant) and flat[0].value is False):
                        return True, True                     # flatten=True (the default): ndarray.flatten() copies
                return self.fresh(e.func.value, obj, elems)
            if self.ctor_mode and f in ('Factor', 'self.Factor', 'CliqueVector', 'Dataset') and e.args:
                # a new object that *holds* its last positional argument(s): storage is fresh only if those are
                held = e.args[1:] if f != 'CliqueVector' else e.args[:1]
                fr = [self.fresh(a, obj, elems) for a in held]
                return True, all(a and b for a, b in fr)
            if f in ('np.moveaxis', 'np.reshape') and e.args:
                return self.fresh(e.args[0], obj, elems)      # views of their first argument
            if isinstance(e.func, ast.Attribute) and e.func.attr in ('reshape', 'view', 'ravel', 'squeeze', 'T'):
                return self.fresh(e.func.value, obj, elems)   # ndarray views of the receiver
            if f in ALLOC_NAMES or f.split('.')[-1] in ALLOC_CALL_SUFFIXES:
                return True, True
            return False, False
        if isinstance(e, ast.Name):
            return e.id in obj, e.id in elems
        if isinstance(e, ast.Attribute) and isinstance(e.value, ast.Name) and e.value.id == 'self' and not self.ctor_mode:
            # the receiver's own state: writing through it is the method's declared effect (that this state was created in
            # the current call is the def-before-use obligation)
            return True, True
        if isinstance(e, ast.Subscript):
            # an element / view of an owned container whose elements are owned
            r = root_name(e)
            ok = r is not None and r in obj and r in elems
            return ok, ok
        return False, False

    def run(self):
        self.analyse(self.fn, set(), set(), {a.arg for a in self.fn.args.args + self.fn.args.kwonlyargs})
        return self.obligations

    def analyse(self, fn, obj, elems, params, owned_params=()):
        obj, elems = set(obj) | set(owned_params), set(elems) | set(owned_params)
        self.cur_params = set(params) - set(owned_params)
        self.block(fn.body, obj, elems)

    def assigned_in(self, stmts):
        out = set()
        for s in stmts:
            for n in ast.walk(s):
                if isinstance(n, ast.Assign):
                    for t in n.targets:
                        for x in ast.walk(t):
                            if isinstance(x, ast.Name):
                                out.add(x.id)
                elif isinstance(n, ast.For):
                    for x in ast.walk(n.target):
                        if isinstance(x, ast.Name):
                            out.add(x.id)
        return out

    def block(self, stmts, obj, elems):
        for s in stmts:
            self.stmt(s, obj, elems)

    def check(self, t, what, need_elems, obj, elems):
        r = root_name(t)
        if r == 'self':
            self.ob('%s@L%d' % (ast.unparse(t)[:40], t.lineno), True, {})        # the method's declared effect on its receiver
            return
        if r in self.allowed:
            self.ob('%s@L%d' % (ast.unparse(t)[:40], t.lineno), True, {})
            return
        keyed = [a.split(':', 1)[1] for a in self.allowed if ':' in a and a.split(':', 1)[0] == r]
        if keyed:
            # a parameter that may be written under the listed constant keys only (options['callback'] = ...)
            ok = isinstance(t, ast.Subscript) and isinstance(t.value, ast.Name) and isinstance(t.slice, ast.Constant) and t.slice.value in keyed \
                and what == 'item store'
            self.ob('%s@L%d' % (ast.unparse(t)[:40], t.lineno), ok,
                    dict(target=ast.unparse(t), kind=what, line=t.lineno, root=r,
                         reason='the caller\'s `%s` may only be written under the key(s) %s; any other update survives the call '
                                '(and, for a default-argument dict, every later call)' % (r, keyed)))
            return
        ok = r is not None and r in obj and (not need_elems or r in elems)
        self.ob('%s@L%d' % (ast.unparse(t)[:40], t.lineno), ok,
                dict(target=ast.unparse(t), kind=what, line=t.lineno, root=r,
                     reason='in-place update of an object not allocated in this activation (root is a parameter, an attribute, '
                            'a loop element, or bound to a non-allocating expression)'))

    def calls(self, node, obj, elems):
        for n in ast.walk(node):
            if not isinstance(n, ast.Call):
                continue
            for k in n.keywords:
                if k.arg == 'out':
                    self.check(k.value, 'out= argument', isinstance(k.value, ast.Subscript), obj, elems)
            if isinstance(n.func, ast.Attribute):
                a = n.func.attr
                base = n.func.value
                is_module = isinstance(base, ast.Name) and base.id in ('np', 'sparse', 'nx', 'pd', 'itertools', 'torch', 'math')
                if a in ('append', 'update', 'sort', 'extend', 'add', 'remove', 'insert', 'pop', 'clear', 'setdefault', 'popitem', 'discard', 'reverse') and not is_module:
                    self.check(base, 'mutating method .%s' % a, False, obj, elems)
                    if a in ('append', 'add', 'extend', 'insert', 'update') and n.args and isinstance(base, ast.Name):
                        if not self.fresh(n.args[-1], obj, elems)[0]:
                            elems.discard(base.id)
                elif a == 'combine':
                    self.check(base, 'mutating method .combine (updates elements in place)', True, obj, elems)
                elif a in ('shuffle', 'copyto') and n.args:
                    self.check(n.args[0], a, isinstance(n.args[0], ast.Subscript), obj, elems)

    def stmt(self, s, obj, elems):
        if isinstance(s, ast.FunctionDef):
            # a nested function: its parameters are owned when every call site inside the enclosing function passes owned
            # arguments (or it is only used as a callback of a method of an owned local, e.g. groupby(...).apply(foo))
            sites = [n for n in ast.walk(self.fn) if isinstance(n, ast.Call) and isinstance(n.func, ast.Name) and n.func.id == s.name]
            ps = [a.arg for a in s.args.args]
            owned = set()
            for i, p in enumerate(ps):
                if sites and all(i < len(c.args) and self.fresh(c.args[i], self.at_end_obj(), self.at_end_elems())[0] for c in sites):
                    owned.add(p)
            if not sites:
                cb = [n for n in ast.walk(self.fn) if isinstance(n, ast.Call) and any(isinstance(a, ast.Name) and a.id == s.name for a in n.args)]
                if cb and all(isinstance(c.func, ast.Attribute) and c.func.attr == 'apply' for c in cb):
                    owned.update(ps[:1])
            saved = self.cur_params
            o2, e2 = set(obj) | owned, set(elems) | owned
            self.cur_params = set(ps) - owned
            self.block(s.body, o2, e2)
            rets = [n for n in ast.walk(s) if isinstance(n, ast.Return) and n.value is not None]
            self.returns_alloc[s.name] = bool(rets) and all(self.fresh(r.value, o2, e2)[0] for r in rets)
            self.cur_params = saved
            return
        if isinstance(s, ast.Assign):
            self.calls(s.value, obj, elems)
            fo, fe = self.fresh(s.value, obj, elems)
            for t in s.targets:
                if isinstance(t, ast.Name):
                    (obj.add if fo else obj.discard)(t.id)
                    (elems.add if fe else elems.discard)(t.id)
                elif isinstance(t, (ast.Tuple, ast.List)):
                    for x in t.elts:
                        if isinstance(x, ast.Name):
                            (obj.add if fo and fe else obj.discard)(x.id)
                            (elems.add if fo and fe else elems.discard)(x.id)
                elif isinstance(t, ast.Subscript):
                    self.check(t, 'item store', False, obj, elems)
                    r = root_name(t)
                    if r and not fo:
                        elems.discard(r)
                elif isinstance(t, ast.Attribute):
                    r = root_name(t)
                    if r and r != 'self':
                        self.check(t, 'attribute store', False, obj, elems)
            return
        if isinstance(s, ast.AugAssign):
            self.calls(s.value, obj, elems)
            t = s.target
            if isinstance(t, ast.Name):
                # rebinding for immutable values, in-place for arrays / lists: the name must hold an object of this activation
                if t.id in self.cur_params or t.id not in obj:
                    scalar = self.scalar_local(t.id)
                    self.check(t, 'augmented assignment', False, obj | ({t.id} if scalar else set()), elems)
                else:
                    self.ob('%s@L%d' % (t.id, t.lineno), True, {})
            else:
                self.check(t, 'augmented assignment', isinstance(t, ast.Subscript), obj, elems)
            return
        if isinstance(s, ast.Expr):
            self.calls(s.value, obj, elems)
            return
        if isinstance(s, ast.Return):
            if s.value is not None:
                self.calls(s.value, obj, elems)
            return
        if isinstance(s, ast.If):
            self.calls(s.test, obj, elems)
            o1, e1, o2, e2 = set(obj), set(elems), set(obj), set(elems)
            self.block(s.body, o1, e1)
            self.block(s.orelse, o2, e2)
            obj.intersection_update(o1 & o2)
            obj.update(o1 & o2)
            elems.intersection_update(e1 & e2)
            elems.update(e1 & e2)
            return
        if isinstance(s, (ast.For, ast.While)):
            if isinstance(s, ast.For):
                self.calls(s.iter, obj, elems)
                for x in ast.walk(s.target):
                    if isinstance(x, ast.Name):
                        # elements of an owned container with owned elements are owned
                        r = root_name(s.iter) if isinstance(s.iter, (ast.Name, ast.Subscript, ast.Attribute)) else None
                        ok = r is not None and r in obj and r in elems
                        (obj.add if ok else obj.discard)(x.id)
                        (elems.add if ok else elems.discard)(x.id)
            # two passes approximate the loop-carried facts
            for _ in range(2):
                o1, e1 = set(obj), set(elems)
                saved = len(self.obligations)
                self.block(s.body, o1, e1)
                killed_o, killed_e = obj - o1, elems - e1
                obj.difference_update(killed_o)
                elems.difference_update(killed_e)
                if not killed_o and not killed_e:
                    break
                del self.obligations[saved:]
            return
        if isinstance(s, ast.Assert):
            return
        for n in ast.iter_child_nodes(s):
            if isinstance(n, ast.expr):
                self.calls(n, obj, elems)

    def scalar_local(self, name):
        """is this local only ever bound to arithmetic / numeric expressions (immutable numbers: `x *= c` rebinds)?"""
        if name in self.cur_params:
            return False
        binds = []
        for n in ast.walk(self.fn):
            if isinstance(n, ast.Assign):
                for t in n.targets:
                    if isinstance(t, ast.Name) and t.id == name:
                        binds.append(n.value)
                    elif isinstance(t, (ast.Tuple, ast.List)) and any(isinstance(x, ast.Name) and x.id == name for x in t.elts):
                        binds.append(None)
        def numeric(e):
            if e is None:
                return False
            if isinstance(e, ast.Constant):
                return isinstance(e.value, (int, float))
            if isinstance(e, ast.BinOp):
                return True
            if isinstance(e, ast.Call):
                f = ast.unparse(e.func)
                return f in ('float', 'int', 'len', 'np.sqrt', 'max', 'min', 'abs') or (isinstance(e.func, ast.Name) and f in self.local_fns) or f == 'stepsize'
            return False
        return bool(binds) and all(numeric(b) for b in binds)

    def at_end_obj(self):
        o, e = set(), set()
        sub = Ownership.__new__(Ownership)
        sub.__dict__.update(self.__dict__)
        sub.obligations = []
        sub.local_fns = {}
        sub.cur_params = set()
        for s in self.fn.body:
            if not isinstance(s, ast.FunctionDef):
                try:
                    sub.stmt(s, o, e)
                except RecursionError:
                    break
        self._end = (o, e)
        return o

    def at_end_elems(self):
        return self._end[1]



class ReturnsFresh(Ownership):
    """returns-fresh obligations: every `return <expr>` of the function hands out an object (and storage) that was allocated in
    this activation — never the receiver's own state, a parameter, or a view of either.  This is the callee half of the
    allocator contract the owned-target analysis uses at call sites (ALLOC_CALL_SUFFIXES); with it, a caller that updates a
    returned array in place (synthetic_col's `counts *= ...`) provably cannot touch state that outlives the call.

    kind='fresh'  : as above.
    kind='alias'  : the function is in ALIAS_OF_RECEIVER; every return is either fresh or storage of the receiver (`self.<attr>`
                    or a view of it) — never of another parameter.  Callers treat the result as owned iff the receiver is.
    Names that are unbound on a path are vacuously fresh (reading them raises), so all assigned locals start fresh."""

    def __init__(self, rel, qual, kind='fresh', scalar_returns_ok=True):
        super().__init__(rel, qual)
        self.kind = kind
        self.ctor_mode = True
        self.out_params = ('out',)

    def ob(self, name, ok, detail):
        o = Obligation('%s::%s/returns-%s#%s' % (self.rel, self.qual, self.kind, name), [], None, function='%s::%s' % (self.rel, self.qual), kind='frame')
        o.verdict = 'discharged' if ok else 'refuted'
        o.backend = 'ownership analysis (pv/vc/frames.py)'
        o.model = {} if ok else detail
        o.meta = {'base': o.name}
        self.obligations.append(o)

    def check(self, t, what, need_elems, obj, elems):
        pass                                      # in-place targets are the owned-target analysis' business

    def run(self):
        params = {a.arg for a in self.fn.args.args + self.fn.args.kwonlyargs}
        local = self.assigned_in(self.fn.body) - params
        self.cur_params = params
        self.n_returns = 0
        self.block(self.fn.body, set(local), set(local))
        if not self.n_returns:
            self.ob('no-return-statement', False, dict(reason='the function has no `return <expr>`: nothing to establish (vacuous)'))
        return self.obligations

    def receiver_storage(self, e):
        while isinstance(e, ast.Call) and isinstance(e.func, ast.Attribute) and e.func.attr in ('reshape', 'view', 'ravel', 'squeeze'):
            e = e.func.value
        return isinstance(e, ast.Attribute) and isinstance(e.value, ast.Name) and e.value.id == 'self'

    def stmt(self, s, obj, elems):
        if isinstance(s, ast.FunctionDef):
            return
        if isinstance(s, ast.AugAssign):
            return                                # in place: the binding, hence its freshness, is unchanged
        if isinstance(s, ast.Return) and s.value is not None:
            self.n_returns += 1
            fo, fe = self.fresh(s.value, obj, elems)
            ok = fo and fe
            if isinstance(s.value, ast.Name) and s.value.id in self.out_params and s.value.id in self.cur_params:
                ok = True                         # the caller-supplied destination (numpy's out= convention) is returned by design
            if not ok and self.kind == 'alias':
                v = s.value
                if isinstance(v, ast.Call) and ast.unparse(v.func) in ('np.moveaxis',) and v.args:
                    v = v.args[0]
                if isinstance(v, ast.Call) and ast.unparse(v.func) in ('Factor', 'self.Factor') and len(v.args) == 2:
                    v = v.args[1]
                    if isinstance(v, ast.Name):
                        # a local bound to a view of the receiver's storage
                        binds = [n.value for n in ast.walk(self.fn) if isinstance(n, ast.Assign) and any(isinstance(t, ast.Name) and t.id == v.id for t in n.targets)]
                        ok = bool(binds) and all(isinstance(b, ast.Call) and ast.unparse(b.func) in ('np.moveaxis', 'np.reshape') and b.args
                                                 and (self.receiver_storage(b.args[0]) or self.fresh(b.args[0], obj, elems) == (True, True)) for b in binds)
                if not ok:
                    ok = self.receiver_storage(v)
            self.ob('return@%s' % ast.unparse(s.value)[:50].replace(' ', ''), ok,
                    dict(returned=ast.unparse(s.value), line=s.lineno,
                         reason='the returned object (or the array it holds) is not allocated in this call: it is the receiver\'s '
                                'state, a parameter, or a view of one — a caller updating it in place changes state that outlives the call'))
            return
        super().stmt(s, obj, elems)



class EscapesFresh(ReturnsFresh):
    """escaping-state obligations: every `self.<attr> = <expr>` for the listed attributes stores an object allocated in this
    activation.  For FactoredInference.model (the object `estimate` returns) this is the immutable-snapshot half of C13: together
    with def-before-use of `model`, call k+1 builds and updates its own model object and cannot reach the one call k returned."""

    def __init__(self, rel, qual, attrs):
        super().__init__(rel, qual, 'fresh')
        self.attrs = set(attrs)

    def ob(self, name, ok, detail):
        o = Obligation('%s::%s/stores-fresh#%s' % (self.rel, self.qual, name), [], None, function='%s::%s' % (self.rel, self.qual), kind='frame')
        o.verdict = 'discharged' if ok else 'refuted'
        o.backend = 'ownership analysis (pv/vc/frames.py)'
        o.model = {} if ok else detail
        o.meta = {'base': o.name}
        self.obligations.append(o)

    def run(self):
        params = {a.arg for a in self.fn.args.args + self.fn.args.kwonlyargs}
        local = self.assigned_in(self.fn.body) - params
        self.cur_params = params
        self.n_returns = 0
        self.n_stores = 0
        self.block(self.fn.body, set(local), set(local))
        if not self.n_stores:
            self.ob('no-store', False, dict(reason='no assignment to self.%s in this function: nothing to establish (vacuous)' % '/'.join(sorted(self.attrs))))
        return self.obligations

    def stmt(self, s, obj, elems):
        if isinstance(s, ast.Return):
            return
        if isinstance(s, ast.Assign):
            for t in s.targets:
                if self_attr(t) and t.attr in self.attrs:
                    self.n_stores += 1
                    fo, fe = self.fresh(s.value, obj, elems)
                    self.ob('self.%s=%s' % (t.attr, ast.unparse(s.value)[:40].replace(' ', '')), fo,
                            dict(stored=ast.unparse(s.value), line=s.lineno,
                                 reason='the object stored in self.%s (and handed to the caller) is not allocated in this call on every '
                                        'path: a later call would update the object an earlier call returned' % t.attr))
        super().stmt(s, obj, elems)


def identity_comparisons(rel, qual):
    """`a is b` / `a is not b` between two values (neither a None / True / False literal) is only the equality the algorithm means
    when both names range over the SAME container expression (then equal elements are identical objects); attribute names that come
    from different containers (the domain and a clique tuple) may be equal strings without being the same object.
    One obligation per such comparison: both operands are loop / comprehension variables over textually the same iterable."""
    fn, _, sha = frontend.get_function(rel, qual)
    parent = {}
    for n in ast.walk(fn):
        for c in ast.iter_child_nodes(n):
            parent[id(c)] = n

    def source(name, node):
        """iterable of the innermost enclosing loop / comprehension generator that binds `name` at `node`"""
        cur = node
        while id(cur) in parent:
            cur = parent[id(cur)]
            if isinstance(cur, ast.For) and isinstance(cur.target, ast.Name) and cur.target.id == name:
                return ast.unparse(cur.iter)
            if isinstance(cur, (ast.ListComp, ast.SetComp, ast.GeneratorExp, ast.DictComp)):
                for g in cur.generators:
                    if isinstance(g.target, ast.Name) and g.target.id == name:
                        return ast.unparse(g.iter)
        return None
    obs = []
    for n in ast.walk(fn):
        if isinstance(n, ast.Compare) and len(n.ops) == 1 and isinstance(n.ops[0], (ast.Is, ast.IsNot)):
            l, r = n.left, n.comparators[0]
            if any(isinstance(x, ast.Constant) and x.value in (None, True, False) for x in (l, r)):
                continue
            if any(isinstance(x, ast.Name) and x.id in ('list', 'tuple', 'str', 'int', 'dict', 'set', 'float') for x in (l, r)):
                continue            # type(x) is list
            sl = source(l.id, n) if isinstance(l, ast.Name) else None
            sr = source(r.id, n) if isinstance(r, ast.Name) else None
            ok = sl is not None and sl == sr
            o = Obligation('%s::%s/identity-comparison#%s@L%d' % (rel, qual, ast.unparse(n).replace(' ', '_'), n.lineno), [], None,
                           function='%s::%s' % (rel, qual), kind='frame')
            o.verdict = 'discharged' if ok else 'refuted'
            o.backend = 'binding-source analysis (pv/vc/frames.py)'
            o.model = {} if ok else dict(comparison=ast.unparse(n), line=n.lineno,
                                         left_ranges_over=sl, right_ranges_over=sr,
                                         reason='identity of two values that are not elements of the same container: equal attribute names need not be the same object')
            o.meta = {'base': '%s::%s/identity-comparison#%s' % (rel, qual, ast.unparse(n).replace(' ', '_'))}
            obs.append(o)
    return obs, sha


def purity(rel, qual, allowed_self_stores=()):
    """A callee the deductive tier treats as a deterministic function of its arguments (a typed uninterpreted function): decided on
    its text —
      no-randomness    no reference to numpy.random / random / a `prng` object, no call of time / os.urandom / id / hash
      no-hidden-state  no `global` / `nonlocal`, no store to an attribute of self (other than the listed ones) and no read of an
                       attribute of self that the same method stores (state carried from call to call)
    Callees outside the repository (numpy, scipy) are assumed deterministic; repository callees are judged where they are listed."""
    fn, _, sha = frontend.get_function(rel, qual)
    obs = []

    def add(name, ok, detail):
        o = Obligation('%s::%s/pure#%s' % (rel, qual, name), [], None, function='%s::%s' % (rel, qual), kind='frame')
        o.verdict = 'discharged' if ok else 'refuted'
        o.backend = 'purity scan of the function text (pv/vc/frames.py)'
        o.model = {} if ok else detail
        o.meta = {'base': o.name}
        obs.append(o)
    rnd = []
    for n in ast.walk(fn):
        if isinstance(n, ast.Attribute):
            t = ast.unparse(n).replace(' ', '')
            if t.startswith(('np.random', 'numpy.random', 'random.')) or '.random.' in t or t.split('.')[0] in ('prng', 'rng'):
                rnd.append((t, n.lineno))
        if isinstance(n, ast.Name) and n.id in ('prng', 'rng', 'urandom'):
            rnd.append((n.id, n.lineno))
        if isinstance(n, ast.Call) and ast.unparse(n.func) in ('time.time', 'os.urandom', 'id', 'hash', 'time.perf_counter'):
            rnd.append((ast.unparse(n.func), n.lineno))
    add('no-randomness', not rnd, dict(sources=rnd[:5]))
    hidden = [('global/nonlocal', n.lineno) for n in ast.walk(fn) if isinstance(n, (ast.Global, ast.Nonlocal))]
    stored = set()
    for n in ast.walk(fn):
        tgts = n.targets if isinstance(n, ast.Assign) else [n.target] if isinstance(n, (ast.AugAssign, ast.AnnAssign)) else []
        for t in tgts:
            for x in ast.walk(t):
                r = x
                while isinstance(r, ast.Subscript):
                    r = r.value
                if self_attr(r) and isinstance(getattr(x, 'ctx', None), ast.Store) and r.attr not in allowed_self_stores:
                    stored.add(r.attr)
                    hidden.append(('store to self.%s' % r.attr, x.lineno))
    add('no-hidden-state', not hidden, dict(found=hidden[:5]))
    return obs, sha
