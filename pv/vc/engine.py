"""Symbolic executor / verification-condition generator over the real Python AST.

Forward symbolic execution, path-sensitive for `if`, loops cut by invariants taken from the
sidecar contract (keyed by loop ordinal = position of the loop node in an `ast.walk` of the
function), calls resolved against contracts (modular: only the callee's contract is known),
typed uninterpreted functions for opaque pure callees, and *havoc* (a fresh unconstrained
value, tainted by every argument) for everything else.

Semantics of Python assumed by this encoding — see DESIGN.md section 2.3.  In short: ints are
unbounded, floats are mathematical reals, evaluation is left to right, `assert`/`raise`/a
Python-float division by zero end the path (partial correctness), a callee without contract
does not mutate caller-visible objects unless the call is a recognised mutator
(`x.append`, `x[k] = v`, `x.update`, `x.add`, augmented assignment).

Every value carries a ghost *taint* (a z3 Bool: "may depend on private data") and free-form
ghost attributes (sensitivities, noise kind) used by the privacy contracts.
"""
import ast
import os
import z3

V = z3.DeclareSort('PyVal')          # universal sort for values the theories do not interpret
R = z3.RealSort()
I = z3.IntSort()
B = z3.BoolSort()
FALSE, TRUE = z3.BoolVal(False), z3.BoolVal(True)


class Unsupported(Exception):
    """Construct outside the verified subset: the obligation that needs it is undecided."""


def t_or(*ts):
    ts = [t for t in ts if not z3.is_false(t)]
    if not ts:
        return FALSE
    if any(z3.is_true(t) for t in ts):
        return TRUE
    out = []
    for t in ts:
        if not any(t.eq(o) for o in out):
            out.append(t)
    return out[0] if len(out) == 1 else z3.Or(*out)


# ------------------------------------------------------------------------------------- values
class Val:
    taint = FALSE
    ghost = None

    def with_taint(self, t):
        import copy
        v = copy.copy(self)
        v.taint = t
        return v

    def g(self, key, default=None):
        return (self.ghost or {}).get(key, default)


class Num(Val):
    def __init__(self, t, npy=False, taint=FALSE, ghost=None):
        self.t, self.npy, self.taint, self.ghost = t, npy, taint, ghost

    @property
    def is_int(self):
        return self.t.sort() == I

    def real(self):
        return z3.ToReal(self.t) if self.is_int else self.t

    def __repr__(self):
        return 'Num(%s)' % self.t


class BoolV(Val):
    def __init__(self, t, taint=FALSE):
        self.t, self.taint = t, taint

    def __repr__(self):
        return 'Bool(%s)' % self.t


class Const(Val):
    """None, strings, Ellipsis ... (numbers and booleans become Num / BoolV)."""
    def __init__(self, v, taint=FALSE):
        self.v, self.taint = v, taint

    def __repr__(self):
        return 'Const(%r)' % (self.v,)


class Tup(Val):
    """A tuple or list of statically known length."""
    def __init__(self, items, kind='tuple', taint=FALSE, ghost=None):
        self.items, self.kind, self.taint, self.ghost = list(items), kind, taint, ghost

    def __repr__(self):
        return 'Tup%r' % (self.items,)


class DictV(Val):
    def __init__(self, d=None, taint=FALSE, ghost=None):
        self.d, self.taint, self.ghost = dict(d or {}), taint, ghost


class Obj(Val):
    """An object the theories do not interpret; `cls` is a free-form tag used by hooks."""
    def __init__(self, t, cls=None, taint=FALSE, ghost=None, attrs=None):
        self.t, self.cls, self.taint, self.ghost, self.attrs = t, cls, taint, ghost, attrs or {}

    def __repr__(self):
        return 'Obj(%s:%s)' % (self.t, self.cls)


class FuncV(Val):
    def __init__(self, node, closure, name):
        self.node, self.closure, self.name = node, closure, name


class Bound(Val):
    def __init__(self, recv, name, taint=FALSE):
        self.recv, self.name, self.taint = recv, name, taint


class Ref(Val):
    """A dotted global name such as np.random.normal, resolved by hooks / extern contracts."""
    def __init__(self, name):
        self.name = name

    def __repr__(self):
        return 'Ref(%s)' % self.name


# -------------------------------------------------------------------------------------- state
class State:
    def __init__(self):
        self.env = {}
        self.path = []
        self.ghost = {}          # ghost variables (ledgers ...): name -> z3 term
        self.fields = {}         # (object key, attr) -> Val   for attributes written on this path
        self.pc_taint = FALSE    # taint of the control context (implicit flows)
        self.trace = []          # human-readable notes (calls to primitives ...) for evidence samples
        self.qfacts = []         # quantified facts (see arrays.py), instantiated per obligation

    def fork(self):
        s = State()
        s.env, s.path, s.ghost, s.fields = dict(self.env), list(self.path), dict(self.ghost), dict(self.fields)
        s.pc_taint, s.trace = self.pc_taint, list(self.trace)
        s.qfacts = list(self.qfacts)
        if 'elem_lemmas' in self.__dict__:
            s.elem_lemmas = list(self.elem_lemmas)
        if '_card' in self.__dict__:
            s._card = {k: list(v) for k, v in self._card.items()}
        if '_filters' in self.__dict__:
            s._filters = list(self._filters)
        if '_fi_done' in self.__dict__:
            s._fi_done = set(self._fi_done)
        s.n_writes = getattr(self, 'n_writes', 0)
        s.writes = dict(getattr(self, 'writes', {}))
        for k_ in ('_lin_last', '_bp_last'):
            if k_ in self.__dict__:
                setattr(s, k_, self.__dict__[k_] if not isinstance(self.__dict__[k_], dict) else dict(self.__dict__[k_]))
        return s

    def assume(self, c):
        if not z3.is_true(c):
            self.path.append(c)


class _Return(Exception):
    pass


# ------------------------------------------------------------------------------------- engine
class Engine:
    def __init__(self, fn_node, contract, qualname, hooks=None, registry=None, module_env=None):
        """
        fn_node   : ast.FunctionDef from the real source
        contract  : dict, see pv/contracts/*.py
        hooks     : object with optional methods call(engine, st, fname, recv, args, kw, node),
                    attr(engine, st, obj, name, node), binop(engine, st, op, l, r, node),
                    on_return(engine, st, val, node)
        registry  : {function name as written at call sites: callee contract dict}
        """
        self.fn, self.c, self.qual = fn_node, contract, qualname
        self.hooks = hooks
        self.registry = registry or {}
        self.module_env = module_env or {}
        self.obligations = []
        self.notes = []             # structural remarks (havoc sites ...) for evidence
        self.returns = []           # (state, value)
        self.counter = 0
        self.ufs = {}
        loops = [n for n in ast.walk(fn_node) if isinstance(n, (ast.For, ast.While))]
        self.loop_ord = {id(n): i + 1 for i, n in enumerate(loops)}
        self.n_loops = len(loops)
        calls = [n for n in ast.walk(fn_node) if isinstance(n, ast.Call)]
        calls.sort(key=lambda n: (n.lineno, n.col_offset))
        self.canaries = []          # (name, path) reachability probes
        self.from_solver = __import__('pv.vc.solver', fromlist=['Obligation'])

    # ---- helpers
    def fresh(self, base, sort=R):
        self.counter += 1
        return z3.Const('%s!%d' % (base, self.counter), sort)

    def uf(self, name, *sorts):
        key = (name,) + tuple(str(s) for s in sorts)
        if key not in self.ufs:
            self.ufs[key] = z3.Function(name, *sorts)
        return self.ufs[key]

    def oblige(self, st, name, goal, kind='', meta=None):
        Ob = self.from_solver.Obligation
        full = '%s/%s' % (self.qual, name)
        n = sum(1 for o in self.obligations if o.meta.get('base') == full)
        path = list(st.path)
        cts = list(getattr(self, '_const_terms', {}).values())
        if len(cts) > 1:
            path.append(z3.Distinct(*cts))
        if getattr(st, 'qfacts', None) and hasattr(self, 'instantiate'):
            path += self.instantiate(st, goal)
        ob = Ob(full if n == 0 else '%s~path%d' % (full, n + 1), path, goal, function=self.qual, kind=kind, meta=dict(meta or {}, base=full))
        if getattr(st, 'qfacts', None) and hasattr(self, 'refine'):
            self._refine_states = getattr(self, '_refine_states', {})
            self._refine_states[id(ob)] = st.fork()       # for model-based refinement of a `sat` answer (pv/vc/arrays.py)
        self.obligations.append(ob)

    def note(self, msg):
        if msg not in self.notes:
            self.notes.append(msg)

    # ---- conversion to the universal sort (for passing typed values to uninterpreted functions)
    def to_V(self, v):
        if isinstance(v, Obj):
            return v.t
        if isinstance(v, Num):
            return self.uf('of_real', R, V)(v.real())
        if isinstance(v, BoolV):
            return self.uf('of_bool', B, V)(v.t)
        if isinstance(v, Const):
            t = z3.Const('const<%r>' % (v.v,), V)
            if isinstance(v.v, str) or v.v is None:
                self._const_terms = getattr(self, '_const_terms', {})
                self._const_terms[repr(v.v)] = t         # different literals are different values (asserted at every obligation)
            return t
        if isinstance(v, Tup):
            if not v.items:
                return z3.Const('empty<%s>' % v.kind, V)
            f = self.uf('%s%d' % (v.kind, len(v.items)), *([V] * len(v.items) + [V]))
            return f(*[self.to_V(x) for x in v.items])
        if isinstance(v, Ref):
            return z3.Const('global<%s>' % v.name, V)
        if isinstance(v, Bound) and isinstance(v.recv, Obj):
            return self.uf('attr_' + v.name, V, V)(v.recv.t)         # an attribute read: deterministic
        if isinstance(v, Bound) and isinstance(v.recv, Bound):
            return self.uf('attr_' + v.name, V, V)(self.to_V(v.recv))
        if isinstance(v, (FuncV, Bound, DictV)):
            return self.fresh('closure', V)
        if hasattr(v, '_at') and hasattr(self, 'arr_to_V'):
            return self.arr_to_V(v)
        if getattr(v, 'is_dictsym', False):
            return v.t
        if hasattr(v, 'labels') and hasattr(v, 'data'):
            return v.data
        if hasattr(v, 'terms') and self.hooks is not None and hasattr(self.hooks, 'canon'):
            return self.hooks.canon(self, v)          # a linear combination of opaque tables (pv/vc/linvec.py)
        raise Unsupported('to_V(%r)' % (v,))

    def fresh_like(self, v, base, taint=None):
        taint = v.taint if taint is None else taint
        if isinstance(v, Num):
            return Num(self.fresh(base, I if v.is_int else R), npy=v.npy, taint=taint, ghost=v.ghost)
        if isinstance(v, BoolV):
            return BoolV(self.fresh(base, B), taint=taint)
        if hasattr(v, '_at'):
            from . import arrays
            self.counter += 1
            probe = v.at(self, State(), z3.Int('probe!%d' % self.counter)) if True else None
            kind = 'real' if isinstance(probe, Num) else 'obj'
            a = arrays.sym_array(self, '%s!%d' % (base, self.counter), elem=kind, taint=taint, np=v.np)
            a.len_taint = v.taint if v.len_taint is None else v.len_taint     # the length keeps its own (entry) taint
            return a
        cls = v.cls if isinstance(v, Obj) else ('list' if isinstance(v, Tup) and v.kind == 'list' else
                                                'dict' if isinstance(v, DictV) else None)
        return Obj(self.fresh(base, V), cls=cls, taint=taint, ghost=getattr(v, 'ghost', None))

    def typed(self, ty, base, taint=FALSE):
        """A fresh symbolic value of a declared type: 'real' | 'npreal' | 'int' | 'bool' | 'none' | 'obj:<cls>'."""
        if isinstance(ty, Val):
            return ty
        if ty == 'real':
            return Num(z3.Real(base), taint=taint)
        if ty == 'npreal':
            return Num(z3.Real(base), npy=True, taint=taint)
        if ty == 'int':
            return Num(z3.Int(base), taint=taint)
        if ty == 'bool':
            return BoolV(z3.Bool(base), taint=taint)
        if ty == 'none':
            return Const(None)
        if ty.startswith('str:'):
            return Const(ty[4:])
        if ty.startswith('obj'):
            return Obj(z3.Const(base, V), cls=ty[4:] or None, taint=taint)
        if ty.startswith('dict:'):
            from . import arrays
            return arrays.DictSym(self, base, val=ty[5:], taint=taint)
        if ty.startswith('arr:') or ty.startswith('seq:'):
            from . import arrays
            return arrays.sym_array(self, base, elem=ty[4:], taint=taint, np=ty.startswith('arr:'))
        raise Unsupported('type %r' % ty)

    def truth(self, st, v, node=None):
        """Python truthiness as a z3 Bool."""
        if isinstance(v, BoolV):
            return v.t
        if isinstance(v, Num):
            return v.t != 0
        if isinstance(v, Const):
            return z3.BoolVal(bool(v.v))
        if isinstance(v, Tup):
            return z3.BoolVal(len(v.items) > 0)
        if isinstance(v, DictV):
            return z3.BoolVal(len(v.d) > 0)
        if isinstance(v, Obj):
            return self.uf('truthy', V, B)(v.t)
        if isinstance(v, (FuncV, Bound, Ref)):
            return TRUE
        if hasattr(v, '_at') and not v.np:
            return v.n > 0           # a list / tuple is true iff non-empty
        raise Unsupported('truth(%r)' % (v,))

    # ---- spec expressions (same evaluator, spec mode: no obligations, extra names)
    def spec(self, text, st, extra=None, mode='assume'):
        """mode 'assume': forall(...) becomes a quantified fact of `st`; mode 'prove': it is Skolemised.
        forall may only occur in positive positions (conjunct / right-hand side of implies)."""
        st2 = st.fork()
        if getattr(self, 'entry', None) is not None:
            for k_, v_ in self.entry_names().items():
                st2.env.setdefault(k_, v_)
            for g_, t_ in self.entry.ghost.items():
                st2.env.setdefault(g_ + '__pre', Num(t_) if t_.sort() != B else BoolV(t_))
        if extra:
            st2.env.update(extra)
        self._spec_mode = getattr(self, '_spec_mode', 0) + 1
        old_pol = getattr(self, '_spec_polarity', 'assume')
        self._spec_polarity = mode
        try:
            v = self.ev(st2, ast.parse(text, mode='eval').body)
        finally:
            self._spec_mode -= 1
            self._spec_polarity = old_pol
        if len(st2.qfacts) > len(st.qfacts):
            # quantified facts registered while evaluating a spec are definitional (membership, first index, forall markers)
            st.qfacts = list(st2.qfacts)
            if '_fi_done' in st2.__dict__:
                st._fi_done = set(st2._fi_done)
        if len(getattr(st2, 'elem_lemmas', [])) > len(getattr(st, 'elem_lemmas', [])):
            st.elem_lemmas = list(st2.elem_lemmas)
        if '_card' in st2.__dict__:
            st._card = {k: list(v) for k, v in st2._card.items()}
        if len(st2.__dict__.get('_filters', [])) > len(st.__dict__.get('_filters', [])):
            st._filters = list(st2._filters)
        extra_facts = st2.path[len(st.path):]
        t = self.truth(st2, v)
        # facts introduced while evaluating the spec (ground axioms of opaque terms) are sound to assume
        return t, extra_facts

    def in_spec(self):
        return getattr(self, '_spec_mode', 0) > 0

    # ---- running a function
    def run(self):
        st = State()
        c = self.c
        params = c.get('params', {})
        args = self.fn.args
        names = [a.arg for a in args.posonlyargs + args.args + args.kwonlyargs]
        for n in names:
            ty = params.get(n, 'obj:')
            st.env[n] = self.typed(ty, n) if not callable(ty) else ty(self, n)
            if hasattr(st.env[n], 'n') and z3.is_expr(getattr(st.env[n], 'n', None)):
                st.assume(st.env[n].n >= 0)
        for k, v in self.module_env.items():
            st.env.setdefault(k, v)
        if self.hooks and hasattr(self.hooks, 'init'):
            self.hooks.init(self, st)
        for r in c.get('requires', []):
            t, facts = self.spec(r, st)
            for f in facts:
                st.assume(f)
            st.assume(t)
        self.entry = st.fork()
        self.canaries.append(('entry', list(st.path)))
        from ..frontend import strip_noise
        outs = self.block([st], strip_noise(self.fn.body))
        for s in outs:                       # falling off the end returns None
            self.do_return(s, Const(None), self.fn)
        return self.obligations

    def do_return(self, st, val, node):
        self.canaries.append(('return@%d' % getattr(node, 'lineno', 0), list(st.path)))
        self.returns.append((st, val))
        if self.hooks and hasattr(self.hooks, 'on_return'):
            self.hooks.on_return(self, st, val, node)
        extra = dict(self.entry_names())
        for g, t in self.entry.ghost.items():
            extra[g + '__pre'] = Num(t) if t.sort() != B else BoolV(t)
        extra[self.c.get('result_name', 'result')] = val        # result_name: for functions that have a local called `result`
        lemmas_from = set(self.c.get('ensures_as_lemmas', ()))
        for name, text in self.c.get('ensures', {}).items():
            self._last_skolems = []
            t, facts = self.spec(text, st, extra, mode='prove')
            s2 = st.fork()
            for f in facts:
                s2.assume(f)
            hint = (self.c.get('hints') or {}).get(name)
            self._clause_rounds = None
            if hint and self._last_skolems and hasattr(self, 'hint_instances'):
                # proof hints: the index terms the paper proof of this clause instantiates the quantified facts at, written as
                # lambdas of the clause's Skolem variable; only consequences of assumed facts are added
                sk = self._last_skolems[0]
                terms = []
                s3 = s2.fork()
                s3.env.update(extra)
                s3.env['_sk'] = Num(sk)
                self._spec_mode = getattr(self, '_spec_mode', 0) + 1
                try:
                    for h in hint.get('terms', ()):
                        v = self.ev(s3, ast.parse(h, mode='eval').body)
                        if isinstance(v, Num):
                            terms.append(v.t if v.is_int else z3.ToInt(v.t))
                finally:
                    self._spec_mode -= 1
                for f in s3.path[len(s2.path):]:
                    s2.assume(f)
                s2.qfacts = list(s3.qfacts)
                if '_fi_done' in s3.__dict__:
                    s2._fi_done = set(s3._fi_done)
                self.hint_instances(s2, terms)
                self._clause_rounds = hint.get('inst_rounds')
            self.oblige(s2, 'ensures#%s' % name, t, kind='postcondition')
            self._clause_rounds = None
            if name in lemmas_from:
                # a postcondition that has its own obligation may serve as a lemma for the clauses after it (in assume mode:
                # its quantifiers become facts to instantiate)
                t2, facts2 = self.spec(text, st, extra, mode='assume')
                for f in facts2:
                    st.assume(f)
                st.assume(t2)

    def entry_names(self):
        """old(x) is spelled x__old in specs; parameters keep their entry values under that name."""
        return {k + '__old': v for k, v in self.entry.env.items()}

    # ---- statements
    def block(self, states, stmts):
        for s in stmts:
            nxt = []
            for st in states:
                nxt.extend(self.stmt(st, s))
            states = nxt
            if not states:
                break
        return states

    def assign_target(self, st, tgt, val, node):
        if isinstance(tgt, ast.Name):
            if self.hooks and hasattr(self.hooks, 'on_assign') and isinstance(node, (ast.Assign, ast.AugAssign)):
                self.hooks.on_assign(self, st, tgt, val, node)       # site contracts on the value a local is (re)bound to
            ut = self.c.get('unpack_types', {}).get(tgt.id)
            if ut == 'real' and isinstance(val, Obj):
                val = Num(self.uf('as_real', V, R)(val.t), npy=True, taint=val.taint, ghost=val.ghost)
            st.env[tgt.id] = val
        elif isinstance(tgt, (ast.Tuple, ast.List)):
            if isinstance(val, Tup) and len(val.items) == len(tgt.elts):
                for t, v in zip(tgt.elts, val.items):
                    self.assign_target(st, t, v, node)
            elif hasattr(val, '_at'):
                st.assume(val.n == len(tgt.elts))        # unpacking a sequence of another length raises ValueError
                for k, t in enumerate(tgt.elts):
                    self.assign_target(st, t, val.at(self, st, z3.IntVal(k)), node)
            else:
                base = self.to_V(val) if not isinstance(val, (FuncV, Bound)) else self.fresh('unp', V)
                for k, t in enumerate(tgt.elts):
                    item = self.unpack_item(st, val, base, k, len(tgt.elts), node)
                    self.assign_target(st, t, item, node)
        elif isinstance(tgt, ast.Attribute):
            o = self.ev(st, tgt.value)
            if isinstance(o, Bound):
                o = self.bound_as_value(st, o)
            if self.hooks and hasattr(self.hooks, 'setattr'):
                if self.hooks.setattr(self, st, o, tgt.attr, val, node) is not NotImplemented:
                    st.n_writes = getattr(st, 'n_writes', 0) + 1
                    return
            st.n_writes = getattr(st, 'n_writes', 0) + 1          # heap write: comprehension values are keyed by the write epoch
            if isinstance(o, Obj):
                st.fields[(str(o.t), tgt.attr)] = val
            else:
                raise Unsupported('attribute assignment on %r' % (o,))
        elif isinstance(tgt, ast.Subscript):
            o = self.ev(st, tgt.value)
            k = self.ev(st, tgt.slice)
            if self.hooks and hasattr(self.hooks, 'setitem'):
                # site contracts are evaluated here, in the state the stored value was computed in (same write epoch)
                if self.hooks.setitem(self, st, tgt, o, k, val, node) is not NotImplemented:
                    self.bump_writes(st, tgt)
                    return
            self.bump_writes(st, tgt)
            self._in_store = True
            try:
                self.store_item(st, tgt.value, o, k, val, node)
            finally:
                self._in_store = False
        else:
            raise Unsupported('assignment target %s' % type(tgt).__name__)

    def unpack_item(self, st, val, base, k, n, node):
        # a, b = x  binds  a = x[0], b = x[1]: the same uninterpreted `getitem` as an explicit subscript
        return Obj(self.uf('getitem', V, V, V)(base, self.to_V(Num(z3.IntVal(k)))), taint=val.taint,
                   ghost=(val.g('elem_ghost') if isinstance(val, (Obj, Tup)) else None))

    def const_key(self, k):
        if isinstance(k, Const):
            return ('c', k.v)
        if isinstance(k, Num) and z3.is_rational_value(k.t) or isinstance(k, Num) and z3.is_int_value(k.t):
            return ('n', str(k.t))
        if isinstance(k, Tup):
            ks = [self.const_key(x) for x in k.items]
            if all(x is not None for x in ks):
                return ('t',) + tuple(ks)
        return None

    def store_item(self, st, target_expr, o, k, val, node):
        """x[k] = v : functional update of the variable holding x (x is a local container)."""
        if hasattr(o, 'labels') and hasattr(o, 'data'):
            return            # masked / indexed assignment into an n-d array keeps its axes
        if isinstance(o, DictV):
            ck = self.const_key(k)
            if ck is not None:
                new = DictV(o.d, taint=t_or(o.taint, val.taint, k.taint, st.pc_taint), ghost=o.ghost)
                new.d[ck] = val
                self.rebind(st, target_expr, new)
                return
        new = self.fresh_like(o if isinstance(o, Obj) else Obj(None, cls='dict'), 'upd',
                              taint=t_or(o.taint, val.taint, k.taint, st.pc_taint))
        if isinstance(new, Obj):
            ghost = dict(getattr(o, 'ghost', None) or {})
            # element-level ghost facts are joined conservatively by hooks; default: drop
            new.ghost = self.hooks.join_ghost(self, st, o, val) if self.hooks and hasattr(self.hooks, 'join_ghost') else None
        self.rebind(st, target_expr, new)

    def bump_writes(self, st, tgt):
        """x[k] = v on a local container x changes what comprehensions over x denote, and nothing else (local containers are not
        aliased: the encoding's functional update of x already assumes it); any other store advances the global epoch."""
        root = tgt
        while isinstance(root, ast.Subscript):
            root = root.value
        if isinstance(root, ast.Name):
            w = dict(getattr(st, 'writes', {}))
            w[root.id] = w.get(root.id, 0) + 1
            st.writes = w
        else:
            st.n_writes = getattr(st, 'n_writes', 0) + 1

    def rebind(self, st, expr, new):
        if not (getattr(self, '_in_store', False) and isinstance(expr, ast.Name)):
            st.n_writes = getattr(st, 'n_writes', 0) + 1
        if isinstance(expr, ast.Name):
            st.env[expr.id] = new
        elif isinstance(expr, ast.Attribute):
            o = self.ev(st, expr.value)
            if isinstance(o, Bound):
                o = self.bound_as_value(st, o)
            if isinstance(o, Obj):
                st.fields[(str(o.t), expr.attr)] = new
            else:
                raise Unsupported('rebind through %r' % (o,))
        elif isinstance(expr, ast.Subscript):
            # x[a][b] = v : update of a nested container; treat as update of x[a]
            o = self.ev(st, expr.value)
            k = self.ev(st, expr.slice)
            self.store_item(st, expr.value, o, k, new, expr)
        else:
            raise Unsupported('mutation of a non-variable container')

    def stmt(self, st, s):
        try:
            return self._stmt(st, s)
        except _Return:
            return []

    def _stmt(self, st, s):
        if isinstance(s, ast.Expr):
            self.ev(st, s.value)
            return [st]
        if isinstance(s, ast.Pass):
            return [st]
        if isinstance(s, (ast.Import, ast.ImportFrom)):
            for a in s.names:
                st.env[(a.asname or a.name).split('.')[0]] = Ref(a.asname or a.name)
            return [st]
        if isinstance(s, ast.FunctionDef):
            st.env[s.name] = FuncV(s, st, s.name)
            return [st]
        if isinstance(s, ast.Assert):
            c = self.truth(st, self.ev(st, s.test))
            st.assume(c)                       # a failing assert raises: the path ends, nothing is returned
            return [st]
        if isinstance(s, ast.Raise):
            return []
        if isinstance(s, ast.Assign):
            v = self.ev(st, s.value)
            for t in s.targets:
                self.assign_target(st, t, v, s)
            return [st]
        if isinstance(s, ast.AugAssign):
            cur = self.ev(st, s.target)
            r = self.ev(st, s.value)
            v = self.binop(st, s.op, cur, r, s, inplace=True)
            self.assign_target(st, s.target, v, s)
            return [st]
        if isinstance(s, ast.Return):
            v = self.ev(st, s.value) if s.value is not None else Const(None)
            self.do_return(st, v, s)
            return []
        if isinstance(s, ast.If):
            cv = self.ev(st, s.test)
            if self.hooks and hasattr(self.hooks, 'on_branch'):
                self.hooks.on_branch(self, st, cv, s)
            c = self.truth(st, cv)
            out = []
            for cond, body in ((c, s.body), (z3.Not(c), s.orelse)):
                cond = z3.simplify(cond)
                if z3.is_false(cond):
                    continue
                t = st.fork()
                t.assume(cond)
                old_pc = t.pc_taint
                t.pc_taint = t_or(t.pc_taint, cv.taint)
                res = self.block([t], body)
                for r_ in res:
                    r_.pc_taint = old_pc
                out.extend(res)
            return out
        if isinstance(s, ast.For):
            return self.for_loop(st, s)
        if isinstance(s, ast.While):
            return self.while_loop(st, s)
        if isinstance(s, ast.Break):
            st._break = True
            return [st]
        if isinstance(s, ast.Continue):
            st._continue = True
            return [st]
        raise Unsupported('statement %s at line %d' % (type(s).__name__, s.lineno))

    # ---- loops
    def loop_mods(self, node):
        mods = []
        def add(n):
            if n not in mods:
                mods.append(n)
        def root(e):
            # x.a[...].b...  ->  '@x.a' (only that field of the object is modified);  x[...]  ->  'x'
            first_attr = None
            while isinstance(e, (ast.Subscript, ast.Attribute)):
                if isinstance(e, ast.Attribute):
                    first_attr = e.attr
                e = e.value
            if not isinstance(e, ast.Name):
                return None
            if first_attr is not None:
                # find the attribute applied directly to the root name
                return '@%s.%s' % (e.id, first_attr)
            return e.id
        body_nodes = []
        for b in node.body + node.orelse:
            body_nodes.extend(ast.walk(b))
        for n in body_nodes:
            tg = []
            if isinstance(n, ast.Assign):
                tg = n.targets
            elif isinstance(n, ast.AugAssign):
                tg = [n.target]
            elif isinstance(n, ast.For):
                tg = [n.target]
            elif isinstance(n, ast.FunctionDef):
                add(n.name)
            elif isinstance(n, ast.Call) and isinstance(n.func, ast.Attribute) and \
                    n.func.attr in ('append', 'extend', 'update', 'add', 'remove', 'pop', 'union', 'add_edge', 'sort',
                                    'discard', 'clear', 'insert', 'setdefault', 'combine'):
                r = root(n.func.value)
                if r:
                    add(r if r.startswith('@') else '?' + r)        # mutated through a method: only a local variable can be meant
            for t in tg:
                for x in ast.walk(t):
                    if isinstance(x, ast.Name) and isinstance(x.ctx, ast.Store):
                        add(x.id)
                if isinstance(t, (ast.Subscript, ast.Attribute)):
                    r = root(t)
                    if r:
                        add(r)
        return mods

    def run_body(self, st, body):
        """Execute a loop body; returns (fall-through states incl. `continue`, break states)."""
        from ..frontend import strip_noise
        states, breaks, done = [st], [], []
        for s in strip_noise(body):
            nxt = []
            for cur in states:
                for r in self.stmt(cur, s):
                    if getattr(r, '_break', False):
                        r._break = False
                        breaks.append(r)
                    elif getattr(r, '_continue', False):
                        r._continue = False
                        done.append(r)
                    else:
                        nxt.append(r)
            states = nxt
        return states + done, breaks

    def loop_contract(self, node):
        no = self.loop_ord[id(node)]
        return no, self.c.get('loops', {}).get(no, {})

    def havoc_mods(self, st, mods, taints, tag, ghosts=None):
        # write epochs (see comp_term): a havocked local advances its own epoch, a havocked field the global one
        w = dict(getattr(st, 'writes', {}))
        for m_ in mods:
            nm_ = m_.lstrip('?')
            if nm_.startswith('@'):
                st.n_writes = getattr(st, 'n_writes', 0) + 1
            else:
                w[nm_] = w.get(nm_, 0) + 1
        st.writes = w
        mods = [m for m in mods if not m.startswith('?')] + \
               [m[1:] for m in mods if m.startswith('?') and m[1:] in st.env and m[1:] not in mods]
        for m in [m for m in mods if m.startswith('@')]:
            rname, attr = m[1:].split('.', 1)
            o = st.env.get(rname)
            if isinstance(o, Obj):
                key = (str(o.t), attr)
                old = st.fields.get(key)
                st.fields[key] = Obj(self.fresh('%s_%s_%s' % (rname, attr, tag), V), cls=getattr(old, 'cls', None),
                                     taint=t_or(getattr(old, 'taint', FALSE), taints.get(m, FALSE)), ghost=getattr(old, 'ghost', None))
        mods = [m for m in mods if not m.startswith('@')]
        for m in mods:
            lt = self.c.get('local_types', {}).get(m)
            if m in st.env and lt and (lt.startswith('seq:') or lt.startswith('arr:')) and not hasattr(st.env[m], '_at'):
                old = st.env[m]
                self.counter += 1
                st.env[m] = self.typed(lt, '%s_%s!%d' % (m, tag, self.counter), taint=t_or(old.taint, taints.get(m, FALSE)))
                st.assume(st.env[m].n >= 0)
                continue
            if m in st.env:
                old = st.env[m]
                if isinstance(old, (FuncV, Ref)):
                    continue
                st.env[m] = self.fresh_like(old, '%s_%s' % (m, tag), taint=t_or(old.taint, taints.get(m, FALSE)))
                if hasattr(st.env[m], '_at'):
                    st.assume(st.env[m].n >= 0)
                if self.hooks and hasattr(self.hooks, 'havoc_ghost_value') and isinstance(st.env[m], Obj):
                    st.env[m].ghost = self.hooks.havoc_ghost_value(self, st, old)
                if ghosts and ghosts.get(m) is not None and not isinstance(st.env[m], (Num, BoolV)):
                    try:
                        st.env[m].ghost = ghosts[m]
                    except AttributeError:
                        pass
            else:
                ty = self.c.get('local_types', {}).get(m)
                if ty:
                    self.counter += 1
                    st.env[m] = self.typed(ty, '%s_%s!%d' % (m, tag, self.counter), taint=taints.get(m, FALSE))
                else:
                    st.env[m] = Obj(self.fresh('%s_%s' % (m, tag), V), taint=taints.get(m, FALSE))
        # fields written in the loop are havocked by dropping path-local knowledge about them
        for g in list(st.ghost):
            pass

    def havoc_ghost(self, st, L, tag):
        for g in L.get('ghost_modifies', list(st.ghost)):
            if g in st.ghost and not L.get('ghost_frame', {}).get(g):
                st.ghost[g] = self.fresh('%s_%s' % (g, tag), st.ghost[g].sort())

    def inv_terms(self, st, L, extra, mode='assume'):
        out = []
        for inv in L.get('invariant', []):
            t, facts = self.spec(inv, st, extra, mode=mode)
            out.append((inv, t, facts))
        return out

    def generic_loop(self, st, node, setup_iter, guard_fn, after_guard_fn):
        """Common invariant-based loop rule.
        setup_iter(state, k) binds the loop target for iteration index k (or None for while loops)."""
        no, L = self.loop_contract(node)
        mods = self.loop_mods(node)
        mods = [m for m in mods if not m.startswith('?')] + \
               [m[1:] for m in mods if m.startswith('?') and m[1:] in st.env and m[1:] not in mods]
        for m in mods:                       # values at loop entry, for invariants: <var>__loop<no>
            if m in st.env:
                st.env['%s__loop%d' % (m, no)] = st.env[m]
        for g_, t_ in st.ghost.items():
            st.env['%s__loop%d' % (g_, no)] = Num(t_) if t_.sort() != B else BoolV(t_)
        k = self.fresh('k%d' % no, I)
        # 1. invariant holds on entry
        lo = L.get('_lo', z3.IntVal(0))
        s0 = st.fork()
        if setup_iter:
            setup_iter(s0, lo, entry=True)
        for inv, t, facts in self.inv_terms(s0, L, {}, mode='prove'):
            s1 = s0.fork()
            for f in facts:
                s1.assume(f)
            self.oblige(s1, 'loop%d/init#%s' % (no, inv), t, kind='loop-invariant-init')
        # 2. arbitrary iteration (taint fixpoint on the havocked variables)
        taints = {}
        ghosts = {}
        fields_before = dict(st.fields)
        for rnd in range(6):
            body = st.fork()
            self.havoc_mods(body, mods, taints, 'it%d' % no, ghosts)
            self.havoc_ghost(body, L, 'it%d' % no)
            body.fields = {kk: vv for kk, vv in body.fields.items() if kk[1] not in L.get('fields_modified', ())}
            g = guard_fn(body, k)
            if g is not None:
                body.assume(g)
            if setup_iter:
                setup_iter(body, k, entry=False)
            for inv, t, facts in self.inv_terms(body, L, {}):
                for f in facts:
                    body.assume(f)
                body.assume(t)
            ghost_at_body_start = dict(body.ghost)
            mark = len(self.obligations)
            nmark = len(self.canaries)
            self.canaries.append(('loop%d/body' % no, list(body.path)))
            n_returns = len(self.returns)
            ends, breaks = self.run_body(body, node.body)
            new_taints = dict(taints)
            for e in ends + breaks:
                for m in mods:
                    if m in e.env:
                        tt = t_or(new_taints.get(m, FALSE), e.env[m].taint)
                        new_taints[m] = z3.simplify(tt)
            new_ghosts = dict(ghosts)
            for e in ends + breaks:
                for m in mods:
                    g = getattr(e.env.get(m), 'ghost', None)
                    if g and not isinstance(e.env.get(m), (Num, BoolV)) and ghosts.get(m) is None:
                        new_ghosts[m] = g
            stable = all(str(new_taints.get(m, FALSE)) == str(taints.get(m, FALSE)) for m in mods) and \
                all(str(new_ghosts.get(m)) == str(ghosts.get(m)) for m in mods)
            ghosts = new_ghosts
            if stable:
                break
            taints = new_taints
            del self.obligations[mark:]          # re-run with the larger taint assumption
            del self.canaries[nmark:]
            del self.returns[n_returns:]
        else:
            raise Unsupported('taint fixpoint did not stabilise for loop %d' % no)
        for e in ends:
            e2 = e.fork()
            if setup_iter:
                setup_iter(e2, k + 1, entry=True)
            for inv, t, facts in self.inv_terms(e2, L, {}, mode='prove'):
                e3 = e2.fork()
                for f in facts:
                    e3.assume(f)
                self.oblige(e3, 'loop%d/preserved#%s' % (no, inv), t, kind='loop-invariant-preserved')
        # 3. after the loop
        after = st.fork()
        self.havoc_mods(after, mods, taints, 'ex%d' % no, ghosts)
        if 'ghost_modifies' not in L:
            # only ghost variables that some path through the body actually changed need to be forgotten
            changed = [g for g in st.ghost if any(not z3.eq(e.ghost.get(g, ghost_at_body_start[g]), ghost_at_body_start[g])
                                                  for e in ends + breaks if g in ghost_at_body_start)]
            L = dict(L, ghost_modifies=changed)
        self.havoc_ghost(after, L, 'ex%d' % no)
        after.fields = {kk: vv for kk, vv in after.fields.items() if kk[1] not in L.get('fields_modified', ())}
        kx = after_guard_fn(after)
        if setup_iter:
            setup_iter(after, kx, entry=True, exit_=True)
        for inv, t, facts in self.inv_terms(after, L, {}):
            for f in facts:
                after.assume(f)
            after.assume(t)
        outs = [after]
        for b in breaks:
            outs.append(b)
        if node.orelse:
            outs = self.block([after], node.orelse) + breaks
        return outs

    def for_loop(self, st, node):
        itv = self.ev(st, node.iter)
        if self.hooks and hasattr(self.hooks, 'on_loop_bound'):
            self.hooks.on_loop_bound(self, st, itv, node)
        no, L = self.loop_contract(node)
        # statically known, short sequences are unrolled unless the contract gives an invariant
        if isinstance(itv, Tup) and not L.get('invariant') and len(itv.items) <= L.get('unroll', 8):
            states = [st]
            outs = []
            for item in itv.items:
                nxt = []
                for cur in states:
                    self.assign_target(cur, node.target, item, node)
                    ends, breaks = self.run_body(cur, node.body)
                    nxt.extend(ends)
                    outs.extend(breaks)
                states = nxt
            return states + outs
        rng = itv.g('range') if isinstance(itv, Obj) else None
        if rng is not None:
            lo, hi = rng
            def setup(s, k, entry, exit_=False):
                self.assign_target(s, node.target, Num(k if z3.is_expr(k) else z3.IntVal(k)), node)
            def guard(s, k):
                return z3.And(k >= lo, k < hi)
            def after(s):
                kx = self.fresh('kx%d' % no, I)
                s.assume(z3.If(hi >= lo, kx == hi, kx == lo))
                return kx
            self.c.setdefault('loops', {}).setdefault(no, {})['_lo'] = lo
            pre = st.env.get(node.target.id) if isinstance(node.target, ast.Name) else None
            outs = self.generic_loop(st, node, setup, guard, after)
            # inside invariants the loop target denotes lo + (number of completed iterations); the
            # program variable itself keeps the last value taken (hi-1), or its old binding if hi <= lo
            if isinstance(node.target, ast.Name):
                for o in outs:
                    cur = o.env.get(node.target.id)
                    if isinstance(cur, Num) and z3.is_expr(cur.t) and cur.t.sort() == I:
                        ran = z3.simplify(hi > lo)
                        if z3.is_true(ran):
                            o.env[node.target.id] = Num(z3.simplify(hi - 1))
                        elif isinstance(pre, Num):
                            o.env[node.target.id] = Num(z3.If(ran, hi - 1, pre.t if pre.is_int else z3.ToInt(pre.t)))
                        else:
                            o.env[node.target.id] = Num(self.fresh('loopvar', I))
            return outs
        # symbolic sequence: arbitrary element
        if getattr(itv, 'is_dictsym', False):
            itv = itv.keys_arr()          # iterating a dict yields its keys
        arr = itv if hasattr(itv, '_at') else None
        if isinstance(itv, Tup):
            itv_t = self.to_V(itv)
            elems = itv.items
        else:
            itv_t = self.to_V(itv)
            elems = None
        n = arr.n if arr is not None else self.uf('len', V, I)(itv_t)
        def setup(s, k, entry, exit_=False):
            s.env['_it'] = Num(k if z3.is_expr(k) else z3.IntVal(k))     # ghost: number of completed iterations
            s.env['_it%d' % no] = s.env['_it']
            if exit_ or entry:
                return
            item = None
            if self.hooks and hasattr(self.hooks, 'loop_item'):
                item = self.hooks.loop_item(self, s, itv, k, node)
            if (item is None or item is NotImplemented) and arr is not None:
                item = arr.at(self, s, k if z3.is_expr(k) else z3.IntVal(k))
            if item is None or item is NotImplemented:
                if elems is not None and elems and all(isinstance(x, Num) for x in elems):
                    item = Num(self.fresh('elem', R), taint=t_or(*[x.taint for x in elems]))
                else:
                    item = Obj(self.uf('getitem', V, V, V)(itv_t, self.to_V(Num(k if z3.is_expr(k) else z3.IntVal(k)))),
                               taint=t_or(itv.taint, *[x.taint for x in (elems or [])]),
                               ghost=(itv.g('elem_ghost') if isinstance(itv, (Obj, Tup)) else None))
            self.assign_target(s, node.target, item, node)
        def guard(s, k):
            return z3.And(k >= 0, k < n)
        def after(s):
            s.assume(n >= 0)
            return n
        return self.generic_loop(st, node, setup, guard, after)

    def while_loop(self, st, node):
        no, L = self.loop_contract(node)
        def guard(s, k):
            cv = self.ev(s, node.test)
            if self.hooks and hasattr(self.hooks, 'on_branch'):
                self.hooks.on_branch(self, s, cv, node)
            return self.truth(s, cv)
        def after(s):
            cv = self.ev(s, node.test)
            s._exit_cond = z3.Not(self.truth(s, cv))
            return None
        outs = self.generic_loop(st, node, None, guard, after)
        for o in outs:
            c = getattr(o, '_exit_cond', None)
            if c is not None:
                o.assume(c)
                o._exit_cond = None
        return outs

    # ---- expressions
    def ev(self, st, e):
        m = getattr(self, 'ev_' + type(e).__name__, None)
        if m is None:
            raise Unsupported('expression %s at line %d' % (type(e).__name__, getattr(e, 'lineno', 0)))
        return m(st, e)

    def ev_Constant(self, st, e):
        v = e.value
        if isinstance(v, bool):
            return BoolV(z3.BoolVal(v))
        if isinstance(v, int):
            return Num(z3.IntVal(v))
        if isinstance(v, float):
            return Num(z3.RealVal(repr(v)))
        return Const(v)

    def ev_Name(self, st, e):
        if e.id in st.env:
            return st.env[e.id]
        if e.id in ('True', 'False'):
            return BoolV(z3.BoolVal(e.id == 'True'))
        return Ref(e.id)

    def ev_Tuple(self, st, e):
        return Tup([self.ev(st, x) for x in e.elts], 'tuple')

    def ev_List(self, st, e):
        return Tup([self.ev(st, x) for x in e.elts], 'list')

    def ev_Set(self, st, e):
        return Tup([self.ev(st, x) for x in e.elts], 'set')

    def ev_Dict(self, st, e):
        d = DictV()
        for k, v in zip(e.keys, e.values):
            kv, vv = self.ev(st, k), self.ev(st, v)
            ck = self.const_key(kv)
            if ck is None:
                return Obj(self.fresh('dict', V), cls='dict', taint=t_or(kv.taint, vv.taint))
            d.d[ck] = vv
        return d

    def ev_JoinedStr(self, st, e):
        return Obj(self.fresh('str', V), cls='str')

    def ev_UnaryOp(self, st, e):
        v = self.ev(st, e.operand)
        if self.hooks and hasattr(self.hooks, 'unary'):
            x = self.hooks.unary(self, st, e.op, v, e)
            if x is not NotImplemented and x is not None:
                return x
        if isinstance(e.op, ast.Not):
            return BoolV(z3.Not(self.truth(st, v)), taint=v.taint)
        if isinstance(e.op, ast.USub):
            if isinstance(v, Num):
                return Num(-v.t, npy=v.npy, taint=v.taint, ghost=v.ghost)
            if hasattr(v, '_at'):
                return self.arr_unary(st, 'neg', v)
            if hasattr(v, 'labels') and self.hooks and hasattr(self.hooks, 'binop'):
                return self.hooks.binop(self, st, ast.Mult(), Num(z3.IntVal(-1)), v, e)
            return Obj(self.uf('neg', V, V)(self.to_V(v)), taint=v.taint, ghost=getattr(v, 'ghost', None))
        if isinstance(e.op, ast.Invert):
            return Obj(self.uf('invert', V, V)(self.to_V(v)), taint=v.taint)
        raise Unsupported('unary %s' % type(e.op).__name__)

    def ev_BoolOp(self, st, e):
        # short-circuit value semantics are only kept for Bool operands; otherwise `a or b` is an IfExp
        vals = [self.ev(st, x) for x in e.values]
        if all(isinstance(v, BoolV) for v in vals):
            ts = [v.t for v in vals]
            return BoolV(z3.And(*ts) if isinstance(e.op, ast.And) else z3.Or(*ts), taint=t_or(*[v.taint for v in vals]))
        # value semantic: x or y  ==  x if x else y ; x and y == y if x else x
        acc = vals[0]
        for nxt in vals[1:]:
            c = self.truth(st, acc)
            if isinstance(e.op, ast.Or):
                acc = self.ite(st, c, acc, nxt, acc.taint)
            else:
                acc = self.ite(st, c, nxt, acc, acc.taint)
        return acc

    def ite(self, st, c, a, b, ctaint=FALSE):
        c = z3.simplify(c)
        if z3.is_true(c):
            return a
        if z3.is_false(c):
            return b
        tt = t_or(ctaint, z3.If(c, a.taint, b.taint) if not (z3.is_false(a.taint) and z3.is_false(b.taint)) else FALSE)
        tt = z3.simplify(tt)
        if isinstance(a, Num) and isinstance(b, Num):
            return Num(z3.If(c, a.real(), b.real()) if a.is_int != b.is_int else z3.If(c, a.t, b.t), npy=a.npy or b.npy, taint=tt)
        if isinstance(a, BoolV) and isinstance(b, BoolV):
            return BoolV(z3.If(c, a.t, b.t), taint=tt)
        ta, tb = self.to_V(a), self.to_V(b)
        if ta is not None and tb is not None and z3.eq(ta, tb) and isinstance(a, Obj):
            return a                                  # both branches are the same value (x.f() if hasattr(x, 'f') else f(x))
        o = Obj(z3.If(c, ta, tb), taint=tt)
        o.ghost = {'ite': (c, a, b)}
        return o

    def ev_IfExp(self, st, e):
        cv = self.ev(st, e.test)
        c = self.truth(st, cv)
        return self.ite(st, c, self.ev(st, e.body), self.ev(st, e.orelse), cv.taint)

    def ev_Compare(self, st, e):
        l = self.ev(st, e.left)
        outs, taints = [], []
        for op, r_ in zip(e.ops, e.comparators):
            r = self.ev(st, r_)
            outs.append(self.compare(st, op, l, r, e))
            taints += [l.taint, r.taint]
            l = r
        t = outs[0] if len(outs) == 1 else z3.And(*outs)
        return BoolV(t, taint=t_or(*taints))

    def compare(self, st, op, l, r, node):
        if self.hooks and hasattr(self.hooks, 'compare'):
            x = self.hooks.compare(self, st, op, l, r, node)
            if x is not NotImplemented and x is not None:
                return x
        if hasattr(self, 'arr_compare'):
            x = self.arr_compare(st, op, l, r, node)
            if x is not NotImplemented:
                return x
        if isinstance(op, (ast.Is, ast.IsNot)) and isinstance(r, Ref) and r.name == 'str' and getattr(l, 'cls', None) == 'type':
            known = l.g('of')
            if known is not None:
                isstr = (isinstance(known, Const) and isinstance(known.v, str)) or getattr(known, 'cls', None) == 'str'
                t = z3.BoolVal(bool(isstr))
                return t if isinstance(op, ast.Is) else z3.Not(t)
        if isinstance(op, (ast.Is, ast.IsNot)):
            if isinstance(r, Const) and r.v is None:
                if isinstance(l, Const):
                    t = z3.BoolVal(l.v is None)
                elif isinstance(l, Obj):
                    t = l.attrs.get('is_none', None)
                    if t is None:
                        t = self.uf('is_none', V, B)(l.t)
                else:
                    t = FALSE
                return t if isinstance(op, ast.Is) else z3.Not(t)
            if isinstance(l, Const) and isinstance(r, Const):
                t = z3.BoolVal(l.v is r.v)
            elif isinstance(r, Ref) or isinstance(l, Ref):
                t = self.uf('is_', V, V, B)(self.to_V(l), self.to_V(r))
            else:
                t = self.to_V(l) == self.to_V(r)
            return t if isinstance(op, ast.Is) else z3.Not(t)
        for x, y in ((l, r), (r, l)):
            # floats are mathematical reals in this encoding: a number is never equal to +-inf
            if isinstance(x, Num) and isinstance(y, Ref) and y.name in ('np.inf', 'math.inf', 'numpy.inf') and isinstance(op, (ast.Eq, ast.NotEq)):
                return FALSE if isinstance(op, ast.Eq) else TRUE
        if isinstance(l, Num) and isinstance(r, Num):
            a, b = (l.t, r.t) if l.is_int == r.is_int else (l.real(), r.real())
            f = {ast.Lt: lambda: a < b, ast.LtE: lambda: a <= b, ast.Gt: lambda: a > b, ast.GtE: lambda: a >= b,
                 ast.Eq: lambda: a == b, ast.NotEq: lambda: a != b}.get(type(op))
            if f:
                return f()
        if isinstance(op, (ast.Eq, ast.NotEq)):
            for x_, y_ in ((l, r), (r, l)):
                if isinstance(y_, Const) and y_.v is None and (hasattr(x_, '_at') or isinstance(x_, (Tup, DictV)) or getattr(x_, 'is_dictsym', False)):
                    return FALSE if isinstance(op, ast.Eq) else TRUE          # a sequence is not None
            if isinstance(l, Const) and isinstance(r, Const):
                t = z3.BoolVal(l.v == r.v)
            elif isinstance(l, BoolV) and isinstance(r, BoolV):
                t = l.t == r.t
            elif isinstance(l, Const) and isinstance(l.v, str) and isinstance(r, (Obj, Bound)) or \
                    isinstance(r, Const) and isinstance(r.v, str) and isinstance(l, (Obj, Bound)):
                t = self.to_V(l) == self.to_V(r)
            elif isinstance(l, Const) != isinstance(r, Const) and (isinstance(l, Num) or isinstance(r, Num)):
                t = FALSE            # number == None / string
            else:
                t = self.uf('py_eq', V, V, B)(self.to_V(l), self.to_V(r))
                if isinstance(l, Tup) and isinstance(r, Tup) and len(l.items) != len(r.items):
                    t = FALSE
            return t if isinstance(op, ast.Eq) else z3.Not(t)
        if isinstance(op, (ast.In, ast.NotIn)):
            if isinstance(r, Tup) and self.const_key(l) is not None and all(self.const_key(x) is not None for x in r.items):
                t = z3.BoolVal(self.const_key(l) in [self.const_key(x) for x in r.items])
            elif isinstance(r, DictV) and self.const_key(l) is not None:
                t = z3.BoolVal(self.const_key(l) in r.d)
            else:
                t = self.uf('contains', V, V, B)(self.to_V(r), self.to_V(l))
            return t if isinstance(op, ast.In) else z3.Not(t)
        name = {ast.Lt: 'lt', ast.LtE: 'le', ast.Gt: 'gt', ast.GtE: 'ge'}.get(type(op))
        if name:
            return self.uf('cmp_' + name, V, V, B)(self.to_V(l), self.to_V(r))
        raise Unsupported('comparison %s' % type(op).__name__)

    def ev_BinOp(self, st, e):
        l, r = self.ev(st, e.left), self.ev(st, e.right)
        return self.binop(st, e.op, l, r, e)

    def binop(self, st, op, l, r, node, inplace=False):
        if self.hooks and hasattr(self.hooks, 'binop'):
            x = self.hooks.binop(self, st, op, l, r, node)
            if x is not NotImplemented and x is not None:
                return x
        if hasattr(self, 'arr_binop'):
            x = self.arr_binop(st, op, l, r, node)
            if x is not NotImplemented:
                return x
        tt = t_or(l.taint, r.taint)
        if self.c.get('numeric_objects') and isinstance(op, (ast.Mult, ast.Div, ast.Add, ast.Sub)):
            # contract option: an untyped object that meets a number in arithmetic is the number it stands for (as_real), so that
            # clauses about such expressions are about values, not about how the expression is spelled
            if isinstance(l, Obj) and l.cls is None and isinstance(r, Num):
                l = Num(self.uf('as_real', V, R)(l.t), npy=True, taint=l.taint, ghost=l.ghost)
            elif isinstance(r, Obj) and r.cls is None and isinstance(l, Num):
                r = Num(self.uf('as_real', V, R)(r.t), npy=True, taint=r.taint, ghost=r.ghost)
        if isinstance(l, Num) and isinstance(r, Num):
            npy = l.npy or r.npy
            both_int = l.is_int and r.is_int
            a, b = (l.t, r.t) if both_int else (l.real(), r.real())
            if isinstance(op, ast.Add):
                return Num(a + b, npy, tt)
            if isinstance(op, ast.Sub):
                return Num(a - b, npy, tt)
            if isinstance(op, ast.Mult):
                return Num(a * b, npy, tt)
            if isinstance(op, ast.Div):
                a, b = l.real(), r.real()
                if not self.in_spec():
                    self.division(st, b, r.npy, node)
                return Num(a / b, npy, tt)
            if isinstance(op, ast.Pow):
                if z3.is_int_value(r.t) and 0 <= r.t.as_long() <= 4:
                    out = z3.RealVal(1) if not both_int else z3.IntVal(1)
                    for _ in range(r.t.as_long()):
                        out = out * a
                    return Num(out, npy, tt)
                return Num(self.uf('pow', R, R, R)(l.real(), r.real()), npy, tt)
            if isinstance(op, ast.FloorDiv) and both_int:
                return Num(a / b, npy, tt)
            if isinstance(op, ast.Mod) and both_int:
                return Num(a % b, npy, tt)
        if isinstance(op, ast.Add) and isinstance(l, Tup) and isinstance(r, Tup):
            return Tup(l.items + r.items, l.kind, taint=tt)
        if isinstance(op, ast.Mod) and isinstance(l, Const) and isinstance(l.v, str):
            try:
                # '%s-fmt' % x is a pure function of the format and of x
                return Obj(self.uf('str_format', V, V, V)(self.to_V(l), self.to_V(r)), cls='str', taint=tt)
            except Exception:
                return Obj(self.fresh('str', V), cls='str', taint=tt)
        name = {ast.Add: 'add', ast.Sub: 'sub', ast.Mult: 'mul', ast.Div: 'div', ast.MatMult: 'matmul',
                ast.Pow: 'pow', ast.BitAnd: 'and', ast.BitOr: 'or', ast.Mod: 'mod', ast.FloorDiv: 'floordiv',
                ast.BitXor: 'xor', ast.LShift: 'lshift', ast.RShift: 'rshift'}.get(type(op))
        if name is None:
            raise Unsupported('operator %s' % type(op).__name__)
        f = self.uf('op_' + name, V, V, V)
        return Obj(f(self.to_V(l), self.to_V(r)), taint=tt)

    def _ieee_anchor(self, node, divisor_src):
        """Does the divisor match an `ieee_zero_division_assumed_away` entry?  An entry is either the divisor's source text or
        `scaled:<name>`: any product of numeric literals with the one variable <name> (so the assumption survives a changed constant)."""
        src = divisor_src.replace(' ', '')
        dn = node.right if isinstance(node, ast.BinOp) else (node.value if isinstance(node, ast.AugAssign) else None)
        for x in self.c.get('ieee_zero_division_assumed_away', ()):
            if x.startswith('scaled:'):
                if dn is None:
                    continue
                names = {n.id for n in ast.walk(dn) if isinstance(n, ast.Name)}
                shape = all(isinstance(n, (ast.Name, ast.Constant, ast.Load, ast.Mult)) or (isinstance(n, ast.BinOp) and isinstance(n.op, ast.Mult))
                            for n in ast.walk(dn))
                nums = all(isinstance(n.value, (int, float)) and n.value != 0 for n in ast.walk(dn) if isinstance(n, ast.Constant))
                if names == {x[7:]} and shape and nums:
                    return True
            elif x.replace(' ', '') == src:
                return True
        return False

    def division(self, st, b, npy, node):
        pol = self.c.get('division', 'python')
        if z3.is_rational_value(b) or z3.is_int_value(b):
            return
        divisor_src = ast.unparse(node.right) if isinstance(node, ast.BinOp) else (ast.unparse(node.value) if isinstance(node, ast.AugAssign) else '')
        if npy and self._ieee_anchor(node, divisor_src):
            # anchored on the divisor expression, not on a line number
            self.note('ASSUMED: numpy division by `%s` has a non-zero divisor (IEEE inf path argued in the contract, not proved)' % divisor_src)
            st.assume(b != 0)
        elif npy and pol != 'abort':
            # numpy scalar: x/0 = inf and execution continues; the divisor must be proved non-zero
            self.oblige(st, 'div-nonzero@L%d' % node.lineno, b != 0, kind='numpy-division-defined')
            st.assume(b != 0)
        elif self.c.get('total'):
            self.oblige(st, 'div-nonzero@L%d' % node.lineno, b != 0, kind='no-ZeroDivisionError')
            st.assume(b != 0)
        else:
            st.assume(b != 0)       # ZeroDivisionError ends the path

    def ev_Attribute(self, st, e):
        # dotted global references (np.random.normal ...)
        o = self.ev(st, e.value)
        return self.getattr(st, o, e.attr, e)

    def getattr(self, st, o, name, node):
        if isinstance(o, Ref):
            return Ref(o.name + '.' + name)
        if self.hooks and hasattr(self.hooks, 'attr'):
            x = self.hooks.attr(self, st, o, name, node)
            if x is not NotImplemented and x is not None:
                return x
        if hasattr(self, 'arr_getattr'):
            x = self.arr_getattr(st, o, name, node)
            if x is not NotImplemented:
                return x
        if isinstance(o, Bound) and isinstance(o.recv, Obj):
            # an attribute read used as an object (`m = self.oracle; m.total = t; ... self.model.total`): a field written
            # through it is read back through it
            ov = self.bound_as_value(st, o)
            if (str(ov.t), name) in st.fields:
                return st.fields[(str(ov.t), name)]
        if isinstance(o, Obj):
            key = (str(o.t), name)
            if key in st.fields:
                return st.fields[key]
            if name in o.attrs:
                a = o.attrs[name]
                return a(self, st, o) if callable(a) else a
            ty = self.c.get('attr_types', {}).get((o.cls, name)) or self.c.get('attr_types', {}).get(name)
            if ty in ('real', 'npreal'):
                return Num(self.uf('attr_' + name, V, R)(o.t), npy=(ty == 'npreal'), taint=o.taint)
            if ty == 'int':
                return Num(self.uf('attr_' + name, V, I)(o.t), taint=o.taint)
            if ty == 'bool':
                return BoolV(self.uf('attr_' + name, V, B)(o.t), taint=o.taint)
            if ty == 'method':
                return Bound(o, name, taint=o.taint)
            if ty and ty.startswith('obj'):
                return Obj(self.uf('attr_' + name, V, V)(o.t), cls=ty[4:] or None, taint=o.taint)
            if ty and (ty.startswith('seq:') or ty.startswith('arr:') or ty.startswith('dict:')):
                cache = self.__dict__.setdefault('_attr_seq', {})
                ck = (str(o.t), name)
                if ck not in cache:
                    base = '%s.%s' % (str(o.t).replace(' ', ''), name)
                    cache[ck] = self.typed(ty, base[:60] if len(base) <= 60 else 'f%d.%s' % (len(cache), name), taint=o.taint)
                if z3.is_expr(getattr(cache[ck], 'n', None)):
                    st.assume(cache[ck].n >= 0)
                return cache[ck]
            return Bound(o, name, taint=o.taint)       # decided at call / use time
        if isinstance(o, (Tup, DictV, Const, Num, BoolV, Bound, FuncV)):
            return Bound(o, name, taint=o.taint)
        raise Unsupported('attribute %s of %r' % (name, o))

    def bound_as_value(self, st, b):
        """An attribute read that turned out not to be called: an opaque field."""
        if isinstance(b, Bound) and isinstance(b.recv, Obj):
            return Obj(self.uf('attr_' + b.name, V, V)(b.recv.t), taint=b.recv.taint)
        if isinstance(b, Bound):
            return Obj(self.uf('attr_' + b.name, V, V)(self.to_V(b.recv)), taint=b.recv.taint)
        return b

    def ev_Slice(self, st, e):
        k = Tup([self.ev(st, x) if x is not None else Const(None) for x in (e.lower, e.upper, e.step)])
        k.kind = 'slice'
        return k

    def ev_Subscript(self, st, e):
        o = self.ev(st, e.value)
        if isinstance(o, Bound):
            o = self.bound_as_value(st, o)
        if isinstance(e.slice, ast.Slice):
            k = Tup([self.ev(st, x) if x is not None else Const(None) for x in (e.slice.lower, e.slice.upper, e.slice.step)])
            k.kind = 'slice'
        else:
            k = self.ev(st, e.slice)
        if self.hooks and hasattr(self.hooks, 'getitem'):
            x = self.hooks.getitem(self, st, o, k, e)
            if x is not NotImplemented and x is not None:
                return x
        if hasattr(self, 'arr_getitem'):
            x = self.arr_getitem(st, o, k, e)
            if x is not NotImplemented:
                return x
        if isinstance(o, Tup) and isinstance(k, Num) and z3.is_int_value(k.t):
            i = k.t.as_long()
            if -len(o.items) <= i < len(o.items):
                return o.items[i]
            return self.abort(st)
        if isinstance(o, DictV):
            ck = self.const_key(k)
            if ck is not None and ck in o.d:
                return o.d[ck]
        if isinstance(o, Tup) and k.__class__ is Tup and getattr(k, 'kind', '') == 'slice':
            lo, hi, step = k.items
            def cv(x, d):
                if isinstance(x, Const) and x.v is None:
                    return d
                if isinstance(x, Num) and z3.is_int_value(x.t):
                    return x.t.as_long()
                raise Unsupported('symbolic slice')
            return Tup(o.items[cv(lo, None):cv(hi, None):cv(step, None)], o.kind, taint=o.taint)
        tt = t_or(o.taint, k.taint)
        ghost = o.g('elem_ghost') if isinstance(o, (Obj, Tup)) else None
        return Obj(self.uf('getitem', V, V, V)(self.to_V(o), self.to_V(k)), taint=tt, ghost=ghost)

    def abort(self, st):
        st.assume(FALSE)
        raise _Return()

    def ev_Lambda(self, st, e):
        return FuncV(e, st, '<lambda>')

    def comp(self, st, e, elts, kind):
        """Comprehension schema: evaluated once for an arbitrary element (no per-element facts);
        result is an opaque collection tainted by iterable, filters and elements."""
        st2 = st.fork()
        taints = []
        for g in e.generators:
            it = self.ev(st2, g.iter)
            if isinstance(it, Bound):
                it = self.bound_as_value(st2, it)
            if self.hooks and hasattr(self.hooks, 'on_loop_bound'):
                self.hooks.on_loop_bound(self, st, it, e)
            taints.append(it.taint)
            if isinstance(it, Tup) and it.items:
                tt = t_or(*[x.taint for x in it.items], it.taint)
                if all(isinstance(x, Num) for x in it.items):
                    item = Num(self.fresh('celem', R), taint=tt)
                else:
                    item = Obj(self.fresh('celem', V), taint=tt, ghost=it.items[0].ghost if len(it.items) else None)
            else:
                item = None
                if self.hooks and hasattr(self.hooks, 'loop_item'):
                    kk = self.fresh('ck', I)
                    item = self.hooks.loop_item(self, st2, it, kk, e)
                if item is None or item is NotImplemented:
                    item = Obj(self.fresh('celem', V), taint=it.taint, ghost=it.g('elem_ghost') if isinstance(it, (Obj, Tup)) else None)
            self.assign_target(st2, g.target, item, e)
            for c in g.ifs:
                cv = self.ev(st2, c)
                if self.hooks and hasattr(self.hooks, 'on_branch'):
                    self.hooks.on_branch(self, st2, cv, e, what='comprehension-filter')
                st2.assume(self.truth(st2, cv))
                taints.append(cv.taint)
        vals = [self.ev(st2, x) for x in elts]
        # obligations raised inside the element expression were recorded against st2's path (sound)
        tt = t_or(*(taints + [v.taint for v in vals]))
        o = Obj(self.comp_term(st, e, kind), cls=kind, taint=tt)
        o.ghost = {'elem_ghost': getattr(vals[-1], 'ghost', None), 'elem': vals[-1], 'len_taint': t_or(*taints)}
        return o

    def comp_term(self, st, e, kind):
        """The value of a comprehension the sequence theory does not model: a deterministic function of (a) the comprehension's text
        up to the names of its own bound variables, (b) the current values of its free variables, (c) the number of heap writes
        performed so far on this path (what its free variables point to may have changed) - so that the same comprehension
        evaluated twice in one state (once by the code, once by a specification) denotes the same value.  Purity of the element
        and filter expressions is the standing assumption on callees without contract."""
        import copy as _copy, hashlib
        bound = set()
        for g in e.generators:
            for n in ast.walk(g.target):
                if isinstance(n, ast.Name):
                    bound.add(n.id)
        for n in ast.walk(e):
            if isinstance(n, ast.Lambda):
                bound.update(a.arg for a in n.args.args)
        order = {}
        class _Alpha(ast.NodeTransformer):
            def visit_Name(self_, n):
                if n.id in bound:
                    order.setdefault(n.id, 'b%d' % len(order))
                    return ast.copy_location(ast.Name(id=order[n.id], ctx=n.ctx), n)
                return n
        norm = _Alpha().visit(_copy.deepcopy(e))
        key = hashlib.sha1((kind + ast.dump(norm)).encode()).hexdigest()[:10]
        free = sorted({n.id for n in ast.walk(e) if isinstance(n, ast.Name) and isinstance(n.ctx, ast.Load) and n.id not in bound})
        args = [z3.IntVal(getattr(st, 'n_writes', 0) * 1000003 + sum((i_ + 1) * 7919 * getattr(st, 'writes', {}).get(nm_, 0) for i_, nm_ in enumerate(free)))]
        for nm in free:
            v = st.env.get(nm)
            if v is None:
                continue                      # a global / builtin: fixed
            try:
                if isinstance(v, Bound):
                    v = self.bound_as_value(st, v)
                args.append(self.to_V(v))
            except Unsupported:
                args.append(self.fresh('free_' + nm, V))
        f = self.uf('comp_%s_%s' % (kind, key), *([I] + [V] * (len(args) - 1) + [V]))
        return f(*args)

    def ev_ListComp(self, st, e):
        if hasattr(self, 'arr_comp'):
            x = self.arr_comp(st, e, 'list')
            if x is not NotImplemented:
                return x
        return self.comp(st, e, [e.elt], 'list')

    def ev_SetComp(self, st, e):
        return self.comp(st, e, [e.elt], 'set')

    def ev_GeneratorExp(self, st, e):
        if hasattr(self, 'arr_comp'):
            x = self.arr_comp(st, e, 'list')
            if x is not NotImplemented:
                return x
        return self.comp(st, e, [e.elt], 'list')

    def ev_DictComp(self, st, e):
        return self.comp(st, e, [e.key, e.value], 'dict')

    def ev_Starred(self, st, e):
        return self.ev(st, e.value)

    # ---- calls
    def ev_Call(self, st, e):
        fv = self.ev(st, e.func)
        args = []
        for a in e.args:
            v = self.ev(st, a)
            if isinstance(v, Bound):
                v = self.bound_as_value(st, v)
            args.append(v)
        kw = {}
        for k in e.keywords:
            if k.arg is None:
                v = self.ev(st, k.value)
                kw['**'] = v
            else:
                v = self.ev(st, k.value)
                if isinstance(v, Bound):
                    v = self.bound_as_value(st, v)
                kw[k.arg] = v
        fname = ast.unparse(e.func)
        return self.call(st, fv, fname, args, kw, e)

    def call(self, st, fv, fname, args, kw, node):
        recv = fv.recv if isinstance(fv, Bound) else None
        mname = fv.name if isinstance(fv, Bound) else (fv.name if isinstance(fv, Ref) else fname)
        if self.hooks and hasattr(self.hooks, 'call'):
            x = self.hooks.call(self, st, mname, recv, args, kw, node)
            if x is not NotImplemented and x is not None:
                return x
        # local functions and lambdas are inlined (they have no contract of their own)
        if isinstance(fv, FuncV) and not (recv is None and (mname in self.c.get('pure', {}) or mname in self.registry)):
            return self.inline(st, fv, args, kw, node)          # (unless the contract gives the local function a contract / declares it pure)
        declared_pure = (mname if recv is None else '.' + mname) in self.c.get('pure', {})
        if hasattr(self, 'arr_call') and not declared_pure:
            x = self.arr_call(st, mname, recv, args, kw, node)
            if x is not NotImplemented:
                return x
        x = self.builtin(st, mname, recv, args, kw, node) if not declared_pure else NotImplemented
        if x is not NotImplemented:
            return x
        # callee under contract
        key = mname if recv is None else '.' + mname
        if key in self.registry:
            return self.call_contract(st, key, self.registry[key], recv, args, kw, node)
        allv = ([recv] if recv is not None else []) + list(args) + list(kw.values())
        tt = t_or(*[v.taint for v in allv])
        # callee declared pure (deterministic, side-effect free) in the contract: typed uninterpreted function
        pure = self.c.get('pure', {})
        if key in pure:
            rty = pure[key]
            argv = [self.to_V(v) for v in ([recv] if recv is not None else []) + list(args)]
            for kname in sorted(kw):
                argv.append(self.uf('kw_' + kname, V, V)(self.to_V(kw[kname])))
            rs = {'real': R, 'npreal': R, 'int': I, 'bool': B}.get(rty, V)
            term = self.uf('pure_%s_%d' % (key, len(argv)), *([V] * len(argv) + [rs]))(*argv)
            if rs == R:
                return Num(term, npy=(rty == 'npreal'), taint=tt)
            if rs == I:
                return Num(term, taint=tt)
            if rs == B:
                return BoolV(term, taint=tt)
            if rs == V and not (rty.startswith('seq:') or rty.startswith('arr:')) and self.hooks and hasattr(self.hooks, 'after_pure'):
                res_ = Obj(term, cls=rty[4:] or None, taint=tt)
                self.hooks.after_pure(self, st, key, res_, recv, args)
                return res_
            if rty.startswith('seq:') or rty.startswith('arr:'):
                cache = self.__dict__.setdefault('_pure_seq', {})
                kk = term.sexpr()
                if kk not in cache:
                    self.counter += 1
                    cache[kk] = self.typed(rty, 'ret_%s!%d' % (key.strip('.').replace('.', '_'), self.counter), taint=tt)
                st.assume(cache[kk].n >= 0)
                return cache[kk]
            return Obj(term, cls=rty[4:] or None, taint=tt)
        # mutator declared in the contract: the receiver variable is rebound to a fresh object
        if recv is not None and key in self.c.get('mutators', {}) and isinstance(node.func, ast.Attribute):
            new = Obj(self.fresh('after_' + mname, V), cls=getattr(recv, 'cls', None), taint=tt, ghost=getattr(recv, 'ghost', None))
            fn = self.c['mutators'][key]
            if callable(fn):
                fn(self, st, recv, args, new, node)
            self.rebind(st, node.func.value, new)
            return Const(None)
        # havoc
        self.note('havoc: %s' % (mname if recv is None else '<obj>.' + mname))
        return Obj(self.fresh('havoc_' + mname.split('.')[-1], V), taint=tt)

    def inline(self, st, fv, args, kw, node):
        depth = getattr(self, '_depth', 0)
        if depth > 6:
            raise Unsupported('inlining too deep')
        n = fv.node
        a = n.args
        names = [x.arg for x in a.args]
        sub = State()
        # closures see the *current* values of the enclosing variables (Python late binding)
        sub.env = dict(st.env)
        sub.path, sub.ghost, sub.fields, sub.pc_taint, sub.trace = st.path, st.ghost, st.fields, st.pc_taint, st.trace
        defaults = a.defaults
        for i, nm in enumerate(names):
            if i < len(args):
                sub.env[nm] = args[i]
            elif nm in kw:
                sub.env[nm] = kw[nm]
            else:
                di = i - (len(names) - len(defaults))
                if di < 0:
                    raise Unsupported('missing argument %s' % nm)
                sub.env[nm] = self.ev(st, defaults[di])
        if isinstance(n, ast.Lambda):
            return self.ev(sub, n.body)
        # single-path inline of simple local functions: body must end in one return on every path
        self._depth = depth + 1
        saved_returns, saved_hooks_ret = self.returns, self.c.get('ensures')
        self.returns = []
        saved_ens = self.c.get('ensures', {})
        self.c['ensures'] = {}
        hooks = self.hooks
        class _NoRet:
            def __getattr__(s, k):
                if k == 'on_return':
                    raise AttributeError
                return getattr(hooks, k)
        self.hooks = _NoRet() if hooks else None
        try:
            from ..frontend import strip_noise
            outs = self.block([sub], strip_noise(n.body))
            rets = self.returns + [(o, Const(None)) for o in outs]
        finally:
            self.returns, self._depth = saved_returns, depth
            self.c['ensures'] = saved_ens
            self.hooks = hooks
        if len(rets) != 1:
            raise Unsupported('inlined function %s has %d return paths' % (fv.name, len(rets)))
        rs, rv = rets[0]
        st.path[:] = rs.path
        st.ghost.update(rs.ghost)
        st.fields.update(rs.fields)
        return rv

    def call_contract(self, st, key, cc, recv, args, kw, node):
        names = cc['arg_names']
        bound = {}
        if recv is not None:
            bound['self'] = recv
        for i, a in enumerate(args):
            bound[names[i]] = a
        for k, v in kw.items():
            bound[k] = v
        for nm, dflt in cc.get('defaults', {}).items():
            if nm not in bound:
                bound[nm] = self.ev(st, ast.parse(dflt, mode='eval').body)
        pre_terms = []
        for r in cc.get('requires', []):
            t, facts = self.spec(r, st, bound, mode='prove')
            if self.in_spec():
                pre_terms.append(t)          # inside a spec the callee's postcondition is only known under its precondition
                continue
            s2 = st.fork()
            for f in facts:
                s2.assume(f)
            self.oblige(s2, 'pre@%s#%s@L%d' % (key.strip('.'), r, node.lineno), t, kind='call-precondition')
            # once proved, the precondition is known on this path — as a quantified fact, not as its Skolem instance
            t_a, facts_a = self.spec(r, st, bound, mode='assume')
            for f in facts_a:
                st.assume(f)
            st.assume(t_a)
        guard = z3.And(*pre_terms) if pre_terms else TRUE
        tt = t_or(*[v.taint for v in bound.values()])
        if cc.get('returns_public'):
            tt = FALSE          # justified by the callee's own flow/return-value obligation
        pre_ghost = {}
        for g in cc.get('ghost_modifies', []):
            if g in st.ghost:
                pre_ghost[g + '__pre'] = Num(st.ghost[g])
                st.ghost[g] = self.fresh(g + '_after_' + key.strip('.'), st.ghost[g].sort())
        rty = cc.get('returns', 'obj:')
        if cc.get('pure'):
            pnames = (['self'] if 'self' in bound else []) + list(names)      # the receiver is an argument too
            sorts = [V] * len(pnames)
            argv = [self.to_V(bound[n]) if n in bound else z3.Const('absent', V) for n in pnames]
            rs = {'real': R, 'npreal': R, 'int': I, 'bool': B}.get(rty, V)
            term = self.uf('fn_' + key.strip('.'), *(sorts + [rs]))(*argv)
            if rs == R:
                res = Num(term, npy=(rty == 'npreal'), taint=tt)
            elif rs == I:
                res = Num(term, taint=tt)
            elif rs == B:
                res = BoolV(term, taint=tt)
            elif rty.startswith('seq:') or rty.startswith('arr:') or rty.startswith('dict:'):
                cache = self.__dict__.setdefault('_pure_seq', {})
                kk = term.sexpr()
                if kk not in cache:
                    self.counter += 1
                    cache[kk] = self.typed(rty, 'ret_%s!%d' % (key.strip('.').replace('.', '_'), self.counter), taint=tt)
                res = cache[kk]
                if z3.is_expr(getattr(res, 'n', None)):
                    st.assume(res.n >= 0)
            else:
                res = Obj(term, cls=rty[4:] or None, taint=tt)
        else:
            res = self.typed(rty, 'ret_%s!%d' % (key.strip('.'), self.counter + 1), taint=tt)
            self.counter += 1
        if 'bind' in cc:
            cc['bind'](self, st, bound, res, node)        # structural facts about the result (e.g. which object its field is)
        ex = dict(bound)
        ex.update(pre_ghost)
        ex['result'] = res
        for name, text in cc.get('ensures', {}).items():
            t, facts = self.spec(text, st, ex)
            for f in facts:
                st.assume(f)
            st.assume(z3.Implies(guard, t) if not z3.is_true(guard) else t)
        if 'effect' in cc:
            res = cc['effect'](self, st, bound, res, node) or res
        return res

    # ---- built-ins understood natively
    def builtin(self, st, name, recv, args, kw, node):
        tt = t_or(*[v.taint for v in ([recv] if recv is not None else []) + list(args) + list(kw.values())])
        if recv is None:
            if name in ('sum', 'max', 'min', 'any', 'all') and len(args) == 1 and not kw and isinstance(args[0], Obj) and args[0].cls in ('list', 'set', 'dict') \
                    and str(args[0].t.decl().name()).startswith('comp_'):
                r_ = self.uf('reduce_' + name, V, V)(args[0].t)
                if name in ('any', 'all'):
                    return BoolV(self.uf('truth_of', V, B)(r_), taint=tt)
                if isinstance((args[0].ghost or {}).get('elem'), Num):
                    return Num(self.uf('as_real', V, R)(r_), npy=True, taint=tt)      # a sum / max / min of numbers is a number
                return Obj(r_, taint=tt, ghost={'elem_ghost': (args[0].ghost or {}).get('elem_ghost')} if name == 'sum' else None)
            if name == 'as_real' and len(args) == 1 and self.in_spec():
                # spec function: the number a numeric object stands for (the same conversion a local typed 'real' gets)
                a = args[0]
                return a if isinstance(a, Num) else Num(self.uf('as_real', V, R)(self.to_V(a)), npy=True, taint=tt)
            if name == 'implies' and len(args) == 2:
                return BoolV(z3.Implies(self.truth(st, args[0]), self.truth(st, args[1])))
            if name == 'halfpow' and len(args) == 1 and isinstance(args[0], Num):
                # spec function 2**(-n); its defining equations are instantiated at the argument (ground lemma)
                hp = self.uf('halfpow', I, R)
                a = args[0].t if args[0].is_int else z3.ToInt(args[0].t)
                st.assume(z3.And(hp(z3.IntVal(0)) == 1, hp(a + 1) == hp(a) / 2, hp(a) > 0))
                return Num(hp(a))
            if name == 'ghost' and len(args) == 1 and isinstance(args[0], Const):
                g = st.ghost[args[0].v]
                if g.sort() == V:
                    return Obj(g)
                return Num(g) if g.sort() != B else BoolV(g)
            if name == 'same' and len(args) == 2:
                a, b = args
                if isinstance(a, Num) and isinstance(b, Num):
                    return BoolV(a.real() == b.real())
                if isinstance(a, BoolV) and isinstance(b, BoolV):
                    return BoolV(a.t == b.t)
                if isinstance(a, Bound):
                    a = self.bound_as_value(st, a)
                if isinstance(b, Bound):
                    b = self.bound_as_value(st, b)
                return BoolV(self.to_V(a) == self.to_V(b))
            if name == 'isinstance' and len(args) == 2 and isinstance(args[1], Ref) and args[1].name == 'dict':
                a = args[0]
                if isinstance(a, DictV) or getattr(a, 'is_dictsym', False):
                    return BoolV(TRUE)
                if isinstance(a, (Num, Tup, BoolV, Const)) or hasattr(a, '_at'):
                    return BoolV(FALSE)
            if name == 'assigned' and len(args) == 2 and isinstance(args[0], Obj) and isinstance(args[1], Const):
                # spec function: was this attribute assigned on the current path?
                return BoolV(z3.BoolVal((str(args[0].t), args[1].v) in st.fields))
            if name == 'public' and len(args) == 1:
                return BoolV(z3.Not(args[0].taint))
            if name in ('range_lo', 'range_hi') and len(args) == 1 and 'range' in (getattr(args[0], 'ghost', None) or {}):
                lo, hi = args[0].ghost['range']              # spec functions: first element and end (exclusive) of a range object
                return Num(lo if name == 'range_lo' else hi)
            if name == 'range':
                vs = [a for a in args]
                if all(isinstance(a, Num) for a in vs):
                    ts = [a.t if a.is_int else z3.ToInt(a.t) for a in vs]
                    lo, hi = (z3.IntVal(0), ts[0]) if len(ts) == 1 else (ts[0], ts[1])
                    if len(ts) <= 2:
                        if z3.is_int_value(lo) and z3.is_int_value(hi) and hi.as_long() - lo.as_long() <= 4:
                            return Tup([Num(z3.IntVal(i)) for i in range(lo.as_long(), hi.as_long())], 'list', taint=tt)
                        return Obj(self.fresh('range', V), cls='range', taint=tt, ghost={'range': (lo, hi)})
            if name in ('float', 'np.float64') and len(args) == 1 and isinstance(args[0], Num):
                return Num(args[0].real(), npy=False, taint=tt)
            if name in ('float', 'np.float64') and len(args) == 1 and isinstance(args[0], Obj) and 'float' not in self.c.get('pure', {}):
                return args[0]          # value-preserving coercion of a number the encoding keeps opaque
            if name == 'int' and len(args) == 1 and isinstance(args[0], Num):
                if args[0].is_int:
                    return args[0]
                return Num(self.uf('trunc', R, I)(args[0].t), taint=tt)
            if name == 'abs' and len(args) == 1 and isinstance(args[0], Num):
                a = args[0].t
                return Num(z3.If(a >= 0, a, -a), args[0].npy, tt)
            if name in ('min', 'max') and len(args) == 2 and all(isinstance(a, Num) for a in args):
                a, b = args[0].real(), args[1].real()
                if args[0].is_int and args[1].is_int:
                    a, b = args[0].t, args[1].t
                c = a <= b if name == 'min' else a >= b
                return Num(z3.If(c, a, b), args[0].npy or args[1].npy, tt)
            if name in ('np.sqrt', 'math.sqrt') and len(args) == 1 and isinstance(args[0], Num):
                a = args[0].real()
                s = self.sqrt_term(a)
                pol = self.c.get('sqrt', 'oblige')
                if not self.in_spec() and pol == 'nan' and name != 'math.sqrt':
                    # np.sqrt of a negative number is NaN: nothing is known about the result
                    st.assume(z3.Implies(a >= 0, z3.And(s >= 0, s * s == a)))
                    return Num(s, npy=True, taint=tt)
                if not self.in_spec():
                    if name == 'math.sqrt' or pol == 'abort':
                        st.assume(a >= 0)     # math.sqrt raises ValueError; NaN-abort sites are listed in the contract
                    else:
                        self.oblige(st, 'sqrt-arg-nonneg@L%d' % node.lineno, a >= 0, kind='numpy-sqrt-defined')
                        st.assume(a >= 0)
                st.assume(z3.And(s >= 0, s * s == a))
                return Num(s, npy=name.startswith('np.'), taint=tt)
            if name in ('math.log', 'math.exp', 'math.log1p', 'np.log', 'np.exp') and len(args) == 1 and isinstance(args[0], Num):
                f = self.uf(name.replace('.', '_'), R, R)
                a = args[0].real()
                if name.startswith('math.log') and not self.in_spec():
                    dom = a > 0 if name == 'math.log' else a > -1
                    if self.c.get('total'):
                        self.oblige(st, 'log-domain@L%d' % node.lineno, dom, kind='no-math-domain-error')
                    st.assume(dom)          # math.log raises ValueError outside its domain
                res = f(a)
                if name.endswith('exp'):
                    st.assume(res > 0)
                return Num(res, npy=name.startswith('np.'), taint=tt)
            if name == 'len' and len(args) == 1:
                a = args[0]
                if isinstance(a, Tup):
                    return Num(z3.IntVal(len(a.items)), taint=a.taint)
                if isinstance(a, DictV):
                    return Num(z3.IntVal(len(a.d)), taint=a.taint)
                n = self.uf('len', V, I)(self.to_V(a))
                st.assume(n >= 0)
                lt = a.g('len_taint', a.taint) if isinstance(a, Obj) else a.taint
                return Num(n, taint=lt)
            if name in ('tuple', 'list') and len(args) == 1 and isinstance(args[0], Tup):
                return Tup(args[0].items, name, taint=args[0].taint, ghost=args[0].ghost)
            if name in ('tuple', 'list', 'set', 'dict') and len(args) == 0:
                return Tup([], name) if name != 'dict' else DictV()
            if name in ('tuple', 'list', 'sorted', 'set', 'reversed', 'np.array', 'np.asarray') and len(args) >= 1 and isinstance(args[0], Obj):
                a = args[0]
                return Obj(self.uf('conv_' + name.replace('.', '_'), V, V)(a.t), cls=a.cls if name != 'np.array' else 'ndarray', taint=tt,
                           ghost=a.ghost)
            if name == 'isinstance' or name == 'callable' or name == 'hasattr' or name == 'np.isscalar':
                return BoolV(self.uf('pred_' + name.replace('.', '_'), *([V] * len(args) + [B]))(*[self.to_V(a) for a in args]), taint=FALSE)
            if name == 'type':
                return Obj(self.uf('type', V, V)(self.to_V(args[0])), cls='type', ghost={'of': args[0]})
            if name == 'str':
                return Obj(self.fresh('str', V), cls='str', taint=tt)
        else:
            if name == 'append' and len(args) == 1 and isinstance(node.func, ast.Attribute):
                if isinstance(recv, Tup):
                    new = Tup(recv.items + [args[0]], recv.kind, taint=t_or(recv.taint, st.pc_taint), ghost=recv.ghost)
                else:
                    new = Obj(self.uf('appended', V, V, V)(self.to_V(recv), self.to_V(args[0])), cls='list',
                              taint=t_or(recv.taint, args[0].taint, st.pc_taint))
                    if self.hooks and hasattr(self.hooks, 'join_ghost'):
                        new.ghost = self.hooks.join_ghost(self, st, recv, args[0])
                self.rebind(st, node.func.value, new)
                return Const(None)
            if name in ('keys', 'values', 'items') and isinstance(recv, DictV) and not args:
                if name == 'values':
                    return Tup(list(recv.d.values()), 'list', taint=recv.taint)
            if name == 'copy' and not args and isinstance(recv, (Tup, DictV)):
                return recv
        return NotImplemented

    def sqrt_term(self, a):
        a = z3.simplify(a)
        key = a.sexpr()
        cache = self.__dict__.setdefault('_sqrt', {})
        if key not in cache:
            cache[key] = self.fresh('sqrt', R)
        return cache[key]
