"""Generic call-site contracts: "the k-th argument of every call to f is <spec expression>"."""
import ast
import z3
from . import engine as E


class SiteSpecHooks:
    """sites: list of dict(func=<name as written, or suffix starting with '.'>, arg=<int index or keyword>, spec=<text with __arg>,
    name=<label>, when=<optional spec text: only on paths where it holds>)"""

    def __init__(self, sites, inner=None):
        self.sites, self.inner = sites, inner

    def __getattr__(self, k):
        if k in ('sites', 'inner'):
            raise AttributeError(k)
        if self.inner is not None:
            return getattr(self.inner, k)
        raise AttributeError(k)

    def call(self, eng, st, name, recv, args, kw, node):
        for site in (self.sites if not eng.in_spec() else ()):       # a call written in a specification is not a call site of the code
            f = site['func']
            if not ((not f.startswith('.') and recv is None and name == f) or (f.startswith('.') and recv is not None and name == f[1:])):
                continue
            if 'arity' in site:
                # the call passes exactly this many arguments (positional + keyword): nothing overrides the callee's defaults
                eng.oblige(st.fork(), 'site/%s@L%d' % (site['name'], node.lineno), E.TRUE if len(args) + len(kw) == site['arity'] else E.FALSE, kind='call-site')
                continue
            a = site['arg']
            val = kw.get(a) if isinstance(a, str) else (args[a] if a < len(args) else kw.get(site.get('kw')))   # positional, or by its keyword
            if val is None:
                eng.oblige(st, 'site/%s-argument-present@L%d' % (site['name'], node.lineno), E.FALSE, kind='call-site')
                continue
            t, facts = eng.spec(site['spec'], st, {'__arg': val}, mode='prove')
            s2 = st.fork()
            for x in facts:
                s2.assume(x)
            eng.oblige(s2, 'site/%s@L%d' % (site['name'], node.lineno), t, kind='call-site')
            key = 'n_site_' + site['name']
            st.ghost[key] = st.ghost.get(key, z3.IntVal(0)) + 1
        if self.inner is not None and hasattr(self.inner, 'call'):
            return self.inner.call(eng, st, name, recv, args, kw, node)
        return NotImplemented

    def setitem(self, eng, st, tgt, o, k, val, node):
        """sites with func='[]=' and container=<variable name>: obligations on the key / value stored."""
        import ast as _ast
        for site in self.sites:
            if site['func'] != '[]=' or _ast.unparse(tgt.value).replace(' ', '') != site['container'].replace(' ', ''):
                continue
            t, facts = eng.spec(site['spec'], st, {'__key': k, '__arg': val}, mode='prove')
            s2 = st.fork()
            for x in facts:
                s2.assume(x)
            eng.oblige(s2, 'site/%s@L%d' % (site['name'], node.lineno), t, kind='store-site')
            key = 'n_site_' + site['name']
            st.ghost[key] = st.ghost.get(key, z3.IntVal(0)) + 1
        if self.inner is not None and hasattr(self.inner, 'setitem'):
            return self.inner.setitem(eng, st, tgt, o, k, val, node)
        return NotImplemented

    def getitem(self, eng, st, o, k, node):
        """sites with func='[]' and container=<source text of the subscripted expression>: obligations on the index (__key)."""
        import ast as _ast
        for site in self.sites:
            if site['func'] != '[]' or _ast.unparse(node.value).replace(' ', '') != site['container'].replace(' ', ''):
                continue
            t, facts = eng.spec(site['spec'], st, {'__key': k}, mode='prove')
            s2 = st.fork()
            for x in facts:
                s2.assume(x)
            eng.oblige(s2, 'site/%s@L%d' % (site['name'], node.lineno), t, kind='index-site')
            key = 'n_site_' + site['name']
            st.ghost[key] = st.ghost.get(key, z3.IntVal(0)) + 1
        if self.inner is not None and hasattr(self.inner, 'getitem'):
            return self.inner.getitem(eng, st, o, k, node)
        return NotImplemented

    def on_branch(self, eng, st, cv, node, what='branch-condition'):
        """sites with func='if' and contains=<text occurring in the body>: the branch is taken exactly when the spec holds."""
        import ast as _ast
        if not isinstance(node, _ast.If):
            return
        body_src = '\n'.join(_ast.unparse(b) for b in node.body)
        for site in self.sites:
            if site['func'] != 'if' or site['contains'] not in body_src:
                continue
            # the innermost `if` around the statement: not one whose nested compound statement holds it
            if any(site['contains'] in _ast.unparse(b) for b in node.body if isinstance(b, (_ast.If, _ast.For, _ast.While, _ast.With, _ast.Try))):
                continue
            t, facts = eng.spec(site['spec'], st, {}, mode='prove')
            s2 = st.fork()
            for x in facts:
                s2.assume(x)
            eng.oblige(s2, 'site/%s@L%d' % (site['name'], node.lineno), eng.truth(st, cv) == t, kind='branch-site')
        if self.inner is not None and hasattr(self.inner, 'on_branch'):
            self.inner.on_branch(eng, st, cv, node, what)

    def init(self, eng, st):
        for site in self.sites:
            st.ghost.setdefault('n_site_' + site['name'], z3.IntVal(0))
        if self.inner is not None and hasattr(self.inner, 'init'):
            self.inner.init(eng, st)
