"""Obligations and their discharge.

An obligation is `path |= goal`, sent to the solver as `path AND NOT goal`; `unsat` means
discharged.  z3 (Python API) is the primary back end; anything it leaves `unknown` is
exported as SMT-LIB and given to the cvc5 binary as a second opinion.  `unknown`, timeouts
and solver errors are never turned into violations.
"""
import os, subprocess, tempfile, time
import z3

Z3_TIMEOUT_MS = int(os.environ.get('PV_Z3_TIMEOUT_MS', '20000'))
CVC5_TIMEOUT_S = int(os.environ.get('PV_CVC5_TIMEOUT_S', '20'))


class Obligation:
    __slots__ = ('name', 'path', 'goal', 'meta', 'verdict', 'backend', 'seconds', 'model', 'reason', 'function', 'kind')

    def __init__(self, name, path, goal, function='', kind='', meta=None):
        self.name, self.path, self.goal = name, list(path), goal
        self.function, self.kind = function, kind
        self.meta = meta or {}
        self.verdict = None      # 'discharged' | 'refuted' | 'unknown'
        self.backend = None
        self.seconds = 0.0
        self.model = None
        self.reason = ''

    def as_dict(self):
        d = dict(name=self.name, function=self.function, kind=self.kind, verdict=self.verdict,
                 backend=self.backend, seconds=round(self.seconds, 4))
        if self.model:
            d['counter_model'] = self.model
        if self.reason:
            d['reason'] = self.reason
        return d


def _model_dict(m):
    out = {}
    for d in m.decls():
        if d.arity() == 0:
            try:
                out[str(d)] = str(m[d])
            except Exception:
                pass
    return out


def _cvc5(smt2, limit_s=None):
    limit_s = limit_s or CVC5_TIMEOUT_S
    with tempfile.NamedTemporaryFile('w', suffix='.smt2', delete=False) as f:
        f.write('(set-logic ALL)\n' + smt2 + '\n(check-sat)\n')
        fn = f.name
    try:
        r = subprocess.run(['/usr/bin/cvc5', '--tlimit=%d' % (limit_s * 1000), fn],
                           capture_output=True, text=True, timeout=limit_s + 5)
        out = r.stdout.strip().splitlines()
        return out[0] if out else 'unknown'
    except Exception as e:
        return 'unknown'
    finally:
        os.unlink(fn)


# conversions the encoding leaves uninterpreted although they preserve the value: a counter-model that separates conv(x) from x
# says nothing about the code (sorted / set / reversed do change the value and are not listed)
_VALUE_PRESERVING = {'conv_list', 'conv_tuple', 'conv_np_array', 'conv_np_asarray'}


def _consts(t, out, seen, budget=20000):
    stack = [t]
    while stack and len(seen) < budget:
        x = stack.pop()
        i = x.get_id()
        if i in seen:
            continue
        seen.add(i)
        if z3.is_app(x):
            if x.num_args() == 0 and x.decl().kind() == z3.Z3_OP_UNINTERPRETED:
                out[x.decl().name()] = x
            else:
                if x.decl().kind() == z3.Z3_OP_UNINTERPRETED and x.decl().name() in _VALUE_PRESERVING:
                    out['havoc_' + x.decl().name()] = x       # list(x) / tuple(x) / np.array(x): same elements, same order
                stack.extend(x.children())
        elif z3.is_quantifier(x):
            stack.append(x.body())


def havoc_symbols(ob):
    """havoc constants the goal speaks about: directly, or through the definition (a path fact) of a defined Bool it mentions."""
    if ob.goal is None:
        return set()
    cs, seen = {}, set()
    _consts(ob.goal, cs, seen)
    bools = {n for n, c in cs.items() if c.sort() == z3.BoolSort()}
    if bools:
        for p in ob.path:
            pc = {}
            _consts(p, pc, set(), budget=3000)
            if bools & set(pc):
                cs.update(pc)
    # (a lambda evaluated twice is two different opaque closures in the encoding: equally inconclusive)
    return {n for n in cs if n.startswith('havoc_') or n.startswith('closure!')}


def discharge(ob, extra=(), timeout_ms=None, use_cvc5=True):
    s = z3.Solver()
    s.set('timeout', timeout_ms or Z3_TIMEOUT_MS)
    for a in extra:
        s.add(a)
    for p in ob.path:
        s.add(p)
    s.add(z3.Not(ob.goal))
    t = time.time()
    try:
        r = s.check()
    except z3.Z3Exception as e:
        r = z3.unknown
        ob.reason = 'z3 error: %s' % e
    ob.seconds = time.time() - t
    ob.backend = 'z3-%s' % z3.get_version_string()
    if r == z3.unsat:
        ob.verdict = 'discharged'
        if os.environ.get('PV_CROSSCHECK') and os.path.exists('/usr/bin/cvc5'):
            # thorough tier: the same query goes to an independent solver; a disagreement is never resolved in favour of "proved"
            t2 = time.time()
            try:
                res = _cvc5(s.to_smt2().replace('(check-sat)', ''), limit_s=int(os.environ.get('PV_CROSSCHECK_S', '10')))
            except Exception:
                res = 'unknown'
            ob.seconds += time.time() - t2
            ob.backend += ' + cvc5-1.0.3 cross-check: %s' % res
            if res == 'sat':
                ob.verdict, ob.reason = 'unknown', 'z3 says unsat, cvc5 says sat on the same query: solvers disagree'
    elif r == z3.sat:
        ob.verdict = 'refuted'
        try:
            ob.model = _model_dict(s.model())
        except Exception:
            ob.model = {}
        hv = havoc_symbols(ob)
        if hv:
            # the value an unmodelled call returns is unconstrained in the encoding: a proof over it is sound, a counter-model
            # through it says nothing about the real callee -> undecided, never a violation
            ob.verdict = 'unknown'
            ob.reason = 'counter-model goes through the result of an unmodelled call (%s): inconclusive' % ', '.join(sorted(hv)[:4])
    else:
        ob.verdict = 'unknown'
        ob.reason = ob.reason or ('z3: %s' % s.reason_unknown())
        if use_cvc5 and os.path.exists('/usr/bin/cvc5'):
            t = time.time()
            try:
                res = _cvc5(s.to_smt2().replace('(check-sat)', ''))
            except Exception as e:
                res = 'unknown'
            ob.seconds += time.time() - t
            if res == 'unsat':
                ob.verdict, ob.backend = 'discharged', 'cvc5-1.0.3 (after z3 unknown)'
            elif res == 'sat':
                # no model extraction from the CLI run; the caller re-poses in finite scope for a model
                ob.verdict, ob.backend, ob.model = 'refuted', 'cvc5-1.0.3 (after z3 unknown)', {}
    return ob


def satisfiable(path, timeout_ms=5000):
    """Vacuity guard: is this set of assumptions satisfiable?  Returns True / False / None (unknown)."""
    s = z3.Solver()
    s.set('timeout', timeout_ms)
    for p in path:
        s.add(p)
    r = s.check()
    return True if r == z3.sat else False if r == z3.unsat else None
