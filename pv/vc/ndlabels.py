"""Label-level model of numpy arrays for the Factor contracts (C14).

An n-d array value is abstracted to its *axis labels* and *axis sizes*:
    labels : sequence of attribute names (PyVal), one per axis; UNIT marks a size-1 axis appended by reshape,
             WILD an axis along which the array was broadcast (it carries no dependence, so any name fits)
    dims   : sequence of ints
The data itself is opaque.  The numpy extern contracts below are the trusted base of C14's deductive tier; each
is the documented positional behaviour of the numpy call:

  a.reshape(a.shape + (1,)*d)      labels ++ [UNIT]*d, dims ++ [1]*d                     (no data movement)
  a.reshape(s) with s == a.shape   a itself (flat 1-d input: layout is the caller's convention, labels unknown)
  np.moveaxis(a, range(k), ax)     a permutation sig of the axes with sig(i) = ax[i] for i < k:
                                   labels'[sig(i)] = labels[i], dims'[sig(i)] = dims[i]   (requires ax in range, distinct)
  np.broadcast_to(a, s)            requires len(s) == ndim and dims[p] in {s[p], 1}; dims' = s; UNIT axes become WILD
  elementwise f(a, b)              requires axes to align: same ndim, sizes equal, labels equal or WILD
  unary elementwise / scalar ops   labels and dims unchanged
  Factor(domain, values)           the constructor's precondition: values.labels[p] in {domain.attrs[p], WILD},
                                   values.dims[p] == domain.shape[p]  — this is where positional mistakes surface
"""
import ast
import z3
from . import engine as E
from .arrays import Arr, int_term

V, I, B = E.V, E.I, E.B
UNIT = z3.Const('UNIT_AXIS', V)
WILD = z3.Const('BROADCAST_AXIS', V)


class NDV(E.Val):
    def __init__(self, labels, dims, data, flat=E.FALSE, taint=E.FALSE):
        self.labels, self.dims, self.data, self.flat, self.taint, self.ghost = labels, dims, data, flat, taint, None

    def __repr__(self):
        return 'NDV(%s)' % self.labels.name


def lab(eng, st, a, i):
    return eng.to_V(a.at(eng, st, i))


class FactorHooks:
    def __init__(self):
        self.values_cache = {}

    # ---- symbolic Factor objects
    def sym_values(self, eng, st, o):
        key = str(o.t)
        if key not in self.values_cache:
            from . import arrays
            nm = key.replace(' ', '')[:40]
            labels = arrays.sym_array(eng, 'labels(%s.values)' % nm, elem='obj', np=False)
            dims = arrays.sym_array(eng, 'dims(%s.values)' % nm, elem='int', np=False)
            self.values_cache[key] = NDV(labels, dims, eng.uf('attr_values', V, V)(o.t), flat=z3.Bool('flat(%s.values)' % nm))
        v = self.values_cache[key]
        st.assume(z3.And(v.labels.n >= 0, v.dims.n == v.labels.n))
        return v

    def attr(self, eng, st, o, name, node):
        if isinstance(o, E.Obj) and o.cls == 'Factor' and name == 'values' and (str(o.t), 'values') not in st.fields:
            return self.sym_values(eng, st, o)
        if isinstance(o, NDV):
            if name == 'shape':
                return o.dims
            if name == 'ndim':
                return E.Num(o.dims.n)
            return E.Bound(o, name)
        return NotImplemented

    def to_V(self, v):
        return v.data

    # ---- calls
    def call(self, eng, st, name, recv, args, kw, node):
        short = name.split('.')[-1]
        if recv is None and name == 'flat' and len(args) == 1 and isinstance(args[0], NDV):
            return E.BoolV(args[0].flat)
        if recv is None and name in ('labels', 'dims') and len(args) == 1 and isinstance(args[0], NDV):
            return args[0].labels if name == 'labels' else args[0].dims
        if recv is None and name == 'axis_ok' and len(args) == 2:
            # spec function: label x fits attribute a (equal, or a broadcast axis)
            x, a = eng.to_V(args[0]), eng.to_V(args[1])
            return E.BoolV(z3.Or(x == a, x == WILD))
        if recv is None and name == 'real_name' and len(args) == 1:
            x = eng.to_V(args[0])
            return E.BoolV(z3.And(x != UNIT, x != WILD))
        if name == 'len' and len(args) == 1 and isinstance(args[0], E.Obj) and args[0].cls == 'Domain':
            return E.Num(eng.getattr(st, args[0], 'attrs', node).n)
        if isinstance(recv, NDV) and short == 'reshape' and len(args) == 1 and isinstance(args[0], Arr):
            return self.reshape(eng, st, recv, args[0], node)
        if isinstance(recv, NDV) and short == 'copy' and not args:
            return NDV(recv.labels, recv.dims, eng.fresh('copy', V), recv.flat)
        if name == 'np.moveaxis' and len(args) == 3 and isinstance(args[0], NDV):
            return self.moveaxis(eng, st, args[0], args[1], args[2], node)
        if name == 'np.broadcast_to' and len(args) == 2 and isinstance(args[0], NDV) and isinstance(args[1], Arr):
            return self.broadcast(eng, st, args[0], args[1], node)
        if name in ('np.exp', 'np.log', 'np.nan_to_num', 'np.abs') and args and isinstance(args[0], NDV) and 'out' not in kw:
            v = args[0]
            return NDV(v.labels, v.dims, eng.fresh(short, V), v.flat)
        if name in ('np.logaddexp', 'np.add', 'np.multiply', 'np.maximum', 'np.divide', 'np.subtract') and len(args) == 2 and all(isinstance(a, NDV) for a in args):
            return self.elementwise(eng, st, args[0], args[1], node, short)
        if name == 'np.where' and len(args) == 3:
            nds = [a for a in args if isinstance(a, NDV)]
            if nds:
                out = nds[0]
                for other in nds[1:]:
                    out = self.elementwise(eng, st, out, other, node, 'where')
                return NDV(out.labels, out.dims, eng.fresh('where', V))
        if name in ('np.sum', 'np.max', 'logsumexp', 'np.min', 'np.prod') and args and isinstance(args[0], NDV) and isinstance(kw.get('axis'), Arr) and len(args) == 1:
            return self.reduce(eng, st, args[0], kw['axis'], node, short)
        if name == 'Factor' and len(args) == 2 and isinstance(args[1], NDV):
            return self.construct(eng, st, args[0], args[1], node)
        if recv is None and name == 'slice' and len(args) == 1 and isinstance(args[0], E.Const) and args[0].v is None:
            k = E.Tup([E.Const(None), E.Const(None), E.Const(None)])
            k.kind = 'slice'
            return k
        return NotImplemented

    # ---- basic indexing  a[(i0 | slice(None), ...)]
    @staticmethod
    def _is_full_slice(x):
        """z3 Bool: the index element is slice(None) (keeps its axis) rather than an integer (removes it); None if unknown."""
        if isinstance(x, E.Tup) and getattr(x, 'kind', '') == 'slice' and all(isinstance(i, E.Const) and i.v is None for i in x.items):
            return E.TRUE
        if isinstance(x, E.Num):
            return E.FALSE
        g = getattr(x, 'ghost', None) or {}
        if 'ite' in g:
            c, a, b = g['ite']
            fa, fb = FactorHooks._is_full_slice(a), FactorHooks._is_full_slice(b)
            if fa is not None and fb is not None:
                return z3.If(c, fa, fb)
        return None

    def getitem(self, eng, st, o, k, node):
        if not (isinstance(o, NDV) and isinstance(k, Arr)):
            return NotImplemented
        return self.index(eng, st, o, k, node)

    def index(self, eng, st, v, idx, node):
        """a[t] for a tuple t holding one entry per axis, each an integer or slice(None): the axes indexed by an integer
        disappear, the others keep their order (numpy basic indexing; integers in range are the caller's business)."""
        s1 = st.fork()
        eng.oblige(s1, 'index/one-entry-per-axis@L%d' % node.lineno, idx.n == v.labels.n, kind='numpy-precondition')
        st.assume(idx.n == v.labels.n)

        def keep(e, s, i):
            f = self._is_full_slice(idx.at(e, s, i))
            if f is None:
                raise E.Unsupported('index entry that is neither an integer nor slice(None)')
            return f
        labels = eng.make_filter(st, v.labels, keep, name='labels-kept')
        labels.axes, labels.keep_idx, labels.of = None, keep, v      # for the kept-positions lemma (pv/contracts/factor.py)
        pos = labels.pos
        dims = Arr(labels.n, lambda e, s, j: v.dims.at(e, s, pos(j)), name='dims-kept')
        return NDV(labels, dims, eng.fresh('indexed', V))

    def construct(self, eng, st, dom, v, node):
        attrs = eng.getattr(st, dom, 'attrs', node)
        shape = eng.getattr(st, dom, 'shape', node)
        p = eng.fresh('axis', I)
        s1 = st.fork()
        eng.oblige(s1, 'Factor()/one-axis-per-attribute@L%d' % node.lineno, z3.Or(v.flat, v.labels.n == attrs.n), kind='constructor-precondition')
        s2 = st.fork()
        s2.assume(z3.And(z3.Not(v.flat), p >= 0, p < attrs.n, v.labels.n == attrs.n))
        x = lab(eng, s2, v.labels, p)
        eng.oblige(s2, 'Factor()/axis-labelled-by-the-attribute-at-that-position@L%d' % node.lineno,
                   z3.Or(x == eng.to_V(attrs.at(eng, s2, p)), x == WILD), kind='constructor-precondition')
        s3 = st.fork()
        s3.assume(z3.And(z3.Not(v.flat), p >= 0, p < attrs.n, v.labels.n == attrs.n))
        eng.oblige(s3, 'Factor()/axis-size-is-the-attribute-size@L%d' % node.lineno,
                   v.dims.at(eng, s3, p).t == shape.at(eng, s3, p).t, kind='constructor-precondition')
        res = E.Obj(eng.fresh('factor', V), cls='Factor')
        st.fields[(str(res.t), 'domain')] = dom
        st.fields[(str(res.t), 'values')] = NDV(attrs, shape, eng.fresh('values', V))
        return res

    def reshape(self, eng, st, v, shape, node):
        conc = getattr(shape, 'concat_of', None)
        if conc is not None and getattr(conc[1], 'name', '') == 'ones_rep':
            lead, ones = conc
            t = eng.seq_equal_term(st, lead, v.dims)
            eng.oblige(st, 'reshape/only-appends-unit-axes@L%d' % node.lineno, t, kind='numpy-precondition')
            st.assume(t)
            n0, d = v.labels.n, ones.n
            st.assume(d >= 0)
            labels = Arr(n0 + d, lambda e, s, i: e.ite(s, i < n0, v.labels.at(e, s, i), E.Obj(UNIT)), name='labels+unit')
            dims = Arr(n0 + d, lambda e, s, i: e.ite(s, i < n0, v.dims.at(e, s, i), E.Num(z3.IntVal(1))), name='dims+1')
            return NDV(labels, dims, v.data)
        # reshape to the array's own shape (or of a flat array, whose layout is the caller's convention)
        t = eng.seq_equal_term(st, shape, v.dims)
        eng.oblige(st, 'reshape/keeps-the-shape-or-input-is-flat@L%d' % node.lineno, z3.Or(v.flat, t), kind='numpy-precondition')
        from . import arrays
        unknown = arrays.sym_array(eng, 'labels_after_flat_reshape!%d' % eng.counter, elem='obj', np=False)
        eng.counter += 1
        labels = Arr(shape.n, lambda e, s, i: e.ite(s, v.flat, unknown.at(e, s, i), v.labels.at(e, s, i)), name='labels')
        return NDV(labels, shape, v.data, flat=E.FALSE)

    def moveaxis(self, eng, st, v, src, dst, node):
        rng = src.g('range') if isinstance(src, E.Obj) else None
        if rng is None or not isinstance(dst, Arr):
            raise E.Unsupported('moveaxis with a source other than range(k) at line %d' % node.lineno)
        lo, k = rng
        n = v.labels.n
        i0 = eng.fresh('mv', I)
        s1 = st.fork()
        eng.oblige(s1, 'moveaxis/as-many-destinations-as-sources@L%d' % node.lineno, z3.And(lo == 0, k == dst.n, k <= n), kind='numpy-precondition')
        s2 = st.fork()
        s2.assume(z3.And(i0 >= 0, i0 < dst.n))
        d = dst.at(eng, s2, i0).t
        eng.oblige(s2, 'moveaxis/destination-in-range@L%d' % node.lineno, z3.And(d >= 0, d < n), kind='numpy-precondition')
        s3 = st.fork()
        w = eng.first_index(s3, dst, dst.at(eng, s3, i0))[0]
        s3.assume(z3.And(i0 >= 0, i0 < dst.n))
        eng.oblige(s3, 'moveaxis/destinations-distinct@L%d' % node.lineno, w == i0, kind='numpy-precondition')
        st.assume(z3.And(lo == 0, k == dst.n, k <= n))
        sig = z3.Function('sig!%d' % eng.counter, I, I)
        inv = z3.Function('inv!%d' % eng.counter, I, I)
        eng.counter += 1
        eng.add_qfact(st, lambda e, s, i: z3.Implies(z3.And(i >= 0, i < n), z3.And(sig(i) >= 0, sig(i) < n, inv(sig(i)) == i)), name='moveaxis-sig')
        eng.add_qfact(st, lambda e, s, p: z3.Implies(z3.And(p >= 0, p < n), z3.And(inv(p) >= 0, inv(p) < n, sig(inv(p)) == p)), name='moveaxis-inv')
        eng.add_qfact(st, lambda e, s, i: z3.Implies(z3.And(i >= 0, i < k), sig(i) == dst.at(e, s, i).t), name='moveaxis-dst')
        labels = Arr(n, lambda e, s, p: v.labels.at(e, s, inv(p)), name='labels-moved')
        dims = Arr(n, lambda e, s, p: v.dims.at(e, s, inv(p)), name='dims-moved')
        return NDV(labels, dims, eng.fresh('moved', V))

    def reduce(self, eng, st, v, axes, node, what):
        """f(a, axis=axes): the axes at the listed positions disappear, the others keep their order.
        numpy requires the positions to be in range and pairwise distinct."""
        j0 = eng.fresh('ax', I)
        s1 = st.fork()
        s1.assume(z3.And(j0 >= 0, j0 < axes.n))
        aj = axes.at(eng, s1, j0).t
        eng.oblige(s1, '%s/axis-in-range@L%d' % (what, node.lineno), z3.And(aj >= 0, aj < v.labels.n), kind='numpy-precondition')
        s2 = st.fork()
        w = eng.first_index(s2, axes, axes.at(eng, s2, j0))[0]
        s2.assume(z3.And(j0 >= 0, j0 < axes.n))
        eng.oblige(s2, '%s/axes-distinct@L%d' % (what, node.lineno), w == j0, kind='numpy-precondition')
        keep = lambda e, s, i: z3.Not(e.membership(s, axes, E.Num(i)))
        labels = eng.make_filter(st, v.labels, keep, name='labels-kept')
        labels.axes, labels.keep_idx, labels.of = axes, keep, v      # for the positions-of-attributes lemma (pv/contracts/factor.py)
        pos = labels.pos
        dims = Arr(labels.n, lambda e, s, j: v.dims.at(e, s, pos(j)), name='dims-kept')
        return NDV(labels, dims, eng.fresh(what, V))

    def broadcast(self, eng, st, v, shape, node):
        p = eng.fresh('bc', I)
        s1 = st.fork()
        eng.oblige(s1, 'broadcast_to/same-number-of-axes@L%d' % node.lineno, shape.n == v.dims.n, kind='numpy-precondition')
        s2 = st.fork()
        s2.assume(z3.And(p >= 0, p < shape.n, shape.n == v.dims.n))
        dp = v.dims.at(eng, s2, p).t
        eng.oblige(s2, 'broadcast_to/axis-size-equal-or-one@L%d' % node.lineno, z3.Or(dp == shape.at(eng, s2, p).t, dp == 1), kind='numpy-precondition')
        st.assume(shape.n == v.dims.n)
        def at(e, s, q):
            x = e.to_V(v.labels.at(e, s, q))
            return E.Obj(z3.If(x == UNIT, WILD, x))
        labels = Arr(shape.n, at, name='labels-broadcast')
        return NDV(labels, shape, eng.fresh('broadcast', V))

    def elementwise(self, eng, st, a, b, node, what):
        p = eng.fresh('ew', I)
        s1 = st.fork()
        eng.oblige(s1, '%s/same-number-of-axes@L%d' % (what, node.lineno), a.labels.n == b.labels.n, kind='numpy-precondition')
        s2 = st.fork()
        s2.assume(z3.And(p >= 0, p < a.labels.n, a.labels.n == b.labels.n))
        x, y = lab(eng, s2, a.labels, p), lab(eng, s2, b.labels, p)
        eng.oblige(s2, '%s/operand-axes-carry-the-same-attribute@L%d' % (what, node.lineno), z3.Or(x == y, x == WILD, y == WILD), kind='numpy-precondition')
        s3 = st.fork()
        s3.assume(z3.And(p >= 0, p < a.labels.n, a.labels.n == b.labels.n))
        eng.oblige(s3, '%s/operand-axes-have-the-same-size@L%d' % (what, node.lineno), a.dims.at(eng, s3, p).t == b.dims.at(eng, s3, p).t, kind='numpy-precondition')
        st.assume(a.labels.n == b.labels.n)
        def at(e, s, q):
            x_ = e.to_V(a.labels.at(e, s, q))
            return E.Obj(z3.If(x_ == WILD, e.to_V(b.labels.at(e, s, q)), x_))
        return NDV(Arr(a.labels.n, at, name='labels-ew'), a.dims, eng.fresh(what, V))

    def binop(self, eng, st, op, l, r, node, inplace=False):
        if isinstance(l, E.Obj) and l.cls == 'Factor' and isinstance(r, E.Obj) and r.cls == 'Factor':
            key = {ast.Add: '.__add__', ast.Mult: '.__mul__', ast.Sub: '.__sub__', ast.Div: '.__truediv__'}.get(type(op))
            if key and key in eng.registry:
                return eng.call_contract(st, key, eng.registry[key], l, [r], {}, node)
        if isinstance(l, NDV) and isinstance(r, NDV):
            return self.elementwise(eng, st, l, r, node, type(op).__name__.lower())
        if isinstance(l, NDV) and isinstance(r, (E.Num, E.Obj)):
            return NDV(l.labels, l.dims, eng.fresh('scaled', V), l.flat)
        if isinstance(r, NDV) and isinstance(l, (E.Num, E.Obj)):
            return NDV(r.labels, r.dims, eng.fresh('scaled', V), r.flat)
        return NotImplemented

    def compare(self, eng, st, op, l, r, node):
        return NotImplemented
