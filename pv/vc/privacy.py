"""Ghost privacy ledger + information-flow (taint) contracts for the mechanisms (C05, C06).

Ghost state   ledger_rho (zCDP), ledger_eps (pure DP)             — updated only by the primitives below
Ghost on values   taint (private = may depend on the records), and for private values a *shape*:
    dataset                 a private Dataset (its .domain is public, .df / .records private;
                            .records is public under replace-one adjacency, where n is fixed)
    privvec(s1, s2)         a private vector with L1 / L2 sensitivity s1 / s2 (a marginal count vector:
                            s1 = s2 = 1 add/remove, s1 = 2, s2 = sqrt 2 replace  — lemma L-sens)
    privscalar(s)           a private scalar with sensitivity s
    container(elem = ...)   list / dict / array whose elements have that shape
    noise(kind, scale)      a fresh draw, not yet added to anything

Primitive contracts (lemma L-dp):
    privvec(s1,s2) + noise(normal, s)    requires public(s), public(size);  ledger_rho += s2^2/(2 s^2);  result public
    privvec(s1,s2) + noise(laplace, b)   requires public(b), public(size);  ledger_eps += s1/b;           result public
    public + noise                        result public, no charge
    select(q, eps, declared)              q a container of privscalar(s): requires public(eps), public(declared);
                                          p ~ exp(eps q /(2 declared)) (C20) is (eps s/declared)-DP, hence
                                          ledger_rho += (eps s/declared)^2/8  and  ledger_eps += eps s/declared;  result public
Flow obligations (C06): branch conditions, loop bounds, comprehension filters, scale / size arguments of the
primitives, arguments of estimate(), and the returned value are public.
"""
import ast
import z3
from . import engine as E
from .arrays import Arr

R, I, B, V = E.R, E.I, E.B, E.V
TRUE, FALSE = E.TRUE, E.FALSE


def shape(v):
    return (getattr(v, 'ghost', None) or {}).get('shape')


def priv_dataset(eng, name, records_taint=TRUE):
    o = E.Obj(z3.Const(name, V), cls='Dataset', taint=TRUE, ghost={'shape': ('dataset',), 'records_taint': records_taint})
    return o


class PrivacyHooks:
    def __init__(self, cfg):
        """cfg: sens1, sens2 (z3 reals or callables(engine,state)), records_taint, check_flow (bool)"""
        self.cfg = cfg

    # ---- helpers
    def s1(self, eng, st):
        v = self.cfg['sens1']
        return v(eng, st) if callable(v) else v

    def s2(self, eng, st):
        v = self.cfg['sens2']
        return v(eng, st) if callable(v) else v

    def init(self, eng, st):
        st.ghost['ledger_rho'] = z3.RealVal(0)
        st.ghost['ledger_eps'] = z3.RealVal(0)
        if 'init' in self.cfg:
            self.cfg['init'](eng, st)

    def public(self, eng, st, v, what, node):
        t = E.t_or(v.taint) if v is not None else FALSE
        if isinstance(v, E.Tup):
            t = E.t_or(t, *[x.taint for x in v.items])
        eng.oblige(st, 'flow/%s@L%d' % (what, getattr(node, 'lineno', 0)), z3.Not(z3.simplify(t)), kind='information-flow')

    def on_branch(self, eng, st, cv, node, what='branch-condition'):
        self.public(eng, st, cv, what, node)

    def on_loop_bound(self, eng, st, itv, node):
        lt = itv.g('len_taint') if isinstance(itv, (E.Obj, Arr)) else None
        if lt is None:
            lt = itv.taint
        eng.oblige(st, 'flow/loop-bound@L%d' % getattr(node, 'lineno', 0), z3.Not(z3.simplify(lt)), kind='information-flow')

    def on_return(self, eng, st, val, node):
        self.public(eng, st, val, 'return-value', node)

    def setitem(self, eng, st, tgt, o, k, val, node):
        """d[key] = v on a local dict: ghost running maxima of the values stored (extern contract of dict: when every key is
        stored once, max(d.values()) is the maximum of the stored values)."""
        if isinstance(tgt.value, ast.Name) and isinstance(val, E.Num):
            name = tgt.value.id
            vs = shape(val)
            if vs and vs[0] == 'privscalar':
                g = 'maxsens:' + name
                old = st.ghost.get(g, z3.RealVal(0))
                st.ghost[g] = z3.If(old >= vs[1], old, vs[1])
            elif z3.is_false(z3.simplify(val.taint)):
                g = 'maxval:' + name
                v = val.real()
                old = st.ghost.get(g)
                st.ghost[g] = v if old is None else z3.If(old >= v, old, v)
                st.ghost['stored:' + name] = z3.BoolVal(True)
        return NotImplemented

    def join_ghost(self, eng, st, container, val):
        """ghost of a container after storing `val` into it: elementwise sensitivity is the max."""
        cg = dict(getattr(container, 'ghost', None) or {})
        vs = shape(val)
        eg = cg.get('elem_ghost')
        if vs and vs[0] == 'privscalar':
            if eg and shape_of(eg) and shape_of(eg)[0] == 'privscalar':
                old = shape_of(eg)[1]
                new = z3.simplify(z3.If(old >= vs[1], old, vs[1]))
            else:
                new = vs[1]
            cg['elem_ghost'] = {'shape': ('privscalar', new)}
        elif vs:
            cg['elem_ghost'] = {'shape': vs}
        elif eg is None and getattr(val, 'ghost', None):
            cg['elem_ghost'] = val.ghost
        return cg or None

    # ---- attributes
    def attr(self, eng, st, o, name, node):
        sh = shape(o)
        if sh and sh[0] == 'dataset' and isinstance(o, E.Obj):
            if name == 'domain':
                return E.Obj(eng.uf('attr_domain', V, V)(o.t), cls='Domain', taint=o.g('domain_taint', FALSE))
            if name == 'records':
                return E.Num(eng.uf('attr_records', V, I)(o.t), taint=o.g('records_taint', TRUE))
            if name in ('df', 'weights'):
                return E.Obj(eng.uf('attr_' + name, V, V)(o.t), cls='frame', taint=o.taint)
        if sh and sh[0] == 'privvec' and isinstance(o, E.Obj):
            if name == 'size':
                n = eng.uf('vecsize', V, I)(o.t)
                st.assume(n >= 0)
                return E.Num(n, taint=FALSE)           # the number of cells of a marginal is a function of the public domain
        return NotImplemented

    # ---- calls
    def call(self, eng, st, name, recv, args, kw, node):
        short = name.split('.')[-1]
        rsh = shape(recv) if recv is not None else None
        if rsh and rsh[0] == 'dataset':
            if short in ('project', 'drop'):
                self.public(eng, st, args[0], 'project-argument', node)
                t = eng.uf('ds_' + short, V, V, V)(recv.t, eng.to_V(args[0]))
                return E.Obj(t, cls='Dataset', taint=recv.taint, ghost=dict(recv.ghost))
            if short == 'datavector':
                t = eng.uf('ds_datavector', V, V)(recv.t)
                return E.Obj(t, cls='ndarray', taint=recv.taint,
                             ghost={'shape': ('privvec', self.s1(eng, st), self.s2(eng, st))})
        if short in ('normal', 'laplace') and (name.startswith('np.random') or recv is not None):
            return self.noise(eng, st, short, args, kw, node)
        if name == 'np.linalg.norm' and args and shape(args[0]) and shape(args[0])[0] == 'privvec':
            order = args[1] if len(args) > 1 else kw.get('ord')
            if isinstance(order, E.Num) and z3.is_int_value(order.t) and order.t.as_long() == 1:
                return E.Num(eng.fresh('l1err', R), npy=True, taint=args[0].taint, ghost={'shape': ('privscalar', shape(args[0])[1])})
        if name in ('np.abs', 'abs') and args and shape(args[0]) and shape(args[0])[0] == 'privvec':
            return E.Obj(eng.fresh('absvec', V), cls='ndarray', taint=args[0].taint, ghost={'shape': ('absvec', shape(args[0])[1])})
        if short == 'sum' and rsh and rsh[0] == 'absvec' and not args:
            # sum_c |x_c - xhat_c| is 1-Lipschitz in ||x||_1  (lemma L-sens)
            return E.Num(eng.fresh('l1err', R), npy=True, taint=recv.taint, ghost={'shape': ('privscalar', rsh[1])})
        if short == 'choice' and self.cfg.get('inline_selection'):
            # the selection primitive itself (its probability vector is specified by the C20 site contract):
            # the private scores may only reach `p`; the number of candidates must be public
            self.public(eng, st, args[0], 'selection-candidate-count', node)
            st.ghost['n_selections'] = st.ghost.get('n_selections', z3.IntVal(0)) + 1
            return E.Num(eng.fresh('chosen', I), taint=FALSE)
        if name == 'max' and len(args) == 1 and isinstance(node.args[0], ast.Call) and isinstance(node.args[0].func, ast.Attribute) \
                and node.args[0].func.attr == 'values' and isinstance(node.args[0].func.value, ast.Name):
            dname = node.args[0].func.value.id
            g = st.ghost.get('maxval:' + dname)
            if g is not None:
                # max() of an empty dict raises ValueError; otherwise it is the running maximum of the stored values
                return E.Num(g, taint=args[0].taint)
        if name == 'len' and args and isinstance(args[0], E.Obj) and args[0].cls == 'Domain':
            n = eng.uf('len', V, I)(args[0].t)
            st.assume(n >= 0)
            return E.Num(n, taint=args[0].taint)
        return NotImplemented

    def noise(self, eng, st, kind, args, kw, node):
        b = dict(zip(['loc', 'scale', 'size'], args))
        b.update(kw)
        scale = b.get('scale')
        if not isinstance(scale, E.Num):
            raise E.Unsupported('noise scale is not a scalar expression at line %d' % node.lineno)
        self.public(eng, st, scale, 'noise-scale', node)
        if 'size' in b:
            self.public(eng, st, b['size'], 'noise-size', node)
        loc = b.get('loc')
        if loc is not None and not (isinstance(loc, E.Num) and z3.is_true(z3.simplify(loc.real() == 0))):
            self.public(eng, st, loc, 'noise-loc', node)
        # numpy raises ValueError for scale < 0 (path ends); scale == 0 would release the statistic itself
        eng.oblige(st, 'noise/scale-positive@L%d' % node.lineno, scale.real() > 0, kind='release-site')
        st.assume(scale.real() > 0)
        return E.Obj(eng.fresh('noise', V), cls='noise', taint=FALSE, ghost={'shape': ('noise', kind, scale.real())})

    def release(self, eng, st, x, nz, node):
        _, kind, scale = shape(nz)
        xs = shape(x)
        st.ghost['n_releases'] = st.ghost.get('n_releases', z3.IntVal(0)) + 1
        if xs is None or xs[0] != 'privvec':
            # a value with no sensitivity bound may only be released if it is public
            eng.oblige(st, 'flow/released-operand-is-public-or-has-a-sensitivity-bound@L%d' % node.lineno,
                       z3.Not(z3.simplify(x.taint)), kind='information-flow')
            return E.Obj(eng.fresh('noisy', V), cls='ndarray', taint=FALSE)
        s1, s2 = xs[1], xs[2]
        if kind == 'normal':
            st.ghost['ledger_rho'] = st.ghost['ledger_rho'] + s2 * s2 / (2 * scale * scale)
            # a Gaussian release has no finite pure-DP cost: poison the eps ledger on this path
            st.ghost['ledger_eps'] = st.ghost['ledger_eps'] + eng.uf('INFINITE_EPS_COST', R)()
        else:
            st.ghost['ledger_eps'] = st.ghost['ledger_eps'] + s1 / scale
            st.ghost['ledger_rho'] = st.ghost['ledger_rho'] + (s1 / scale) * (s1 / scale) / 2
        st.trace.append('release %s scale=%s at L%d' % (kind, scale, node.lineno))
        return E.Obj(eng.fresh('released', V), cls='ndarray', taint=FALSE, ghost={'shape': ('released',)})

    def select(self, eng, st, q, eps, declared, node, coef_half=True):
        """Exponential-mechanism site with log-odds eps/(2 declared) (q_i - q_j) (C20 contract of the callee)."""
        self.public(eng, st, eps, 'selection-eps', node)
        self.public(eng, st, declared, 'selection-declared-sensitivity', node)
        eg = (getattr(q, 'ghost', None) or {}).get('elem_ghost')
        es = shape_of(eg) if eg else None
        lt = q.g('len_taint', None) if isinstance(q, (E.Obj, Arr)) else None
        if lt is not None:
            eng.oblige(st, 'flow/selection-candidate-count@L%d' % node.lineno, z3.Not(z3.simplify(lt)), kind='information-flow')
        st.ghost['n_selections'] = st.ghost.get('n_selections', z3.IntVal(0)) + 1
        if es is None:
            if z3.is_false(z3.simplify(q.taint)):
                return E.Num(eng.fresh('chosen', I), taint=FALSE)
            raise E.Unsupported('selection over private scores of unknown sensitivity at line %d' % node.lineno)
        if es[0] != 'privscalar':
            raise E.Unsupported('selection over %s at line %d' % (es[0], node.lineno))
        actual = es[1]
        qname = node.args[0].id if getattr(node, 'args', None) and isinstance(node.args[0], ast.Name) else None
        if qname and ('maxsens:' + qname) in st.ghost:
            actual = st.ghost['maxsens:' + qname]      # the exact running maximum over the stored scores
        d = declared.real()
        # a declared sensitivity <= 0 makes the scores NaN / infinite and the sampler raises (ValueError: probabilities
        # contain NaN): the path ends without a selection
        st.assume(d > 0)
        eff = eps.real() * actual / d
        if not coef_half:
            eff = 2 * eff
        st.ghost['ledger_rho'] = st.ghost['ledger_rho'] + eff * eff / 8
        st.ghost['ledger_eps'] = st.ghost['ledger_eps'] + eff
        st.trace.append('select eps=%s actual=%s declared=%s at L%d' % (eps.real(), actual, d, node.lineno))
        return E.Num(eng.fresh('chosen', I), taint=FALSE)

    # ---- operators
    def binop(self, eng, st, op, l, r, node):
        ls, rs = shape(l), shape(r)
        if isinstance(op, ast.Add):
            if rs and rs[0] == 'noise':
                return self.release(eng, st, l, r, node)
            if ls and ls[0] == 'noise':
                return self.release(eng, st, r, l, node)
        if isinstance(op, (ast.Sub, ast.Add)):
            for a, b, sa in ((l, r, ls), (r, l, rs)):
                sb = shape(b)
                if sa and sa[0] == 'privvec' and sb is None and z3.is_false(z3.simplify(b.taint)):
                    return E.Obj(eng.fresh('privdiff', V), cls='ndarray', taint=a.taint, ghost={'shape': sa})
                if sa and sa[0] == 'privscalar' and isinstance(b, E.Num) and sb is None and z3.is_false(z3.simplify(b.taint)):
                    t = a.real() - b.real() if (a is l and isinstance(op, ast.Sub)) else (b.real() - a.real() if isinstance(op, ast.Sub) else a.real() + b.real())
                    return E.Num(t, npy=True, taint=a.taint, ghost={'shape': sa})
                if sa and sa[0] == 'privscalar' and sb is None and z3.is_false(z3.simplify(b.taint)):
                    # private scalar +- any public value: same sensitivity
                    return E.Num(eng.fresh('shifted', R), npy=True, taint=a.taint, ghost={'shape': sa})
        if isinstance(op, ast.Mult):
            for a, b, sa in ((l, r, ls), (r, l, rs)):
                if sa and sa[0] == 'privscalar' and isinstance(b, E.Num) and shape(b) is None and z3.is_false(z3.simplify(b.taint)) and isinstance(a, E.Num):
                    c = b.real()
                    return E.Num(a.real() * c, npy=True, taint=a.taint, ghost={'shape': ('privscalar', sa[1] * z3.If(c >= 0, c, -c))})
        if isinstance(op, ast.MatMult) and rs and rs[0] == 'privvec' and ls is None:
            # the query matrix applied to private counts must itself be public
            eng.oblige(st, 'flow/query-matrix-is-public@L%d' % node.lineno, z3.Not(z3.simplify(l.taint)), kind='information-flow')
            bound = (getattr(l, 'ghost', None) or {}).get('colnorm2_le')
            if bound is None:
                raise E.Unsupported('public matrix of unknown column norm applied to a private vector at line %d' % node.lineno)
            # ||Q(x - x')||_2 <= colnorm2(Q) ||x - x'||_1  and  ||Q(x-x')||_1 <= colnorm1(Q) ||x - x'||_1 ; contracts give bounds
            b1 = (getattr(l, 'ghost', None) or {}).get('colnorm1_le', None)
            return E.Obj(eng.fresh('Qx', V), cls='ndarray', taint=r.taint,
                         ghost={'shape': ('privvec', rs[1] * (b1 if b1 is not None else eng.fresh('colnorm1', R)), rs[1] * bound)})
        return NotImplemented


def shape_of(g):
    return (g or {}).get('shape')
