"""Sequence / array theory of the VC generator.

A symbolic sequence (`Arr`) is a length term plus an element function evaluated lazily at an
index term.  It models Python tuples/lists of unknown length and 1-d numpy arrays alike
(the `np` flag selects numpy's elementwise operators).  Facts that quantify over indices
(`forall(lambda k: ...)` in specs, the order-preserving filter schema for comprehensions) are
kept as *quantified facts* and instantiated by hand at the index terms that occur in an
obligation (ground instantiation keeps z3 decisive and gives counter-models).

Extern contracts written out here (numpy / scipy, value level, reals for floats):
  a.max(): m with a[i] <= m for every i and m == a[w] for a witness index w (non-empty a)
  a.sum(): uninterpreted `sum(a)`;   np.abs, np.exp, np.log, unary -, + - * / : elementwise
  scipy.special.softmax(s)[i] = exp(s[i] - LSE(s));  logsumexp(s) = LSE(s)  (LSE opaque)
  np.append(a, v): length n+1, a's elements then v;   np.array(list) keeps length and elements
  np.linalg.norm(w) (2-norm): r >= 0 and r*r == sumsq(w, len(w))
"""
import ast
import z3
from . import engine as E

# The z3 Python bindings re-check the context's error code after every C call; term traversal makes tens of millions of
# such calls.  Errors still surface (the solver call itself is checked in pv/vc/solver.py through its result).
try:
    import z3.z3core as _core
    _core.Elementaries.Check = lambda self, ctx: None
except Exception:
    pass
_SX = {}


def sx_len(t):
    i = t.get_id()
    if i not in _SX:
        s = t.sexpr()
        _SX[i] = (len(s), s)
    return _SX[i]

R, I, B, V = E.R, E.I, E.B, E.V


class Arr(E.Val):
    def __init__(self, n, at, np=False, taint=E.FALSE, ghost=None, name=None):
        self.n, self._at, self.np, self.taint, self.ghost, self.name = n, at, np, taint, ghost, name
        self._v = None
        self.len_taint = None        # taint of the length alone (None: same as the elements')

    def at(self, eng, st, i):
        return self._at(eng, st, i)

    def __repr__(self):
        return 'Arr(%s, n=%s)' % (self.name, self.n)


class DictSym(E.Val):
    """A dict parameter with statically unknown keys: keys()[i] and a typed value function."""
    is_dictsym = True

    def __init__(self, eng, name, val='real', taint=E.FALSE):
        self.name, self.taint, self.ghost = name, taint, None
        self.n = z3.Int('len_' + name)
        self.keyf = z3.Function('key_' + name, I, V)
        self.valf = z3.Function('val_' + name, V, R if val == 'real' else I if val == 'int' else V)
        self.val = val
        self.t = z3.Const('dict_' + name, V)

    def keys_arr(self):
        if getattr(self, '_keys', None) is None:
            kf = self.keyf
            self._keys = Arr(self.n, lambda e, s, i: E.Obj(kf(i)), taint=self.taint, name='keys_' + self.name)
        return self._keys

    def get(self, eng, k, st=None):
        kv = eng.to_V(k)
        if hasattr(self, 'zip_keys') and st is not None:
            keys, vals = self.zip_keys, self.zip_vals
            w = self.zip_last(eng.arr_to_V(keys), kv)
            st.assume(eng.membership(st, keys, k))                    # KeyError ends the path
            st.assume(z3.And(w >= 0, w < keys.n, eng.val_eq(st, keys.at(eng, st, w), k)))
            eng.add_qfact(st, lambda e, s, j: z3.Implies(z3.And(j > w, j < keys.n), z3.Not(e.val_eq(s, keys.at(e, s, j), k))), name='zipdict-last')
            return vals.at(eng, st, w)
        if self.val == 'real':
            return E.Num(self.valf(kv), npy=True, taint=E.t_or(self.taint, k.taint))
        if self.val == 'int':
            return E.Num(self.valf(kv), taint=E.t_or(self.taint, k.taint))
        return E.Obj(self.valf(kv), taint=E.t_or(self.taint, k.taint))

    def has(self, eng, st, k):
        return eng.uf('has_key', V, V, B)(self.t, eng.to_V(k))


class SetV(E.Val):
    """set(seq): only membership-based comparisons are modelled."""
    def __init__(self, arr):
        self.arr, self.taint, self.ghost = arr, arr.taint, None


class QFact:
    """forall k. guard(k) -> body(k), kept for ground instantiation.  `fn(eng, st, k)` -> z3 Bool."""
    def __init__(self, fn, marker=None, name=''):
        self.fn, self.marker, self.name = fn, marker, name


def sym_array(eng, name, elem='real', taint=E.FALSE, np=True, ghost=None):
    """A symbolic array parameter: uninterpreted length and element function."""
    n = z3.Int('len_' + name)
    if elem == 'real':
        f = z3.Function('elt_' + name, I, R)
        at = lambda e, s, i: E.Num(f(i), npy=np, taint=taint)
    elif elem == 'int':
        f = z3.Function('elt_' + name, I, I)
        at = lambda e, s, i: E.Num(f(i), taint=taint)
    else:
        f = z3.Function('elt_' + name, I, V)
        cls = elem[4:] if elem.startswith('obj') else None
        at = lambda e, s, i: E.Obj(f(i), cls=cls or None, taint=taint, ghost=ghost)
    a = Arr(n, at, np=np, taint=taint, name=name)
    a.nonneg = n >= 0
    a.elt_fn = f
    return a


def int_term(v):
    return v.t if v.is_int else z3.ToInt(v.t)


class ArrayTheory:
    """Mixed into Engine (see engine.Engine.__init__)."""

    # ---- quantified facts -------------------------------------------------------------
    def add_qfact(self, st, fn, name='', marker=None):
        st.qfacts = list(getattr(st, 'qfacts', [])) + [QFact(fn, marker, name)]

    def hint_instances(self, st, terms, passes=2):
        """Proof hint: ground instances of every quantified fact of `st` at the given Int terms (the instances a lemma's
        paper proof uses).  Only adds consequences of facts already assumed."""
        done = set()
        for _ in range(passes):
            for q in list(getattr(st, 'qfacts', [])):
                for t in terms:
                    key = (id(q), t.get_id())
                    if key in done:
                        continue
                    done.add(key)
                    try:
                        inst = q.fn(self, st, t)
                    except E.Unsupported:
                        continue
                    st.assume(z3.Implies(q.marker, inst) if q.marker is not None else inst)

    def index_terms(self, exprs, limit=14):
        """Int-sorted terms worth instantiating at: arguments of uninterpreted functions and Int constants."""
        seen, out = set(), []
        def visit(t):
            if t.get_id() in seen or len(seen) > 6000:
                return
            seen.add(t.get_id())
            if z3.is_app(t):
                d = t.decl()
                if t.sort() == I and t.num_args() == 0 and d.kind() == z3.Z3_OP_UNINTERPRETED:
                    out.append(t)
                if d.kind() == z3.Z3_OP_UNINTERPRETED and t.num_args() > 0:
                    for a in t.children():
                        if a.sort() == I and not z3.is_int_value(a):
                            out.append(a)
                for c in t.children():
                    visit(c)
            elif z3.is_quantifier(t):
                visit(t.body())
        for e in exprs:
            visit(e)
        uniq, ids = [], set()
        for t in out:
            if t.get_id() not in ids:
                ids.add(t.get_id())
                uniq.append(t)
        return uniq[:limit]

    def qfact_triggers(self, st, q):
        """E-matching patterns of a quantified fact: (function name, argument position, offset) for every
        uninterpreted-function argument of the form k or k + c in one probe instance."""
        if getattr(q, 'triggers', None) is not None:
            return q.triggers
        kp = self.fresh('probe', I)
        s2 = st.fork()
        trig = set()
        try:
            f = q.fn(self, s2, kp)
            forms = [f] + s2.path[len(st.path):]
        except E.Unsupported:
            forms = []
        seen = set()
        def offset(a):
            if z3.eq(a, kp):
                return 0
            if z3.is_add(a) and a.num_args() == 2:
                x, y = a.arg(0), a.arg(1)
                if z3.eq(x, kp) and z3.is_int_value(y):
                    return y.as_long()
                if z3.eq(y, kp) and z3.is_int_value(x):
                    return x.as_long()
            if z3.is_sub(a) and a.num_args() == 2 and z3.eq(a.arg(0), kp) and z3.is_int_value(a.arg(1)):
                return -a.arg(1).as_long()
            return None
        def visit(t):
            if t.get_id() in seen or len(seen) > 4000:
                return
            seen.add(t.get_id())
            if z3.is_app(t):
                if t.decl().kind() == z3.Z3_OP_UNINTERPRETED and t.num_args() > 0:
                    for pos, a_ in enumerate(t.children()):
                        if a_.sort() == I:
                            c = offset(a_)
                            if c is not None:
                                trig.add((t.decl().name(), pos, c))
                for c_ in t.children():
                    visit(c_)
        for f in forms:
            visit(f)
        q.triggers = trig
        q.extra_q = list(s2.qfacts[len(st.qfacts):])
        return trig

    def instantiate(self, st, goal, rounds=None):
        """Ground instances of the state's quantified facts, chosen by E-matching: a fact is instantiated at the terms that
        occur (in the goal, the path or earlier instances) as arguments of the functions its body applies to the bound
        variable.  Facts registered while instantiating (membership / first-index axioms of new terms) join the working set."""
        qf = list(getattr(st, 'qfacts', []))
        if not qf:
            return []
        if rounds is None and getattr(self, '_clause_rounds', None) is not None:
            rounds = self._clause_rounds
        if rounds is None:
            # one eager E-matching round; what it misses is found by model-based refinement of the solver's answer (refine below).
            # A contract may ask for more eager rounds (inst_rounds) where refinement alone does not converge.
            rounds = int(__import__('os').environ.get('PV_INST_ROUNDS', 0) or self.c.get('inst_rounds', 1))
        facts = []
        done = set()
        work = st.fork()
        consts = None
        occ = {}            # function name -> list of argument lists (one traversal per formula)
        seen = set()
        def index(exprs):
            stack = list(exprs)
            while stack:
                t = stack.pop()
                i_ = t.get_id()
                if i_ in seen:
                    continue
                seen.add(i_)
                if z3.is_app(t):
                    n_ = t.num_args()
                    if n_ > 0:
                        d = t.decl()
                        ch = t.children()
                        if d.kind() == z3.Z3_OP_UNINTERPRETED:
                            occ.setdefault(d.name(), []).append(ch)
                        stack.extend(ch)
                elif z3.is_quantifier(t):
                    stack.append(t.body())
        index([goal])
        # defined Bools (distinct!k, all_in!k, seq_eq!k) in the goal stand for their definitions: the path facts that
        # define them (Skolem counter-example clauses) count as part of the goal
        gconsts = set()
        gstack = [goal]
        while gstack:
            t_ = gstack.pop()
            if z3.is_app(t_):
                if t_.num_args() == 0 and t_.sort() == B and t_.decl().kind() == z3.Z3_OP_UNINTERPRETED:
                    gconsts.add(t_.get_id())
                gstack.extend(t_.children())
        if gconsts:
            def mentions(f):
                stk, n_ = [f], 0
                while stk and n_ < 400:
                    t_ = stk.pop(); n_ += 1
                    if z3.is_app(t_):
                        if t_.num_args() == 0 and t_.get_id() in gconsts:
                            return True
                        stk.extend(t_.children())
                return False
            index([p_ for p_ in work.path if mentions(p_)])
        goal_ids = set(seen)          # sub-terms of the goal: instantiation terms from here are never cut off
        gnames = set()
        gstack = [goal]
        gseen = set()
        while gstack:
            t_ = gstack.pop()
            if t_.get_id() in gseen:
                continue
            gseen.add(t_.get_id())
            if z3.is_app(t_):
                if t_.num_args() == 0 and t_.decl().kind() == z3.Z3_OP_UNINTERPRETED and t_.sort() == I:
                    gnames.add(t_.decl().name())
                gstack.extend(t_.children())
        index(list(work.path))
        for rnd in range(rounds):
            new = []
            for q in list(qf):
                trig = self.qfact_triggers(work, q)
                terms, ids = [], set()
                if trig:
                    for name, pos, c in trig:
                        for ch in occ.get(name, ()):
                            if pos < len(ch) and ch[pos].sort() == I:
                                k_ = z3.simplify(ch[pos] - c) if c else ch[pos]
                                if k_.get_id() not in ids:
                                    ids.add(k_.get_id())
                                    terms.append(k_)
                    # smallest terms first: nested witness terms (matching loops) come last and are cut off
                    def rank(t_):
                        n_, sx = sx_len(t_)
                        return (t_.get_id() not in goal_ids, not any(g_ in sx for g_ in gnames), n_)
                    terms.sort(key=rank)
                    terms = [t_ for t_ in terms if t_.get_id() in goal_ids] + \
                            [t_ for t_ in terms if t_.get_id() not in goal_ids and sx_len(t_)[0] <= 220][:16]
                else:
                    if consts is None:
                        consts = self.index_terms([goal] + list(work.path), limit=12) + [z3.IntVal(0)]
                    terms = consts
                for t in terms:
                    key = (id(q), t.get_id())
                    if key in done:
                        continue
                    done.add(key)
                    s2 = work.fork()
                    try:
                        inst = q.fn(self, s2, t)
                    except E.Unsupported:
                        continue
                    side = s2.path[len(work.path):]
                    if q.marker is not None:
                        inst = z3.Implies(q.marker, inst)
                    new.extend(side)
                    new.append(inst)
                    for q2 in s2.qfacts[len(work.qfacts):]:
                        qf.append(q2)
                        work.qfacts.append(q2)
                    if '_fi_done' in s2.__dict__:
                        work._fi_done = set(s2._fi_done)
            # element lemmas at every x for which membership in one of their sequences is mentioned
            el_done = done
            for arrs, fn, nm in getattr(work, 'elem_lemmas', []):
                for ch in occ.get('contains', ()):
                    if len(ch) == 2 and ch[0].get_id() in arrs:
                        key = (id(fn), ch[1].get_id())
                        if key in el_done:
                            continue
                        el_done.add(key)
                        new.append(fn(ch[1]))
            if not new:
                break
            facts.extend(new)
            index(new)
        return facts

    def refine(self, ob, discharge, rounds=30, pool_limit=160, budget_s=float(__import__('os').environ.get('PV_REFINE_BUDGET_S', '25')), per_round=80):
        """Model-based instantiation for an obligation the solver answered `sat` on a finite set of instances: evaluate every
        quantified fact at every index term of the formula under the model; add the instances the model violates and ask again.
        `unsat` is then a proof (only consequences of assumed facts were added); a model that satisfies every instance over the
        pool is kept as the counter-model; running out of budget leaves the obligation undecided."""
        import time as _t
        st = getattr(self, '_refine_states', {}).get(id(ob))
        if st is None or not getattr(st, 'qfacts', None):
            return
        t0 = _t.time()
        added_total = 0
        done = set()
        built = {}                   # (qfact, term) -> (instance, side facts, new qfacts): built once, re-evaluated per model
        size_cache = {}
        for rnd in range(rounds):
            s = z3.Solver()
            s.set('timeout', 10000)
            for p_ in ob.path:
                s.add(p_)
            s.add(z3.Not(ob.goal))
            r = s.check()
            if r == z3.unsat:
                ob.verdict, ob.model = 'discharged', None
                ob.backend = (ob.backend or 'z3') + ' + model-based instantiation (%d instances)' % added_total
                ob.reason = ''
                return
            if r != z3.sat:
                ob.verdict, ob.reason = 'unknown', 'z3 %s during model-based instantiation' % s.reason_unknown()
                return
            m = s.model()
            pool = self.index_terms([ob.goal] + list(ob.path), limit=pool_limit) + [z3.IntVal(0), z3.IntVal(1)]
            # one representative per model value: equal indices give equal instances under the model
            reps, vals = [], set()
            for t in pool:
                try:
                    v = m.eval(t, model_completion=True)
                    key = v.as_long() if z3.is_int_value(v) else str(v)
                except Exception:
                    key = t.get_id()
                if key not in vals:
                    vals.add(key)
                    reps.append(t)
            new, cands = [], []
            work = st.fork()
            qf = list(work.qfacts)
            # occurrences of every uninterpreted function in the current formula (for trigger-based candidate terms)
            occ, seen_ = {}, set()
            stack = [ob.goal] + list(ob.path)
            while stack:
                x = stack.pop()
                if x.get_id() in seen_:
                    continue
                seen_.add(x.get_id())
                if z3.is_app(x) and x.num_args() > 0:
                    if x.decl().kind() == z3.Z3_OP_UNINTERPRETED:
                        occ.setdefault(x.decl().name(), []).append(x.children())
                    stack.extend(x.children())
                elif z3.is_quantifier(x):
                    stack.append(x.body())

            def by_value(terms):
                out, vs = [], set()
                for t in terms:
                    try:
                        v = m.eval(t, model_completion=True)
                        k_ = v.as_long() if z3.is_int_value(v) else str(v)
                    except Exception:
                        k_ = t.get_id()
                    if k_ not in vs:
                        vs.add(k_)
                        out.append(t)
                return out
            for q in qf:
                trig = self.qfact_triggers(work, q)
                if trig:
                    cand = []
                    for name, pos, c in trig:
                        for ch in occ.get(name, ()):
                            if pos < len(ch) and ch[pos].sort() == I:
                                cand.append(z3.simplify(ch[pos] - c) if c else ch[pos])
                    cand = by_value(cand)
                else:
                    cand = reps
                for t in cand:
                    key = (id(q), t.get_id())
                    if key in done:
                        continue
                    if _t.time() - t0 > budget_s:
                        break
                    if key in built:
                        inst, side, newq = built[key]
                        if inst is None:
                            continue
                    else:
                        s2 = work.fork()
                        try:
                            inst = q.fn(self, s2, t)
                        except E.Unsupported:
                            built[key] = (None, None, None)
                            continue
                        if q.marker is not None:
                            inst = z3.Implies(q.marker, inst)
                        side = s2.path[len(work.path):]
                        newq = s2.qfacts[len(work.qfacts):]
                        built[key] = (inst, side, newq)
                    try:
                        bad = [f for f in [inst] + list(side) if z3.is_false(m.eval(f, model_completion=True))]
                    except z3.Z3Exception:
                        bad = []
                    if bad:
                        cands.append((key, inst, side, newq))
            if not cands:
                ob.backend = (ob.backend or 'z3') + ' (counter-model satisfies every quantified fact over %d index values)' % len(reps)
                return
            if len(cands) > per_round:
                # keep the formula small: a model of unconstrained functions violates many irrelevant instances; the smallest
                # ones first (they mention the obligation's own index terms), the others are found again if they still matter
                def size(c_):
                    i_ = c_[1].get_id()
                    if i_ not in size_cache:
                        size_cache[i_] = len(c_[1].sexpr())
                    return size_cache[i_]
                cands.sort(key=size)
                cands = cands[:per_round]
            for key, inst, side, newq in cands:
                done.add(key)
                new.extend(side)
                new.append(inst)
                for q2 in newq:
                    qf.append(q2)
                    work.qfacts.append(q2)
            if _t.time() - t0 > budget_s:
                ob.verdict, ob.reason = 'unknown', 'model-based instantiation budget exhausted'
                return
            added_total += len(new)
            ob.path = list(ob.path) + new
        ob.verdict, ob.reason = 'unknown', 'model-based instantiation did not converge in %d rounds' % rounds

    def add_elem_lemma(self, st, arrs, fn, name=''):
        """A lemma quantified over *elements* x (sort PyVal), instantiated at every x for which `x in a` is mentioned for one
        of the given sequences.  Used for: membership in a concatenation, membership in equal sequences."""
        st.elem_lemmas = list(getattr(st, 'elem_lemmas', [])) + [(set(self.arr_to_V(a).get_id() for a in arrs), fn, name)]

    def seq_equal_term(self, st, a, b):
        """a == b for sequences, as a defined Bool, together with the consequences the other spec functions need:
        equal sequences have the same members and the same product (lemmas of the sequence theory)."""
        eq = self.defined_bool(st, 'seq_eq', a.n, lambda e, s, k: e.val_eq(s, a.at(e, s, k), b.at(e, s, k)))
        t = z3.And(a.n == b.n, eq)
        cont = self.uf('contains', V, V, B)
        av, bv = self.arr_to_V(a), self.arr_to_V(b)
        self.members_axiom(st, a)
        self.members_axiom(st, b)
        self.add_elem_lemma(st, [a, b], lambda x: z3.Implies(t, cont(av, x) == cont(bv, x)), name='equal-sequences-same-members')
        if (hasattr(a, 'concat_of') or hasattr(b, 'concat_of')) and not getattr(self, '_in_seq_eq_distinct', False):
            # equal sequences are distinct together (two instances of each definition; stated so that the concat-distinct lemma,
            # which speaks about the concatenation itself, reaches the object that was built from it)
            self._in_seq_eq_distinct = True
            try:
                da, db = self.distinct_term(st, a), self.distinct_term(st, b)
            finally:
                self._in_seq_eq_distinct = False
            st.assume(z3.Implies(t, da == db))
        pa, pb = a.at(self, st, z3.IntVal(0)), b.at(self, st, z3.IntVal(0))
        if isinstance(pa, E.Num) and isinstance(pb, E.Num):
            f = self.uf('prod', V, I, R)
            self.prodf(st, a, a.n)
            self.prodf(st, b, b.n)
            st.assume(z3.Implies(t, f(av, a.n) == f(bv, b.n)))
        return t

    # ---- spec functions ---------------------------------------------------------------
    def spec_forall(self, st, lam, lo=None, hi=None):
        """forall(lambda k: body)  or  forall(lambda k: body, lo, hi) meaning lo <= k < hi -> body."""
        if not isinstance(lam, E.FuncV) or not isinstance(lam.node, ast.Lambda):
            raise E.Unsupported('forall needs a lambda')
        var = lam.node.args.args[0].arg
        def body(eng, s, k):
            # lexical scoping: the lambda sees the spec environment it was written in (callee parameters bound to the
            # call's arguments, old() names ...), never the variables of whatever state it is instantiated in
            s.env = dict(lam.closure.env)
            s.env[var] = E.Num(k)
            self._spec_mode = getattr(self, '_spec_mode', 0) + 1
            try:
                t = eng.truth(s, eng.ev(s, lam.node.body))
            finally:
                self._spec_mode -= 1
            g = []
            if lo is not None:
                g.append(k >= int_term(lo))
            if hi is not None:
                g.append(k < int_term(hi))
            return z3.Implies(z3.And(*g), t) if g else t
        if getattr(self, '_spec_polarity', 'assume') == 'prove':
            k0 = self.fresh('sk_' + var, I)
            self._last_skolems = getattr(self, '_last_skolems', []) + [k0]
            return E.BoolV(body(self, st, k0))
        marker = self.fresh('qf', B)
        self.add_qfact(st, body, name=var, marker=marker)
        self._new_qfacts = getattr(self, '_new_qfacts', []) + [st.qfacts[-1]]
        return E.BoolV(marker)

    # ---- construction -----------------------------------------------------------------
    def arr_to_V(self, a):
        if a._v is None:
            a._v = self.fresh('arr_' + (a.name or 'a'), V)
        return a._v

    def arr_map(self, a, fn, np=None, name=None, taint=None):
        """Elementwise map (fn: Val -> Val)."""
        return Arr(a.n, lambda e, s, i: fn(e, s, a.at(e, s, i)), np=a.np if np is None else np,
                   taint=a.taint if taint is None else taint, name=name)

    def arr_zip(self, st, arrs):
        n = arrs[0].n
        # zip truncates to the shortest; lengths are required equal by the contracts that use it
        out = Arr(n, lambda e, s, i: E.Tup([a.at(e, s, i) for a in arrs]), taint=E.t_or(*[a.taint for a in arrs]), name='zip')
        out.zipped = list(arrs)
        return out

    def prodf(self, st, a, upto):
        """spec function prod_{k<upto} a[k] with its defining equations instantiated at `upto`."""
        f = self.uf('prod', V, I, R)
        av = self.arr_to_V(a)
        x = a.at(self, st, upto).real()
        st.assume(z3.And(f(av, z3.IntVal(0)) == 1, f(av, upto + 1) == f(av, upto) * x))
        if hasattr(a, 'concat_of'):
            # lemma (assumed, induction on the second sequence): the product over a concatenation is the product of the products
            l, r = a.concat_of
            self.prodf(st, l, l.n)
            self.prodf(st, r, r.n)
            st.assume(f(av, l.n + r.n) == f(self.arr_to_V(l), l.n) * f(self.arr_to_V(r), r.n))
        return E.Num(f(av, upto))

    def zipdict(self, st, keys, vals):
        """dict(zip(keys, vals)): lookup of x yields vals at the LAST position of x in keys (later pairs overwrite)."""
        d = DictSym(self, 'zipdict!%d' % self.counter, val='int')
        self.counter += 1
        kv = self.arr_to_V(keys)
        last = self.uf('last_index', V, V, I)
        cont = self.uf('contains', V, V, B)
        d.n = self.fresh('dictlen', I)
        def get(eng, k, st_=None):
            xv = eng.to_V(k)
            w = last(kv, xv)
            return w
        d.zip_keys, d.zip_vals, d.zip_last = keys, vals, last
        return d

    def arr_from_tup(self, t, np=False):
        cached = t.__dict__.get('_as_arr')
        if cached is not None and cached.np == np:
            return cached
        out = self._arr_from_tup(t, np)
        t._as_arr = out
        return out

    def _arr_from_tup(self, t, np=False):
        items = t.items
        def at(e, s, i):
            if not items:
                return E.Num(e.fresh('nothing', R), npy=np)      # never constrained: the sequence is empty
            out = items[-1]
            for k in range(len(items) - 2, -1, -1):
                out = e.ite(s, i == k, items[k], out)
            return out
        return Arr(z3.IntVal(len(items)), at, np=np, taint=E.t_or(t.taint, *[x.taint for x in items]), name='lit')

    # ---- elementwise operators ----------------------------------------------------------
    def arr_binop(self, st, op, l, r, node):
        if isinstance(op, ast.Mult) and isinstance(l, E.Tup) and len(l.items) == 1 and isinstance(r, E.Num) and r.is_int \
                and isinstance(l.items[0], E.Num):
            c = l.items[0]                      # [c] * n : n copies of c
            st.assume(z3.Implies(r.t < 0, E.FALSE) if False else E.TRUE)
            n_ = z3.If(r.t >= 0, r.t, 0)
            return Arr(n_, lambda e, s, i: c, name='ones_rep' if z3.is_true(z3.simplify(c.real() == 1)) else 'rep')
        la, ra = isinstance(l, Arr), isinstance(r, Arr)
        if not (la or ra):
            return NotImplemented
        if la and ra and not (l.np or r.np):
            if isinstance(op, ast.Add):      # sequence concatenation
                n1 = l.n
                out = Arr(l.n + r.n, lambda e, s, i: e.ite(s, i < n1, l.at(e, s, i), r.at(e, s, i - n1)),
                          taint=E.t_or(l.taint, r.taint), name='concat')
                out.concat_of = (l, r)
                cont = self.uf('contains', V, V, B)
                ov, lv, rv = self.arr_to_V(out), self.arr_to_V(l), self.arr_to_V(r)
                for x_ in (out, l, r):
                    self.members_axiom(st, x_)
                self.add_elem_lemma(st, [out, l, r], lambda x: cont(ov, x) == z3.Or(cont(lv, x), cont(rv, x)), name='membership-in-concatenation')
                return out
            return NotImplemented
        other = r if la else l
        if not isinstance(other, (Arr, E.Num)):
            return NotImplemented
        if la and ra and not self.in_spec():
            # numpy broadcasting of 1-d operands needs equal lengths (length-1 broadcasting is not modelled)
            st.assume(l.n == r.n)
        base = l if la else r
        def at(e, s, i):
            a = l.at(e, s, i) if la else l
            b = r.at(e, s, i) if ra else r
            return E.Engine.binop(e, s, op, a, b, node)
        out = Arr(base.n, at, np=True, taint=E.t_or(l.taint, r.taint), name='ew')
        try:
            # structural identity: the same elementwise expression over the same operands is the same array value
            out._v = self.uf('ew_' + type(op).__name__, V, V, V)(self.to_V(l), self.to_V(r))
        except E.Unsupported:
            pass
        if la and not ra and isinstance(op, ast.Div):
            out.scaled_from = (l, r.real())
        return out

    def arr_unary(self, st, fname, a):
        def at(e, s, i):
            x = a.at(e, s, i)
            if fname == 'neg':
                return E.Num(-x.t, x.npy, x.taint)
            if fname == 'abs':
                return E.Num(z3.If(x.t >= 0, x.t, -x.t), x.npy, x.taint)
            f = e.uf('np_' + fname, R, R)
            res = f(x.real())
            if fname == 'exp':
                s.assume(res > 0)
                s.assume(e.uf('np_log', R, R)(res) == x.real())     # ground instance of log(exp(t)) = t
            return E.Num(res, True, x.taint)
        out = Arr(a.n, at, np=True, taint=a.taint, name=fname)
        if fname == 'exp':
            out.logf = a
        return out

    def arr_max(self, st, a, which='max'):
        m = self.fresh(which, R)
        w = self.fresh('arg' + which, I)
        st.assume(z3.Implies(a.n > 0, z3.And(w >= 0, w < a.n)))
        xw = a.at(self, st, w)
        st.assume(z3.Implies(a.n > 0, m == xw.real()))
        if which == 'max':
            self.add_qfact(st, lambda e, s, k: z3.Implies(z3.And(k >= 0, k < a.n), a.at(e, s, k).real() <= m), name=which)
        else:
            self.add_qfact(st, lambda e, s, k: z3.Implies(z3.And(k >= 0, k < a.n), a.at(e, s, k).real() >= m), name=which)
        return E.Num(m, npy=True, taint=a.taint)

    def sumsq(self, st, a, upto):
        """spec function: sum_{k<upto} a[k]^2 with its defining equations instantiated at `upto`."""
        f = self.uf('sumsq', V, I, R)
        av = self.arr_to_V(a)
        x = a.at(self, st, upto).real()
        st.assume(z3.And(f(av, z3.IntVal(0)) == 0, f(av, upto + 1) == f(av, upto) + x * x, f(av, upto) >= 0))
        # lemmas (assumed, listed in the trusted base): closed form for constant-one arrays, scaling law
        if a.name == 'ones':
            st.assume(z3.Implies(upto >= 0, f(av, upto) == z3.ToReal(upto)))
        if hasattr(a, 'scaled_from'):
            base, c = a.scaled_from
            self.sumsq(st, base, upto)
            st.assume(z3.Implies(c != 0, f(av, upto) == f(self.arr_to_V(base), upto) / (c * c)))
        return E.Num(f(av, upto))

    def count_len(self, st, a, k):
        """spec function #{x in a : len(x) < k}; lemma (assumed, elementary counting): it is monotone in k with
        increments #{x in a : len(x) == k}, lies in [0, len(a)]."""
        f = self.uf('count_len_lt', V, I, I)
        g = self.uf('count_len_eq', V, I, I)
        av = self.arr_to_V(a)
        st.assume(z3.And(f(av, k) >= 0, f(av, k) <= a.n, g(av, k) >= 0, f(av, k + 1) == f(av, k) + g(av, k), f(av, k + 1) <= a.n))
        return E.Num(f(av, k))

    def sumf(self, st, a, upto):
        f = self.uf('psum', V, I, R)
        av = self.arr_to_V(a)
        x = a.at(self, st, upto).real()
        st.assume(z3.And(f(av, z3.IntVal(0)) == 0, f(av, upto + 1) == f(av, upto) + x))
        return E.Num(f(av, upto))

    # ---- hooks called from Engine -------------------------------------------------------
    def arr_getattr(self, st, o, name, node):
        if isinstance(o, DictSym):
            return E.Bound(o, name, taint=o.taint)
        if not isinstance(o, Arr):
            return NotImplemented
        lt = o.taint if o.len_taint is None else o.len_taint
        if name == 'size':
            return E.Num(o.n, taint=lt)
        if name == 'shape':
            return E.Tup([E.Num(o.n, taint=lt)])
        return E.Bound(o, name, taint=o.taint)

    def arr_getitem(self, st, o, k, node):
        if isinstance(o, E.Tup) and o.items and isinstance(k, E.Num) and not z3.is_int_value(k.t) and k.is_int:
            o = self.arr_from_tup(o)
        if isinstance(o, DictSym):
            return o.get(self, k, st)
        if isinstance(o, Arr) and isinstance(k, E.Num):
            i = int_term(k)
            if z3.is_int_value(i) and i.as_long() < 0:
                i = o.n + i
            if not self.in_spec():
                st.assume(z3.And(i >= 0, i < o.n))      # IndexError ends the path
            return o.at(self, st, i)
        if isinstance(o, E.Tup) and o.items and isinstance(k, E.Tup) and getattr(k, 'kind', '') == 'slice' and self.c.get('sequences'):
            o = self.arr_from_tup(o)
        if isinstance(o, Arr) and isinstance(k, E.Tup) and getattr(k, 'kind', '') == 'slice' and len(k.items) == 3:
            lo_, hi_, step_ = k.items
            none = lambda v: isinstance(v, E.Const) and v.v is None
            if none(step_) and all(none(v) or (isinstance(v, E.Num) and v.is_int) for v in (lo_, hi_)):
                # a[lo:hi] with Python's clamping of the bounds; negative bounds count from the end
                def bound(v, default):
                    if none(v):
                        return default
                    t = int_term(v)
                    t = z3.If(t < 0, t + o.n, t)
                    return z3.If(t < 0, 0, z3.If(t > o.n, o.n, t))
                lo, hi = bound(lo_, z3.IntVal(0)), bound(hi_, o.n)
                n2 = z3.If(hi > lo, hi - lo, 0)
                out = Arr(z3.simplify(n2), lambda e, s, j: o.at(e, s, lo + j), np=getattr(o, 'np', False), taint=o.taint, name='slice')
                return out
        if isinstance(o, Arr) and isinstance(k, Arr):
            # boolean mask / fancy indexing: opaque
            return E.Obj(self.fresh('fancy', V), cls='ndarray', taint=E.t_or(o.taint, k.taint))
        return NotImplemented

    # ---- membership, first index, set and sequence comparisons -----------------------------
    def first_index(self, st, a, x):
        """Canonical first position of x in a (tuple.index): an uninterpreted function of (a, x) with its defining
        facts stated whenever it is used:  x in a  ->  0 <= w < len(a), a[w] == x, and a[k] != x for k < w."""
        av, xv = self.arr_to_V(a), self.to_V(x)
        w = self.uf('first_index', V, V, I)(av, xv)
        mem = self.uf('contains', V, V, B)(av, xv)
        self.members_axiom(st, a)
        key = ('fi', av.get_id(), xv.get_id())
        done = st.__dict__.setdefault('_fi_done', set())
        if key not in done:
            st._fi_done = set(done) | {key}
            st.assume(z3.Implies(mem, z3.And(w >= 0, w < a.n, self.val_eq(st, a.at(self, st, w), x))))
            self.add_qfact(st, lambda e, s, k: z3.Implies(z3.And(mem, k >= 0, k < w), z3.Not(e.val_eq(s, a.at(e, s, k), x))),
                           name='first-index-minimal')
        return w, mem

    def membership(self, st, a, x):
        """x in a  for a symbolic sequence:  a[k] in a for every k (quantified fact), and the witness above."""
        w, mem = self.first_index(st, a, x)
        return mem

    def members_axiom(self, st, a):
        av = self.arr_to_V(a)
        key = ('mem', av.get_id())
        done = st.__dict__.setdefault('_fi_done', set())
        if key not in done:
            st._fi_done = set(done) | {key}
            cont = self.uf('contains', V, V, B)
            self.add_qfact(st, lambda e, s, k: z3.Implies(z3.And(k >= 0, k < a.n), cont(av, e.to_V(a.at(e, s, k)))), name='elements-are-members')

    def defined_bool(self, st, name, n, body):
        """A Bool defined as  forall k in [0, n): body(k)  — both directions are stated (instances when it is true, a
        Skolem counter-example when it is false), so it can be used in either polarity."""
        b = self.fresh(name, B)
        self.add_qfact(st, lambda e, s, k: z3.Implies(z3.And(b, k >= 0, k < n), body(e, s, k)), name=name)
        sk = self.fresh('sk_' + name, I)
        s2 = st
        st.assume(z3.Implies(z3.Not(b), z3.And(sk >= 0, sk < n, z3.Not(body(self, s2, sk)))))
        return b

    def all_in_term(self, st, a, b):
        """every element of a is an element of b (defined Bool); with the pigeonhole lemma of the sequence theory:
        a distinct and all_in(a, b)  ->  len(a) <= len(b)   (cardinality; not derivable by instantiation)."""
        t = self.defined_bool(st, 'all_in', a.n, lambda e, s, k: e.membership(s, b, a.at(e, s, k)))
        reg = dict(st.__dict__.get('_card', {}))
        reg.setdefault('sub', []).append((a, b, t))
        st._card = reg
        for a2, d in reg.get('dist', []):
            if a2 is a or self.arr_to_V(a2).eq(self.arr_to_V(a)):
                st.assume(z3.Implies(z3.And(d, t), a.n <= b.n))
        return t

    def distinct_term(self, st, a):
        d = self.defined_bool(st, 'distinct', a.n, lambda e, s, k: e.first_index(s, a, a.at(e, s, k))[0] == k)
        if hasattr(a, 'concat_of') and not getattr(self, '_in_concat_lemma', False):
            # lemma `concat-distinct` of the sequence theory (machine-checked in its injective form by pv/vc/lemmas.py on every run):
            #   l distinct, r distinct, no element of r occurs in l   ->   l + r distinct
            l, r = a.concat_of
            self._in_concat_lemma = True
            try:
                dl, dr = self.distinct_term(st, l), self.distinct_term(st, r)
                disj = self.defined_bool(st, 'disjoint', r.n, lambda e, s, k: z3.Not(e.membership(s, l, r.at(e, s, k))))
            finally:
                self._in_concat_lemma = False
            st.assume(z3.Implies(z3.And(dl, dr, disj), d))
        reg = dict(st.__dict__.get('_card', {}))
        reg.setdefault('dist', []).append((a, d))
        st._card = reg
        for a2, b2, t in reg.get('sub', []):
            if a2 is a or self.arr_to_V(a2).eq(self.arr_to_V(a)):
                st.assume(z3.Implies(z3.And(d, t), a.n <= b2.n))
        return d

    def arr_compare(self, st, op, l, r, node):
        if isinstance(op, (ast.In, ast.NotIn)) and isinstance(r, E.Obj) and r.cls == 'Domain' and self.c.get('domain_iterates_attrs'):
            r = self.getattr(st, r, 'attrs', node)           # Domain.__contains__: `attr in self.attrs` (assumed, see contract)
        if isinstance(op, (ast.In, ast.NotIn)) and isinstance(r, Arr):
            t = self.membership(st, r, l)
            return t if isinstance(op, ast.In) else z3.Not(t)
        if isinstance(op, (ast.In, ast.NotIn)) and isinstance(r, DictSym):
            # `k in d` is membership in d.keys() (contract option: the keys are then reasoned about as a sequence)
            t = self.membership(st, r.keys_arr(), l) if self.c.get('dict_in_is_key_membership') else r.has(self, st, l)
            return t if isinstance(op, ast.In) else z3.Not(t)
        if isinstance(l, SetV) and isinstance(r, SetV):
            sub = lambda a, b: self.all_in_term(st, a.arr, b.arr)
            if isinstance(op, ast.LtE):
                return sub(l, r)
            if isinstance(op, ast.GtE):
                return sub(r, l)
            if isinstance(op, (ast.Eq, ast.NotEq)):
                t = z3.And(sub(l, r), sub(r, l))
                return t if isinstance(op, ast.Eq) else z3.Not(t)
        if isinstance(op, (ast.Eq, ast.NotEq)) and isinstance(l, Arr) and isinstance(r, Arr) and not (l.np or r.np):
            t = self.seq_equal_term(st, l, r)
            return t if isinstance(op, ast.Eq) else z3.Not(t)
        return NotImplemented

    def arr_index(self, st, a, x):
        """tuple.index(x): the first position holding x (ValueError ends the path if absent)."""
        w, mem = self.first_index(st, a, x)
        st.assume(mem)
        return E.Num(w, taint=E.t_or(a.taint, x.taint))

    def arr_call(self, st, name, recv, args, kw, node):
        tt = E.t_or(*[v.taint for v in ([recv] if recv is not None else []) + list(args) + list(kw.values())])
        if recv is None:
            a0 = args[0] if args else None
            if name == 'forall' and args:
                return self.spec_forall(st, args[0], *(args[1:3]))
            if name == 'sumsq' and len(args) == 2 and isinstance(a0, Arr):
                return self.sumsq(st, a0, int_term(args[1]))
            if name == 'psum' and len(args) == 2 and isinstance(a0, Arr):
                return self.sumf(st, a0, int_term(args[1]))
            if name == 'len' and isinstance(a0, DictSym):
                st.assume(a0.n >= 0)
                return E.Num(a0.n, taint=a0.taint)
            if name == 'key_at' and len(args) == 2 and isinstance(a0, DictSym):
                return E.Obj(a0.keyf(int_term(args[1])))
            if name == 'len' and isinstance(a0, Arr):
                if hasattr(a0, 'nonneg'):
                    st.assume(a0.nonneg)
                st.assume(a0.n >= 0)
                return E.Num(a0.n, taint=a0.taint if a0.len_taint is None else a0.len_taint)
            if name in ('np.array', 'np.asarray', 'list', 'tuple') and len(args) >= 1:
                if isinstance(a0, Arr):
                    out = Arr(a0.n, a0._at, np=name.startswith('np.'), taint=a0.taint, ghost=a0.ghost, name=a0.name)
                    out._v = a0._v if a0._v is not None else self.arr_to_V(a0)     # same elements: same spec-level sequence
                    return out
                if isinstance(a0, E.Tup) and name.startswith('np.') and all(isinstance(x, E.Num) for x in a0.items):
                    return self.arr_from_tup(a0, np=True)
            if name in ('np.abs', 'abs', 'np.exp', 'np.log', 'np.sign') and isinstance(a0, Arr):
                return self.arr_unary(st, name.split('.')[-1], a0)
            if name in ('softmax', 'scipy.special.softmax', 'special.softmax') and isinstance(a0, Arr):
                lse = self.lse(st, a0)
                shifted = Arr(a0.n, lambda e, s, i: E.Num(a0.at(e, s, i).real() - lse, True, a0.taint), np=True, taint=a0.taint, name='logsoftmax')
                return self.arr_unary(st, 'exp', shifted)
            if name in ('logsumexp', 'scipy.special.logsumexp', 'special.logsumexp') and isinstance(a0, Arr) and len(args) == 1 and not kw:
                return E.Num(self.lse(st, a0), npy=True, taint=a0.taint)
            if name == 'np.append' and len(args) == 2 and isinstance(a0, Arr) and isinstance(args[1], E.Num):
                v, n0 = args[1], a0.n
                out = Arr(n0 + 1, lambda e, s, i: e.ite(s, i < n0, a0.at(e, s, i), v), np=True, taint=tt, name='append')
                out.len_taint = a0.taint if a0.len_taint is None else a0.len_taint
                return out
            if name == 'np.linalg.norm' and isinstance(a0, Arr) and (len(args) == 1 or (isinstance(args[1], E.Num) and str(args[1].t) == '2')):
                r_ = self.fresh('norm', R)
                ss = self.sumsq(st, a0, a0.n).t
                st.assume(z3.And(r_ >= 0, r_ * r_ == ss))
                return E.Num(r_, npy=True, taint=tt)
            if name == 'sum' and len(args) == 1 and isinstance(a0, Arr):
                for kk in range(0, 5):
                    self.sumf(st, a0, z3.IntVal(kk))
                return E.Num(self.sumf(st, a0, a0.n).t, npy=a0.np, taint=tt)
            if name == 'count_len_lt' and len(args) == 2 and isinstance(a0, Arr):
                return self.count_len(st, a0, int_term(args[1]))
            if args and isinstance(a0, E.Tup) and name in ('first_index', 'last_index', 'all_in', 'seq_equal', 'set', 'frozenset', 'prod'):
                a0 = self.arr_from_tup(a0)
                args = [a0] + list(args[1:])
            if len(args) == 2 and isinstance(args[1], E.Tup) and name in ('all_in', 'seq_equal'):
                args = [args[0], self.arr_from_tup(args[1])]
            if name == 'first_index' and len(args) == 2 and isinstance(a0, Arr):
                return E.Num(self.first_index(st, a0, args[1])[0])
            if name == 'last_index' and len(args) == 2 and isinstance(a0, Arr):
                x_ = args[1]
                l_ = self.uf('last_index', V, V, I)(self.arr_to_V(a0), self.to_V(x_))
                mem = self.membership(st, a0, x_)
                st.assume(z3.Implies(mem, z3.And(l_ >= 0, l_ < a0.n, self.val_eq(st, a0.at(self, st, l_), x_))))
                self.add_qfact(st, lambda e, s, k: z3.Implies(z3.And(mem, k > l_, k < a0.n), z3.Not(e.val_eq(s, a0.at(e, s, k), x_))), name='last-index-maximal')
                return E.Num(l_)
            if name == 'all_in' and len(args) == 2 and isinstance(a0, Arr) and isinstance(args[1], Arr):
                return E.BoolV(self.all_in_term(st, a0, args[1]))
            if name == 'is_distinct' and len(args) == 1 and isinstance(a0, Arr):
                return E.BoolV(self.distinct_term(st, a0))
            if name == 'seq_equal' and len(args) == 2 and isinstance(a0, Arr) and isinstance(args[1], Arr):
                return E.BoolV(self.seq_equal_term(st, a0, args[1]))
            if name in ('set', 'frozenset') and len(args) == 1 and isinstance(a0, Arr):
                return SetV(a0)
            if name == 'prod' and len(args) == 2 and isinstance(a0, Arr):
                return self.prodf(st, a0, int_term(args[1]))
            if name in ('reduce', 'functools.reduce') and len(args) == 3 and isinstance(args[1], Arr) and isinstance(args[0], E.FuncV) \
                    and isinstance(args[0].node, ast.Lambda) and isinstance(args[2], E.Num):
                lam = args[0].node
                ps = [x.arg for x in lam.args.args]
                if len(ps) == 2 and ast.unparse(lam.body) in ('%s * %s' % (ps[0], ps[1]), '%s * %s' % (ps[1], ps[0])) \
                        and z3.is_true(z3.simplify(args[2].real() == 1)):
                    return self.prodf(st, args[1], args[1].n)
            if name == 'dict' and len(args) == 1 and isinstance(a0, Arr) and a0.name == 'zip' and hasattr(a0, 'zipped') and len(a0.zipped) == 2:
                return self.zipdict(st, a0.zipped[0], a0.zipped[1])
            if name == 'zip' and args and all(isinstance(a, Arr) for a in args):
                return self.arr_zip(st, args)
            if name == 'np.ones' and len(args) == 1 and isinstance(a0, E.Num):
                return Arr(int_term(a0), lambda e, s, i: E.Num(z3.RealVal(1), True), np=True, taint=tt, name='ones')
            if name == 'np.zeros' and len(args) == 1 and isinstance(a0, E.Num):
                return Arr(int_term(a0), lambda e, s, i: E.Num(z3.RealVal(0), True), np=True, taint=tt, name='zeros')
            if name == 'np.arange' and len(args) == 1 and isinstance(a0, E.Num):
                return Arr(int_term(a0), lambda e, s, i: E.Num(i), np=True, taint=tt, name='arange')
        else:
            if isinstance(recv, DictSym) and name == 'keys' and not args:
                return recv.keys_arr()
            if isinstance(recv, DictSym) and name == 'values' and not args:
                d_ = recv
                return Arr(d_.n, lambda e, s, i: d_.get(e, E.Obj(d_.keyf(i)), s), taint=d_.taint, name='values_' + d_.name)
            if isinstance(recv, Arr) and name == 'append' and len(args) == 1 and isinstance(node.func, ast.Attribute) and not recv.np:
                v_, n0_ = args[0], recv.n
                new_ = Arr(n0_ + 1, lambda e, s, i: e.ite(s, i < n0_, recv.at(e, s, i), v_), taint=E.t_or(recv.taint, v_.taint, st.pc_taint), name='appended')
                new_.len_taint = E.t_or(recv.taint if recv.len_taint is None else recv.len_taint, st.pc_taint)
                self.rebind(st, node.func.value, new_)
                return E.Const(None)
            if isinstance(recv, Arr):
                if name in ('max', 'min') and not args:
                    return self.arr_max(st, recv, name)
                if name == 'sum' and not args:
                    return E.Num(self.uf('np_sum', V, R)(self.arr_to_V(recv)), npy=True, taint=recv.taint)
                if name == 'index' and len(args) == 1:
                    return self.arr_index(st, recv, args[0])
                if name == 'copy' and not args:
                    return recv
        return NotImplemented

    def lse(self, st, a):
        key = id(a)
        cache = self.__dict__.setdefault('_lse', {})
        if key not in cache:
            cache[key] = self.fresh('lse', R)
        return cache[key]

    def val_eq(self, st, a, b):
        if isinstance(a, E.Num) and isinstance(b, E.Num):
            return a.real() == b.real()
        if isinstance(a, E.BoolV) and isinstance(b, E.BoolV):
            return a.t == b.t
        return self.to_V(a) == self.to_V(b)

    # ---- order-preserving sub-sequences --------------------------------------------------------
    def make_filter(self, st, base, keep_idx, elt=None, taint=E.FALSE, pure_selection=True, name='filter'):
        """The sub-sequence of `base` at the positions i with keep_idx(i), in order: length n2, a strictly increasing
        position function pos (with inverse inv on the kept positions) and coverage of every kept position."""
        n2 = self.fresh('flen', I)
        pos = z3.Function('pos!%d' % self.counter, I, I)
        inv = z3.Function('inv!%d' % self.counter, I, I)
        self.counter += 1
        st.assume(z3.And(n2 >= 0, n2 <= base.n))
        def q_pos(en, s, j):
            return z3.Implies(z3.And(j >= 0, j < n2),
                              z3.And(pos(j) >= 0, pos(j) < base.n, keep_idx(en, s, pos(j)), inv(pos(j)) == j,
                                     z3.Implies(j + 1 < n2, pos(j) < pos(j + 1)),
                                     z3.Implies(j > 0, pos(j - 1) < pos(j))))
        def q_cov(en, s, i):
            return z3.Implies(z3.And(i >= 0, i < base.n, keep_idx(en, s, i)),
                              z3.And(inv(i) >= 0, inv(i) < n2, pos(inv(i)) == i))
        self.add_qfact(st, q_pos, name='filter-pos')
        self.add_qfact(st, q_cov, name='filter-cover')
        f_elt = elt or (lambda en, s, x: x)
        out = Arr(n2, lambda en, s, j: f_elt(en, s, base.at(en, s, pos(j))), np=False, taint=taint, name=name)
        out.pos, out.inv, out.src = pos, inv, base
        if pure_selection:
            # lemma of the sequence theory (strictly increasing enumerations of the same set of positions coincide):
            # two selections from equal base sequences with pointwise equivalent predicates are equal sequences
            reg = list(st.__dict__.get('_filters', []))
            for (b2, k2, o2) in reg:
                same_base = E.TRUE if b2 is base else self.seq_equal_term(st, b2, base)
                ext = self.defined_bool(st, 'same_selection', base.n, lambda en, s, i: keep_idx(en, s, i) == k2(en, s, i))
                st.assume(z3.Implies(z3.And(same_base, ext), self.seq_equal_term(st, o2, out)))
            reg.append((base, keep_idx, out))
            st._filters = reg
        return out

    # ---- comprehensions over sequences ----------------------------------------------------
    def arr_comp(self, st, e, kind):
        """[elt for x in xs]           -> lazy elementwise map
           [elt for x in xs if p(x)]   -> order-preserving sub-sequence schema (position function + coverage)."""
        if len(e.generators) != 1:
            return NotImplemented
        g = e.generators[0]
        it = self.ev(st, g.iter)
        if isinstance(it, E.Bound):
            it = self.bound_as_value(st, it)
        if isinstance(it, E.Obj) and it.g('range') is not None:
            lo, hi = it.g('range')
            it = Arr(z3.If(hi >= lo, hi - lo, 0), lambda en, s, i: E.Num(lo + i), taint=it.taint, name='range')
        if isinstance(it, E.Tup) and self.c.get('sequences'):
            it = self.arr_from_tup(it)
        if isinstance(it, DictSym):
            it = it.keys_arr()
        if isinstance(it, E.Obj) and it.cls == 'Domain' and self.c.get('domain_iterates_attrs'):
            it = self.getattr(st, it, 'attrs', e)          # Domain.__iter__ returns self.attrs.__iter__() (assumed, see contract)
        if not isinstance(it, Arr):
            return NotImplemented
        if self.hooks and hasattr(self.hooks, 'on_loop_bound'):
            self.hooks.on_loop_bound(self, st, it, e)
        captured = st.fork()
        def elem_state(s, x):
            s2 = s.fork()
            s2.env = dict(captured.env)
            s2.qfacts = getattr(s, 'qfacts', [])
            self.assign_target(s2, g.target, x, e)
            return s2
        def keep(en, s, x):
            s2 = elem_state(s, x)
            ts = [en.truth(s2, en.ev(s2, c)) for c in g.ifs]
            for f in s2.path[len(s.path):]:
                s.assume(f)
            return z3.And(*ts) if ts else E.TRUE
        def elt(en, s, x):
            s2 = elem_state(s, x)
            v = en.ev(s2, e.elt)
            for f in s2.path[len(s.path):]:
                s.assume(f)
            return v
        is_np = False
        if not g.ifs:
            out = Arr(it.n, lambda en, s, i: elt(en, s, it.at(en, s, i)), np=is_np, taint=it.taint, name='map')
            return out
        identity = isinstance(e.elt, ast.Name) and isinstance(g.target, ast.Name) and e.elt.id == g.target.id
        out = self.make_filter(st, it, lambda en, s, i: keep(en, s, it.at(en, s, i)),
                               (lambda en, s, x: x) if identity else elt, taint=it.taint, pure_selection=identity)
        n2 = out.n
        # definitional link to the counting spec function: [x for x in s if len(x) == k] has count_len_eq(s, k) elements
        if len(g.ifs) == 1 and isinstance(g.target, ast.Name) and isinstance(e.elt, ast.Name) and e.elt.id == g.target.id:
            c = g.ifs[0]
            if isinstance(c, ast.Compare) and len(c.ops) == 1 and isinstance(c.ops[0], ast.Eq) and \
                    isinstance(c.left, ast.Call) and ast.unparse(c.left) == 'len(%s)' % g.target.id:
                kv = self.ev(st, c.comparators[0])
                if isinstance(kv, E.Num):
                    st.assume(n2 == self.uf('count_len_eq', V, I, I)(self.arr_to_V(it), int_term(kv)))
        return out


class FullEngine(ArrayTheory, E.Engine):
    pass
