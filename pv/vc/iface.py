"""Interface obligations (C18): every attribute a client reads or updates on an object is defined by every class the object
may be an instance of — assigned on every path of __init__ (following self.<method>() calls made there) or defined as a method."""
import ast
from .. import frontend
from .solver import Obligation


def client_attrs(rel, clsname, holder='model'):
    """attributes accessed through `<holder>.x` or `self.<holder>.x` in the client class; -> {attr: [lines]} (loads and stores)"""
    cls, _, sha = frontend.get_function(rel, clsname)
    out = {}
    for n in ast.walk(cls):
        if isinstance(n, ast.Attribute):
            v = n.value
            is_holder = (isinstance(v, ast.Name) and v.id == holder) or \
                        (isinstance(v, ast.Attribute) and v.attr == holder and isinstance(v.value, ast.Name) and v.value.id == 'self')
            if is_holder:
                # a plain store (model.x = ...) defines the attribute; a load or an augmented / read-modify-write use needs it
                out.setdefault(n.attr, []).append((n.lineno, type(n.ctx).__name__))
    return out, sha


def needs_definition(uses, cls_node):
    """an attribute needs to pre-exist if it is loaded somewhere before/without being stored by the client first.
    Conservative: any Load counts, except when every Load is preceded in the same function by a Store — not tracked, so any Load counts."""
    return any(ctx == 'Load' for _, ctx in uses)


def defined_by(rel, clsname):
    """-> (set of attributes definitely assigned by __init__, set of method names, sha)"""
    cls, _, sha = frontend.get_function(rel, clsname)
    methods = {n.name: n for n in cls.body if isinstance(n, ast.FunctionDef)}
    visiting = []

    def block(stmts, assigned):
        for s in stmts:
            assigned = stmt(s, assigned)
        return assigned

    def stmt(s, assigned):
        if isinstance(s, ast.Assign):
            for t in s.targets:
                for x in ([t] if not isinstance(t, (ast.Tuple, ast.List)) else t.elts):
                    if isinstance(x, ast.Attribute) and isinstance(x.value, ast.Name) and x.value.id == 'self':
                        assigned = assigned | {x.attr}
            return calls(s.value, assigned)
        if isinstance(s, ast.Expr):
            return calls(s.value, assigned)
        if isinstance(s, ast.If):
            a1 = block(s.body, set(assigned))
            a2 = block(s.orelse, set(assigned))
            return a1 & a2
        if isinstance(s, (ast.For, ast.While)):
            block(s.body, set(assigned))
            return assigned
        return assigned

    def calls(e, assigned):
        for n in ast.walk(e):
            if isinstance(n, ast.Call) and isinstance(n.func, ast.Attribute) and isinstance(n.func.value, ast.Name) and n.func.value.id == 'self' \
                    and n.func.attr in methods and n.func.attr not in visiting:
                visiting.append(n.func.attr)
                assigned = block(methods[n.func.attr].body, assigned)
                visiting.pop()
        return assigned

    init = methods.get('__init__')
    assigned = block(init.body, set()) if init else set()
    return assigned, set(methods), sha


def obligations(client_rel, client_cls, impls, holder='model', client_defines=()):
    uses, sha = client_attrs(client_rel, client_cls, holder)
    obs = []
    for rel, cls in impls:
        try:
            assigned, methods, _ = defined_by(rel, cls)
        except frontend.MissingAnchor as e:
            continue
        for attr, us in sorted(uses.items()):
            if not needs_definition(us, None) or attr in client_defines:
                continue
            ok = attr in assigned or attr in methods
            o = Obligation('%s::%s/interface#%s.%s-is-defined' % (client_rel, client_cls, cls, attr), [], None,
                           function='%s::%s' % (rel, cls), kind='interface')
            o.verdict = 'discharged' if ok else 'refuted'
            o.backend = 'definite-assignment analysis of __init__ (pv/vc/iface.py)'
            o.model = {} if ok else dict(attribute=attr, cls=cls, used_at_lines=[l for l, _ in us],
                                         reason='%s reads or updates model.%s but %s.__init__ does not assign it on every path and no method has that name'
                                                % (client_cls, attr, cls))
            o.meta = {'base': o.name}
            obs.append(o)
    return obs, sha
