"""Lemmas of the sequence theory that the verifier uses as axioms, machine-checked here (z3, quantified, no instantiation by hand)
in their elementary form on every run.  `check_all()` returns [(name, verdict, seconds)]; pv.deductive adds them to the report of
any function whose contract sets sequences=True, so an unproved lemma shows up as an undischarged obligation.

The engine states distinctness through first_index (a[first_index(a, a[k])] == a[k] and first_index(a, a[k]) == k) and membership
through the `contains` predicate with its witness; for a total first-index function these are the injective / existential forms
used below (definitional, see pv/vc/arrays.py: first_index, members_axiom)."""
import time
import z3

I = z3.IntSort()
V = z3.DeclareSort('LemV')


def _prove(hyps, goal, timeout_ms=20000):
    s = z3.Solver()
    s.set('timeout', timeout_ms)
    for h in hyps:
        s.add(h)
    t = time.time()
    s.push()
    s.add(z3.Not(goal))
    r = s.check()
    s.pop()
    if r == z3.unsat:
        # vacuity guard: the hypotheses alone must be satisfiable (with a non-trivial size)
        if s.check() != z3.sat:
            return 'vacuous-or-unknown', time.time() - t
    return ('discharged' if r == z3.unsat else 'refuted' if r == z3.sat else 'unknown'), time.time() - t


def concat_distinct():
    """l injective on [0,nl), r injective on [0,nr), l(i) != r(j)  ->  l+r injective on [0, nl+nr)."""
    l, r = z3.Function('l', I, V), z3.Function('r', I, V)
    nl, nr = z3.Ints('nl nr')
    i, j = z3.Ints('i j')
    cat = lambda k: z3.If(k < nl, l(k), r(k - nl))
    hyps = [nl >= 0, nr >= 0,
            z3.ForAll([i, j], z3.Implies(z3.And(0 <= i, i < nl, 0 <= j, j < nl, l(i) == l(j)), i == j)),
            z3.ForAll([i, j], z3.Implies(z3.And(0 <= i, i < nr, 0 <= j, j < nr, r(i) == r(j)), i == j)),
            z3.ForAll([i, j], z3.Implies(z3.And(0 <= i, i < nl, 0 <= j, j < nr), l(i) != r(j)))]
    a, b = z3.Ints('a b')
    goal = z3.Implies(z3.And(0 <= a, a < nl + nr, 0 <= b, b < nl + nr, cat(a) == cat(b)), a == b)
    return _prove(hyps, goal)


def selection_unique_step():
    """Two strictly increasing enumerations p, q of the same set of positions agree at index j+1 if they agree up to j
    (the induction step of selection uniqueness; the induction itself is on paper)."""
    p, q = z3.Function('p', I, I), z3.Function('q', I, I)
    keep = z3.Function('keep', I, z3.BoolSort())
    n, m, j = z3.Ints('n m j')
    i = z3.Int('i')
    def enum(f, cnt):
        return [z3.ForAll([i], z3.Implies(z3.And(0 <= i, i < cnt), z3.And(0 <= f(i), f(i) < n, keep(f(i))))),
                z3.ForAll([i], z3.Implies(z3.And(0 <= i, i + 1 < cnt), f(i) < f(i + 1)))]
    pinv, qinv = z3.Function('pinv', I, I), z3.Function('qinv', I, I)
    cover = lambda f, finv, cnt: z3.ForAll([i], z3.Implies(z3.And(0 <= i, i < n, keep(i)), z3.And(0 <= finv(i), finv(i) < cnt, f(finv(i)) == i)))
    mono = lambda f, cnt: z3.ForAll([i, z3.Int('i2')], z3.Implies(z3.And(0 <= i, i < z3.Int('i2'), z3.Int('i2') < cnt), f(i) < f(z3.Int('i2'))))
    hyps = [n >= 0, m >= 0] + enum(p, m) + enum(q, m) + [cover(p, pinv, m), cover(q, qinv, m), mono(p, m), mono(q, m),
            0 <= j, j + 1 < m, z3.ForAll([i], z3.Implies(z3.And(0 <= i, i <= j), p(i) == q(i)))]
    goal = p(j + 1) == q(j + 1)
    return _prove(hyps, goal)


LEMMAS = [('concat-distinct', concat_distinct)]


def check_all():
    out = []
    for name, fn in LEMMAS:
        try:
            v, sec = fn()
        except z3.Z3Exception as e:
            v, sec = 'unknown', 0.0
        out.append((name, v, sec))
    return out


if __name__ == '__main__':
    for r in check_all():
        print(r)
