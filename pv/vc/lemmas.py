"""Lemmas of the sequence theory that the verifier uses as axioms, machine-checked here (z3, quantified, no instantiation by hand)
in their elementary form on every run.  `check_all()` returns [(name, verdict, seconds)]; pv.deductive adds them to the report of
any function whose contract sets sequences=True, so an unproved lemma shows up as an undischarged obligation.

The engine states distinctness through first_index (a[first_index(a, a[k])] == a[k] and first_index(a, a[k]) == k) and membership
through the `contains` predicate with its witness; for a total first-index function these are the injective / existential forms
used below (definitional, see pv/vc/arrays.py: first_index, members_axiom)."""
import time
import z3

I = z3.IntSort()
V = z3.DeclareSort('LemV')


def _prove(hyps, goal, timeout_ms=20000):
    s = z3.Solver()
    s.set('timeout', timeout_ms)
    for h in hyps:
        s.add(h)
    t = time.time()
    s.push()
    s.add(z3.Not(goal))
    r = s.check()
    s.pop()
    if r == z3.unsat:
        # vacuity guard: the hypotheses alone must be satisfiable (with a non-trivial size)
        if s.check() != z3.sat:
            return 'vacuous-or-unknown', time.time() - t
    return ('discharged' if r == z3.unsat else 'refuted' if r == z3.sat else 'unknown'), time.time() - t


def concat_distinct():
    """l injective on [0,nl), r injective on [0,nr), l(i) != r(j)  ->  l+r injective on [0, nl+nr)."""
    l, r = z3.Function('l', I, V), z3.Function('r', I, V)
    nl, nr = z3.Ints('nl nr')
    i, j = z3.Ints('i j')
    cat = lambda k: z3.If(k < nl, l(k), r(k - nl))
    hyps = [nl >= 0, nr >= 0,
            z3.ForAll([i, j], z3.Implies(z3.And(0 <= i, i < nl, 0 <= j, j < nl, l(i) == l(j)), i == j)),
            z3.ForAll([i, j], z3.Implies(z3.And(0 <= i, i < nr, 0 <= j, j < nr, r(i) == r(j)), i == j)),
            z3.ForAll([i, j], z3.Implies(z3.And(0 <= i, i < nl, 0 <= j, j < nr), l(i) != r(j)))]
    a, b = z3.Ints('a b')
    goal = z3.Implies(z3.And(0 <= a, a < nl + nr, 0 <= b, b < nl + nr, cat(a) == cat(b)), a == b)
    return _prove(hyps, goal)


def selection_unique_step():
    """Two strictly increasing enumerations p, q of the same set of positions agree at index j+1 if they agree up to j
    (the induction step of selection uniqueness; the induction itself is on paper)."""
    p, q = z3.Function('p', I, I), z3.Function('q', I, I)
    keep = z3.Function('keep', I, z3.BoolSort())
    n, m, j = z3.Ints('n m j')
    i = z3.Int('i')
    def enum(f, cnt):
        return [z3.ForAll([i], z3.Implies(z3.And(0 <= i, i < cnt), z3.And(0 <= f(i), f(i) < n, keep(f(i))))),
                z3.ForAll([i], z3.Implies(z3.And(0 <= i, i + 1 < cnt), f(i) < f(i + 1)))]
    pinv, qinv = z3.Function('pinv', I, I), z3.Function('qinv', I, I)
    cover = lambda f, finv, cnt: z3.ForAll([i], z3.Implies(z3.And(0 <= i, i < n, keep(i)), z3.And(0 <= finv(i), finv(i) < cnt, f(finv(i)) == i)))
    mono = lambda f, cnt: z3.ForAll([i, z3.Int('i2')], z3.Implies(z3.And(0 <= i, i < z3.Int('i2'), z3.Int('i2') < cnt), f(i) < f(z3.Int('i2'))))
    hyps = [n >= 0, m >= 0] + enum(p, m) + enum(q, m) + [cover(p, pinv, m), cover(q, qinv, m), mono(p, m), mono(q, m),
            0 <= j, j + 1 < m, z3.ForAll([i], z3.Implies(z3.And(0 <= i, i <= j), p(i) == q(i)))]
    goal = p(j + 1) == q(j + 1)
    return _prove(hyps, goal)


def hps_fixed_point_consistency():
    """C17, first clause ("pseudo-marginals agree on every shared sub-region") as a lemma over the update equations that
    pv/contracts/hps.py verifies on the real hazan_peng_shashua (convex case: all counting numbers 1, checked on build_graph's text).

    Fix an edge p -> r of the region graph, P >= 1 the number of parents of r, and two arbitrary cells x, y of region r.  Per cell z:
        a(z)   = messages[p, r](z)        downward message         b(z) = messages[r, p](z)      upward message
        A(z)   = logsumexp over p minus r of ( pot[p] + sum_{c != r} messages[c, p] - sum_{p1} messages[p, p1] )   (z)
        T(z)   = pot[r](z) + sum_c messages[c, r](z) + sum_{p1} messages[p1, r](z)        Sdn(z), Sup(z) the two sums over the parents of r
    Hypotheses = the verified equations at a stationary point (messages == new; every message is centred by a constant):
        E1  a(z) = A(z) - k1                                              [parent-to-child:* sites]
        E2  a(z) + b(z) = cc * T(z) - k2,  cc = 1 / (1 + P)               [child-to-parent:equation, weight-of-the-upward-message]
        E2s Sdn(z) + Sup(z) = P * cc * T(z) - K2                          [E2 summed over the P parents of r: linearity of finite sums]
        B   belief_r(z) = pot[r](z) + C(z) - Sup(z),  lse_{p minus r}(belief_p)(z) = A(z) + b(z)    [belief-equation; an addend that depends
            on r's variables only moves out of the logsumexp over the others]
    Conclusion: lse_{p minus r}(belief_p) - belief_r is the same at x and at y, i.e. the two tables agree up to one additive constant,
    which the final normalisation of both to log(total) makes zero (logsumexp(f + c) = logsumexp(f) + c)."""
    R = z3.RealSort()
    P, cc, k1, k2, K2 = z3.Reals('P cc k1 k2 K2')
    hyps = [P >= 1, cc * (1 + P) == 1]
    diff = {}
    for z in ('x', 'y'):
        a, b, A, potr, C, Sdn, Sup, U = [z3.Real('%s_%s' % (n, z)) for n in ('a', 'b', 'A', 'potr', 'C', 'Sdn', 'Sup', 'U')]
        T = potr + C + Sdn
        hyps += [U * (1 + P) == T,                 # U = cc * T  (stated through the defining equation of cc to stay in linear arithmetic over P*U)
                 a == A - k1,
                 a + b == U - k2,
                 Sdn + Sup == P * U - K2]
        belief_r = potr + C - Sup
        diff[z] = (A + b) - belief_r
    return _prove(hyps, diff['x'] == diff['y'])


def hps_belief_is_stationary():
    """C17, second clause: the belief equation IS the stationarity condition of the Lagrangian of
        maximise  sum_r <pot_r, b_r> + sum_r H(b_r)   subject to  sum_{p minus r} b_p = b_r  (multiplier lam_{p,r}(x_r)),  sum b_r = total (nu_r)
    with the upward messages as multipliers: for any message values, with log b_r = pot_r + C - Sup + kappa_r (belief-equation, c0 = 1,
    kappa_r the normalisation constant),
        d/d b_r(x) :  pot_r(x) - (log b_r(x) + 1) + C(x) - Sup(x)          [C: multipliers of r's children, entering with +; Sup: those
                                                                             of the constraints towards r's parents, entering with -]
    is the same number at every cell x (namely -kappa_r - 1 =: nu_r).  Together with primal feasibility at a stationary point
    (hps-fixed-point-consistency) these are the KKT conditions of a concave programme with linear constraints, which are sufficient
    for the global optimum, unique by strict concavity of the entropies (convex duality: textbook, assumed)."""
    kappa = z3.Real('kappa')
    E = {}
    hyps = []
    for z in ('x', 'y'):
        potr, C, Sup, logb = [z3.Real('%s_%s' % (n, z)) for n in ('potr', 'C', 'Sup', 'logb')]
        hyps.append(logb == potr + C - Sup + kappa)
        E[z] = potr - (logb + 1) + C - Sup
    return _prove(hyps, z3.And(E['x'] == E['y'], E['x'] == -kappa - 1))


def total_estimate_exact_when_noise_free():
    """C09: with noise-free answers every contributing measurement's own estimate e_i = <w_i, y_i> equals the record count N
    (y_i = Q_i x and Q_i^T w_i = 1 give <w_i, Q_i x> = <Q_i^T w_i, x> = <1, x> = N: adjointness of the transpose, linear algebra,
    assumed), and then the verified formula  max(1, (sum_i e_i / v_i) / (sum_i 1 / v_i))  returns N for N >= 1, whatever the
    positive variances are.  Sums over a symbolic number of measurements enter through S1 = sum e_i / v_i, S2 = sum 1 / v_i and the
    sum law  sum (c * a_i) = c * sum a_i."""
    N, S1, S2, est = z3.Reals('N S1 S2 est')
    hyps = [N >= 1, S2 > 0, S1 == N * S2,          # every e_i = N, so sum e_i / v_i = N * sum 1 / v_i
            est * S2 == S1]                         # est = S1 / S2
    return _prove(hyps, z3.If(est >= 1, est, 1) == N)


def blue_instances():
    """C09 "best linear estimate", INSTANCES n = 2 and n = 3 (the general statement is the Gauss-Markov / Cauchy-Schwarz argument,
    assumed): among all weights summing to one, the variance  sum w_i^2 v_i  of the combined estimate is at least that of the
    inverse-variance weights the verified formula uses, 1 / sum(1 / v_i)."""
    v1, v2, v3, w1, w2 = z3.Reals('v1 v2 v3 w1 w2')
    r2 = _prove([v1 > 0, v2 > 0], w1 * w1 * v1 + (1 - w1) * (1 - w1) * v2 >= v1 * v2 / (v1 + v2), timeout_ms=20000)
    w3 = 1 - w1 - w2
    r3 = _prove([v1 > 0, v2 > 0, v3 > 0],
                (w1 * w1 * v1 + w2 * w2 * v2 + w3 * w3 * v3) * (v1 * v2 + v1 * v3 + v2 * v3) >= v1 * v2 * v3, timeout_ms=30000)
    verdict = 'discharged' if r2[0] == 'discharged' and r3[0] == 'discharged' else ('refuted' if 'refuted' in (r2[0], r3[0]) else 'unknown')
    return verdict, r2[1] + r3[1]


def bp_edge_calibration():
    """C01 / C08, the calibration lemma L-cal in its local form, as a lemma over the message-step equations that pv/contracts/bpmsg.py
    verifies on the real belief_propagation.  Fix an edge {i, j} of the junction tree with separator S and a cell s of S.  Write
        A_i(s) = logsumexp over (i minus S) of ( pot_i + sum of the messages into i from its neighbours other than j ) (s),  A_j alike.
    Hypotheses (each message is computed once, after all the messages it depends on - the schedule contract of C12 - from the
    sender's belief with the reverse message divided out, and every message is absorbed once by its receiver):
        M   m_{i->j}(s) = A_i(s),   m_{j->i}(s) = A_j(s)                              [message-step sites; Factor.__sub__ contract]
        B   logsumexp_{i minus S}(belief_i)(s) = A_i(s) + m_{j->i}(s), and alike for j    [final belief = potential + ALL incoming messages;
            an addend that depends on S only moves out of the logsumexp over the other attributes]
    Conclusion: the two final beliefs have the same marginal on S.  Along the (connected) tree this makes every clique's total mass
    the same number - the `Z_calibrated` the normalisation contract of belief_propagation is stated over.  That the hypotheses hold at
    the end of the sweep is an induction over the message schedule (on paper); exactness of the marginals themselves is the
    sum-product theorem, decided bounded."""
    Ai, Aj, mij, mji = z3.Reals('A_i A_j m_ij m_ji')
    hyps = [mij == Ai, mji == Aj]
    return _prove(hyps, (Ai + mji) == (Aj + mij))


LEMMAS = [('concat-distinct', concat_distinct), ('bp-edge-calibration', bp_edge_calibration), ('hps-fixed-point-consistency', hps_fixed_point_consistency),
          ('total-estimate-exact-when-noise-free', total_estimate_exact_when_noise_free), ('inverse-variance-weights-minimise-the-variance[n=2,3]', blue_instances),
          ('hps-belief-is-stationary', hps_belief_is_stationary)]


SEQUENCE_LEMMAS = ('concat-distinct',)          # the ones the sequence theory uses as axioms; the others are reported where they are used


def check_all(names=SEQUENCE_LEMMAS):
    out = []
    for name, fn in LEMMAS:
        if names is not None and name not in names:
            continue
        try:
            v, sec = fn()
        except z3.Z3Exception as e:
            v, sec = 'unknown', 0.0
        out.append((name, v, sec))
    return out


if __name__ == '__main__':
    for r in check_all():
        print(r)
