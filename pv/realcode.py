"""Loading the *real* code of the tree under verification for run-time contracts and replay."""
import importlib.util, os, sys, types
from . import env


def stub_missing_modules():
    """Harness-side stubs for third-party modules that are absent from the sandbox (never installed into /repo)."""
    os.environ.setdefault('MPLBACKEND', 'Agg')
    if 'hdmm' not in sys.modules:
        try:
            import hdmm  # noqa
        except Exception:
            from scipy import sparse
            hd, mat = types.ModuleType('hdmm'), types.ModuleType('hdmm.matrix')
            mat.Identity = lambda n: sparse.eye(n, format='csr')
            hd.matrix = mat
            sys.modules['hdmm'], sys.modules['hdmm.matrix'] = hd, mat
    if 'autodp' not in sys.modules:
        try:
            import autodp  # noqa
        except Exception:
            ad, pc = types.ModuleType('autodp'), types.ModuleType('autodp.privacy_calibrator')
            def ana_gaussian_mech(epsilon, delta, **kw):
                # stand-in for autodp's analytic Gaussian calibration: any positive deterministic value
                # serves the checks, which treat this factor as opaque
                import math
                return {'sigma': math.sqrt(2 * math.log(1.25 / delta)) / epsilon}
            pc.ana_gaussian_mech = ana_gaussian_mech
            ad.privacy_calibrator = pc
            sys.modules['autodp'], sys.modules['autodp.privacy_calibrator'] = ad, pc


_mods = {}


def load_mechanism(name):
    """Import mechanisms/<name>.py from the tree under verification (file names contain '+')."""
    env.ensure_repo_importable()
    stub_missing_modules()
    path = env.repo_path(os.path.join('mechanisms', name + '.py'))
    key = (path, os.stat(path).st_mtime_ns)
    if key in _mods:
        return _mods[key]
    # the mechanisms import each other as `mechanisms.xxx`
    if 'mechanisms' in sys.modules and not getattr(sys.modules['mechanisms'], '__path__', [''])[0].startswith(env.REPO):
        for k in [k for k in sys.modules if k == 'mechanisms' or k.startswith('mechanisms.')]:
            del sys.modules[k]
    modname = 'mechanisms.' + name if name.isidentifier() else 'pv_mech_' + name.replace('+', '_plus_')
    if name.isidentifier():
        mod = importlib.import_module(modname)
    else:
        spec = importlib.util.spec_from_file_location(modname, path)
        mod = importlib.util.module_from_spec(spec)
        sys.modules[modname] = mod
        spec.loader.exec_module(mod)
    _mods[key] = mod
    return mod
