from . import mech


def run(tier):
    return mech.split(flow=True)


def replay(prop, ob):
    return mech.replay(prop, ob)
