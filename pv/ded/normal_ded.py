"""Normalisation-idiom obligations, shared by C02, C16, C17, C18, C19 (each takes the items tagged for it)."""
from .. import deductive
from ..contracts import normal as K

_cache = {}


def reports(tags):
    out = []
    for rel, q, c, tag in K.ITEMS:
        if tag not in tags:
            continue
        key = (rel, q)
        if key not in _cache:
            _cache[key] = deductive.verify_function(rel, q, c, hooks=K.LogNormHooks(c.get('sites', ())), module_env=c.get('module_env'))
        out.append(_cache[key])
    return out
