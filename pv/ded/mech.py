"""Deductive tier shared by C05 (ledger) and C06 (flow): one symbolic execution of every mechanism function,
obligations split by kind."""
import copy, importlib
from .. import deductive

MODULES = ['mst', 'mwem', 'aim', 'adagrid']
_cache = {}


def all_reports():
    if 'r' in _cache:
        return _cache['r']
    reps = []
    for m in MODULES:
        try:
            C = importlib.import_module('pv.contracts.' + m)
        except ModuleNotFoundError:
            continue
        labels = getattr(C, 'LABELS', None)
        for k, (q, c, reg) in enumerate(C.FUNCTIONS):
            label = labels[k] if labels and labels[k] else ''
            reps.append(deductive.verify_function(C.REL, q, c, hooks=C.hooks_for(c), registry=reg, module_env=C.ENV,
                                                  prefix='%s::%s%s' % (C.REL, q, '[%s]' % label if label else '')))
        for rel, q, c, reg in getattr(C, 'EXTRA', []):
            reps.append(deductive.verify_function(rel, q, c, hooks=None, registry=reg, module_env=C.ENV))
    _cache['r'] = reps
    return reps


def is_flow(ob):
    return ob.kind == 'information-flow' or ('/pre@' in ob.name and '#public(' in ob.name)


def split(flow):
    out = []
    for r in all_reports():
        r2 = copy.copy(r)
        r2.obligations = [o for o in r.obligations if is_flow(o) == flow]
        out.append(r2)
    return out
