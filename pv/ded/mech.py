"""Deductive tier shared by C05 (ledger) and C06 (flow): one symbolic execution of every mechanism function,
obligations split by kind."""
import copy, importlib
from .. import deductive

MODULES = ['mst', 'mwem', 'aim', 'adagrid']
_cache = {}


def all_reports():
    if 'r' in _cache:
        return _cache['r']
    reps = []
    for m in MODULES:
        try:
            C = importlib.import_module('pv.contracts.' + m)
        except ModuleNotFoundError:
            continue
        labels = getattr(C, 'LABELS', None)
        for k, (q, c, reg) in enumerate(C.FUNCTIONS):
            label = labels[k] if labels and labels[k] else ''
            reps.append(deductive.verify_function(C.REL, q, c, hooks=C.hooks_for(c), registry=reg, module_env=C.ENV,
                                                  prefix='%s::%s%s' % (C.REL, q, '[%s]' % label if label else '')))
        for rel, q, c, reg in getattr(C, 'EXTRA', []):
            reps.append(deductive.verify_function(rel, q, c, hooks=None, registry=reg, module_env=C.ENV))
    _cache['r'] = reps
    return reps


def is_flow(ob):
    return ob.kind == 'information-flow' or ('/pre@' in ob.name and '#public(' in ob.name)


def split(flow):
    out = []
    for r in all_reports():
        r2 = copy.copy(r)
        r2.obligations = [o for o in r.obligations if is_flow(o) == flow]
        out.append(r2)
    return out


def replay(prop, ob, max_cases=6):
    """Replay of a refuted ledger / flow obligation on the real mechanism: the counter-model's privacy parameters (where they lie
    in the property's range) are put into bounded-tier cases of the mechanism the obligation belongs to, and those are executed
    on actual neighbouring datasets with the run-time ledger / record-replay harness.  reproduced = some clause fails."""
    from fractions import Fraction
    from ..bounded import dp_harness as H
    fn = ob.function or ob.name
    mech_name = 'mst' if 'mst.py' in fn else 'aim' if 'aim.py' in fn or 'mechanism.py' in fn else 'mwem' if 'mwem' in fn else \
        'adagrid' if 'adaptive_grid' in fn else None
    if mech_name is None:
        return None

    def val(name, lo, hi):
        v = (ob.model or {}).get(name)
        try:
            x = float(Fraction(str(v)))
        except (ValueError, ZeroDivisionError, TypeError):
            return None
        return x if lo <= x <= hi else None
    over = {}
    e, d = val('epsilon', 0.01, 10.0), val('delta', 1e-12, 0.5)
    if e is not None:
        over['epsilon'] = e
    if d is not None:
        over['delta'] = d
    key = (prop.id, mech_name, tuple(sorted(over.items())))
    if key in _replayed:
        return dict(_replayed[key], same_run_as='an earlier obligation of the same mechanism with the same parameters')
    cases = [c for c in H.gen_cases('quick', 4242) if c.get('mech') == mech_name or (mech_name == 'adagrid' and str(c.get('mech', '')).startswith('ada'))]
    tried = []
    for c in cases[:max_cases]:
        c = dict(c, params=dict(c['params'], **over))
        try:
            res = prop.run_case(c)
        except Exception as ex:
            tried.append(dict(case_params=c['params'], error='%s: %s' % (type(ex).__name__, str(ex)[:200])))
            continue
        bad = [(cl, det) for cl, ok, det in res if not ok]
        if bad:
            _replayed[key] = dict(reproduced=True, mechanism=mech_name, parameters_from_counter_model=over, case=c, failing_clause=bad[0][0],
                        observed={k: v for k, v in bad[0][1].items() if k in ('spent', 'budget', 'ratio', 'by_kind', 'accounting', 'no_finite_price', 'first_difference')})
            return _replayed[key]
        tried.append(dict(case_params=c['params'], clauses=[cl for cl, ok, _ in res]))
    _replayed[key] = dict(reproduced=False, mechanism=mech_name, parameters_from_counter_model=over, tried=tried[:3])
    return _replayed[key]


_replayed = {}
