from . import mech


def run(tier):
    return mech.split(flow=False)


def replay(prop, ob):
    return mech.replay(prop, ob)
