from . import mech


def run(tier):
    return mech.split(flow=False)
