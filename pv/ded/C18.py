from . import normal_ded


def run(tier):
    # the tables LocalInference returns come from these oracle functions
    return normal_ded.reports(('C16', 'C17'))
