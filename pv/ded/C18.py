"""C18 deductive tier: oracle interface obligations + normalisation idiom of the oracle functions."""
import time
from . import normal_ded
from ..deductive import FunctionReport
from ..vc import iface
from .. import frontend


def run(tier):
    reps = list(normal_ded.reports(('C16', 'C17')))
    t0 = time.time()
    r = FunctionReport('src/mbi/local_inference.py', 'LocalInference [attributes used on the marginal oracle]')
    try:
        # `marginals` and `potentials` are (re)assigned by LocalInference itself before it reads them back
        r.obligations, r.sha = iface.obligations('src/mbi/local_inference.py', 'LocalInference',
                                                 [('src/mbi/region_graph.py', 'RegionGraph'), ('src/mbi/factor_graph.py', 'FactorGraph')],
                                                 holder='model')
    except frontend.MissingAnchor as e:
        r.undecided = 'anchor missing: %s' % e
    r.vacuity = []
    r.seconds = time.time() - t0
    reps.append(r)
    from .. import deductive
    from ..contracts import lossgrad as LG
    for rel, q, c, tag in LG.ITEMS:
        if tag == 'C18':
            reps.append(deductive.verify_function(rel, q, c, hooks=LG.OneCellHooks(), module_env=LG.ENV, prefix='%s::%s[one-cell instance]' % (rel, q)))
    from ..contracts import oraclewire as OW
    for rel, q, c in OW.ITEMS:
        reps.append(deductive.verify_function(rel, q, c, hooks=OW.hooks_for(c), prefix='%s::%s[oracle wiring]' % (rel, q)))
    reps.append(OW.frame_report())
    for rel, q, c in OW.LI_ITEMS:
        reps.append(deductive.verify_function(rel, q, c, hooks=OW.hooks_for(c), prefix='%s::%s[what runs, what is stored]' % (rel, q)))
    reps += OW.fg_frame_reports()
    reps.append(OW.schedule_report())
    reps.append(OW.canonical_regions_report())
    for rel, q, c in OW.RG_PROJECT_ITEMS:
        reps.append(deductive.verify_function(rel, q, c, hooks=OW.project_hooks(c), prefix='%s::%s[in-clique answers]' % (rel, q)))
    from ..contracts import feas as FE
    for rel, q, c in FE.ITEMS:
        reps.append(deductive.verify_function(rel, q, c, hooks=FE.hooks_for(c)))
    from ..contracts import lossnd as ND
    for rel, q, c, tag in ND.ITEMS:
        if tag == 'C18':
            reps.append(deductive.verify_function(rel, q, c, hooks=ND.hooks(), prefix='%s::%s[n-dimensional, L2]' % (rel, q)))
    # the marginal oracles LocalInference optimises through: message equations of the three routines, value-level (same contracts as C16 / C17)
    from ..contracts import hps as H
    reps.append(deductive.verify_function(H.ITEM[0], H.ITEM[1], H.ITEM[2], hooks=H.hooks(), prefix='%s::%s[update equations]' % H.ITEM[:2]))
    from ..contracts import fgbp as FG
    reps.append(deductive.verify_function(FG.ITEM[0], FG.ITEM[1], FG.ITEM[2], hooks=FG.hooks(), prefix='%s::%s[message equations]' % FG.ITEM[:2]))
    from ..contracts import gbpmsg as GB
    reps.append(deductive.verify_function(GB.ITEM[0], GB.ITEM[1], GB.ITEM[2], hooks=GB.hooks(), prefix='%s::%s[message equations]' % GB.ITEM[:2]))
    from ..contracts import exactmsg as XM
    for rel2, q2, c2, sites, tag in XM.ITEMS:
        if tag == 'C18':
            reps.append(deductive.verify_function(rel2, q2, c2, hooks=XM.hooks(sites), prefix='%s::%s[update equations]' % (rel2, q2)))
    reps.append(XM.feasibility_stop_report())
    reps.append(XM.restart_termination_report())
    from ..contracts import lossnd as ND1
    for rel, q, c, tag in ND1.L1_ITEMS:
        if tag == 'C18':
            reps.append(deductive.verify_function(rel, q, c, hooks=ND1.hooks(ND1.SITES_L1), prefix='%s::%s[n-dimensional, L1]' % (rel, q)))
    return reps


def replay(prop, ob):
    from ..contracts import lossgrad as LG
    return LG.replay(prop, ob)
