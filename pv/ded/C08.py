from . import infer
from .. import deductive
from ..contracts import gminit as GI


def run(tier):
    rel, q, c = GI.ITEM
    # mle (the refit of RDA / IG) is only a valid factorisation for the clique order the junction tree returns: wiring contract
    reps = infer.split(zeros=False) + [deductive.verify_function(rel, q, c)]
    from ..contracts import exactmsg as XM
    for rel2, q2, c2, sites, tag in XM.ITEMS:
        if tag == 'C08':
            reps.append(deductive.verify_function(rel2, q2, c2, hooks=XM.hooks(sites), prefix='%s::%s[update equations]' % (rel2, q2)))
    reps += infer.purity_reports()
    reps.append(deductive.lemma_report(('bp-edge-calibration',), title='calibration across a tree edge, as a lemma over the verified message-step equations'))
    return reps
