from . import infer
from .. import deductive
from ..contracts import gminit as GI


def run(tier):
    rel, q, c = GI.ITEM
    # mle (the refit of RDA / IG) is only a valid factorisation for the clique order the junction tree returns: wiring contract
    return infer.split(zeros=False) + [deductive.verify_function(rel, q, c)]
