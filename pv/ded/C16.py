from . import normal_ded


def run(tier):
    return normal_ded.reports(('C16',))
