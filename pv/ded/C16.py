from . import normal_ded
from .. import deductive
from ..contracts import oraclewire as OW


def run(tier):
    reps = list(normal_ded.reports(('C16',)))
    # which routine `belief_propagation` is bound to (convex flag -> Hazan-Peng-Shashua, otherwise generalised propagation)
    for rel, q, c in OW.ITEMS:
        if q in ('RegionGraph.__init__', 'FactorGraph.__init__'):
            reps.append(deductive.verify_function(rel, q, c, hooks=OW.hooks_for(c), prefix='%s::%s[oracle wiring]' % (rel, q)))
    reps.append(OW.frame_report())
    reps += OW.fg_frame_reports()
    reps.append(OW.schedule_report())
    reps.append(OW.canonical_regions_report())
    for rel, q, c in OW.RG_PROJECT_ITEMS:
        reps.append(deductive.verify_function(rel, q, c, hooks=OW.project_hooks(c), prefix='%s::%s[in-clique answers]' % (rel, q)))
    # the sum-product message equations of loopy belief propagation, value-level (pv/contracts/fgbp.py)
    from ..contracts import fgbp as FG
    reps.append(deductive.verify_function(FG.ITEM[0], FG.ITEM[1], FG.ITEM[2], hooks=FG.hooks(), prefix='%s::%s[message equations]' % FG.ITEM[:2]))
    from ..contracts import gbpmsg as GB
    reps.append(deductive.verify_function(GB.ITEM[0], GB.ITEM[1], GB.ITEM[2], hooks=GB.hooks(), prefix='%s::%s[message equations]' % GB.ITEM[:2]))
    import time
    from ..vc import frames
    from .. import frontend
    for rel, q in (('src/mbi/factor_graph.py', 'FactorGraph.loopy_belief_propagation'), ('src/mbi/factor_graph.py', 'FactorGraph.convergent_belief_propagation'),
                   ('src/mbi/region_graph.py', 'RegionGraph.generalized_belief_propagation')):
        r = deductive.FunctionReport(rel, q + ' [identity comparisons range over one container]')
        t0 = time.time()
        try:
            r.obligations, r.sha = frames.identity_comparisons(rel, q)
        except frontend.MissingAnchor as e:
            r.undecided = 'anchor missing: %s' % e
        r.vacuity = []
        r.seconds = time.time() - t0
        reps.append(r)
    from ..contracts import emd as EM
    for rel, q, c, sites, tag in EM.ITEMS:
        if tag == 'C16':
            reps.append(deductive.verify_function(rel, q, c, hooks=EM.hooks(sites), prefix='%s::%s[update equations]' % (rel, q)))
    return reps
