"""Deductive tier over src/mbi/inference.py shared by C08 (coherence) and C10 (structural zeros)."""
import copy
from .. import deductive
from ..contracts import inference as K

_cache = {}


def all_reports():
    if 'r' not in _cache:
        _cache['r'] = [deductive.verify_function(K.REL, q, c, hooks=K.hooks_for(c), registry=reg) for q, c, reg in K.FUNCTIONS]
    return _cache['r']


def is_zero_obligation(ob):
    return any(s in ob.name for s in ('carries(', 'zeroed(', 'finite(', 'C10:'))


def is_c03(ob):
    return 'C03:' in ob.name


def split(zeros):
    out = []
    for r in all_reports():
        r2 = copy.copy(r)
        r2.obligations = [o for o in r.obligations if is_zero_obligation(o) == zeros and not is_c03(o)]
        out.append(r2)
    return out


def c03():
    out = []
    for r in all_reports():
        r2 = copy.copy(r)
        r2.obligations = [o for o in r.obligations if is_c03(o)]
        if r2.obligations:
            out.append(r2)
    return out


PURE_CALLEES = [('src/mbi/graphical_model.py', 'GraphicalModel.belief_propagation'), ('src/mbi/graphical_model.py', 'GraphicalModel.mle'),
                ('src/mbi/inference.py', 'FactoredInference._marginal_loss'), ('src/mbi/inference.py', 'FactoredInference._lipschitz'),
                ('src/mbi/clique_vector.py', 'CliqueVector.dot')]


def purity_reports(items=PURE_CALLEES):
    """The callees the solver contracts treat as deterministic functions of their arguments and the receiver's state (typed
    uninterpreted functions): no randomness source, no hidden state written - decided on their text (pv/vc/frames.py: purity)."""
    import time
    from ..vc import frames
    from .. import frontend
    reps = []
    for rel, q in items:
        r = deductive.FunctionReport(rel, q + ' [deterministic, no hidden state]')
        t0 = time.time()
        try:
            r.obligations, r.sha = frames.purity(rel, q)
        except frontend.MissingAnchor as e:
            r.undecided = 'anchor missing: %s' % e
        r.vacuity = []
        r.seconds = time.time() - t0
        reps.append(r)
    return reps
