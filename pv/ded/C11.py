import time
from .. import deductive, frontend
from ..deductive import FunctionReport
from ..contracts import synth as K
from ..vc import frames
from . import C13

GM, F = 'src/mbi/graphical_model.py', 'src/mbi/factor.py'
# synthetic_col rescales the projected marginal in place (`counts *= total / counts.sum()`): that array must be private to the
# call, or one synthetic_data call corrupts the model (its cached marginals) for every later one.
FRESH = [x for x in C13.RETURNS_FRESH if x[1] in ('GraphicalModel.project', 'Factor.project', 'Factor.sum', 'Factor.transpose', 'Factor.datavector',
                                                   'variable_elimination_logspace', 'Factor.exp')]


def run(tier):
    reps = [deductive.verify_function(rel, q, c, hooks=K.SynthHooks(), module_env=c['module_env'], prefix='%s::%s[%s]' % (rel, q, label))
            for rel, q, c, label in K.ITEMS]
    t0 = time.time()
    r = FunctionReport(GM, 'GraphicalModel.synthetic_data [in-place updates only touch arrays private to the call]')
    try:
        ow = frames.Ownership(GM, 'GraphicalModel.synthetic_data')
        r.obligations = ow.run()
        r.sha = ow.sha
    except frontend.MissingAnchor as e:
        r.undecided = 'anchor missing: %s' % e
    r.seconds = time.time() - t0
    r.vacuity = []
    from ..contracts import synthwire as SW
    wiring = [deductive.verify_function(rel, q, c, hooks=SW.hooks_for(c), prefix='%s::%s[rows, domain, which table per column]' % (rel, q)) for rel, q, c in SW.ITEMS]
    return reps + wiring + [r] + C13.returns_fresh_reports(FRESH)


def replay(prop, ob):
    return K.replay(ob)
