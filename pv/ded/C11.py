from .. import deductive
from ..contracts import synth as K


def run(tier):
    return [deductive.verify_function(rel, q, c, hooks=K.SynthHooks(), module_env=c['module_env'], prefix='%s::%s[%s]' % (rel, q, label))
            for rel, q, c, label in K.ITEMS]
