from . import infer


def run(tier):
    return infer.split(zeros=True)
