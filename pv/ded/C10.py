from . import infer
from .. import deductive
from ..contracts import cellalg as K


def run(tier):
    reps = infer.split(zeros=True)
    # the extended-real algebra the vector-level invariants rest on, established per cell on the real Factor methods
    for q, c, label in K.FUNCTIONS:
        reps.append(deductive.verify_function(K.REL, q, c, hooks=K.AlgHooks(), module_env=K.module_env(), prefix='%s::%s[cell: %s]' % (K.REL, q, label)))
    # the vector-level algebra rests on CliqueVector applying the Factor operators clique by clique, and on combine adding a table only
    # into a clique that contains its clique (pv/contracts/cvec.py)
    from ..contracts import cvec
    from ..contracts import aggsite, active
    reps += [deductive.verify_function(rel, q, c, hooks=active.hooks_for(c), prefix='%s::%s[zero specification]' % (rel, q)) for rel, q, c in active.ITEMS]
    return reps + cvec.reports() + aggsite.reports(('logsumexp',))


def replay(prop, ob):
    from ..contracts import cvec
    return cvec.replay(ob)
