"""C13 deductive tier: definite-assignment and frame (ownership) obligations, see pv/vc/frames.py."""
import time
from ..deductive import FunctionReport
from ..vc import frames
from .. import frontend

INF = 'src/mbi/inference.py'
GM = 'src/mbi/graphical_model.py'
# in-place targets that are parameters by design, with the reason they are outside the property:
ALLOWED = {
    'FactoredInference.estimate': ('options',),            # the solver-options dict: only its 'callback' key is (re)written before every use
    'FactoredInference.interior_gradient': ('c',),         # a scalar algorithm parameter (immutable number)
}
OWNERSHIP = [(INF, 'FactoredInference.estimate'), (INF, 'FactoredInference.fix_measurements'), (INF, 'FactoredInference._setup'),
             (INF, 'FactoredInference._marginal_loss'), (INF, 'FactoredInference._lipschitz'), (INF, 'FactoredInference.mirror_descent'),
             (INF, 'FactoredInference.dual_averaging'), (INF, 'FactoredInference.interior_gradient'),
             (GM, 'GraphicalModel.belief_propagation'), (GM, 'GraphicalModel.mle'), (GM, 'GraphicalModel.project'),
             (GM, 'GraphicalModel.synthetic_data'), (GM, 'variable_elimination_logspace'), (GM, 'GraphicalModel.calculate_many_marginals'),
             ('src/mbi/clique_vector.py', 'CliqueVector.combine'), ('src/mbi/factor.py', 'Factor.active')]


def run(tier):
    reps = []
    t0 = time.time()
    r = FunctionReport(INF, 'FactoredInference.estimate [state that survives between calls]')
    try:
        du = frames.DefUse(INF, 'FactoredInference', 'estimate', 'warm_start', exhaustive_params=('engine',))
        r.obligations = du.run()
        r.sha = du.sha
        r.notes = ['attributes of self assigned outside __init__: %s' % sorted(du.persistent)]
    except frontend.MissingAnchor as e:
        r.undecided = 'anchor missing: %s' % e
    r.seconds = time.time() - t0
    r.vacuity = []
    reps.append(r)
    for rel, q in OWNERSHIP:
        t0 = time.time()
        r = FunctionReport(rel, q)
        try:
            ow = frames.Ownership(rel, q, allowed_param_writes=ALLOWED.get(q, ()))
            r.obligations = ow.run()
            r.sha = ow.sha
        except frontend.MissingAnchor as e:
            r.undecided = 'anchor missing: %s' % e
        except RecursionError:
            r.undecided = 'ownership analysis did not terminate'
        r.seconds = time.time() - t0
        r.vacuity = []
        reps.append(r)
    return reps
