"""C13 deductive tier: definite-assignment and frame (ownership) obligations, see pv/vc/frames.py."""
import ast
import time
from ..deductive import FunctionReport
from ..vc import frames
from .. import frontend

INF = 'src/mbi/inference.py'
GM = 'src/mbi/graphical_model.py'
# in-place targets that are parameters by design, with the reason they are outside the property:
ALLOWED = {
    'FactoredInference.estimate': ('options:callback',),   # the solver-options dict: only its 'callback' key is (re)written before every use
    'FactoredInference.interior_gradient': ('c',),         # a scalar algorithm parameter (immutable number)
}
OWNERSHIP = [(INF, 'FactoredInference.estimate'), (INF, 'FactoredInference.fix_measurements'), (INF, 'FactoredInference._setup'),
             (INF, 'FactoredInference._marginal_loss'), (INF, 'FactoredInference._lipschitz'), (INF, 'FactoredInference.mirror_descent'),
             (INF, 'FactoredInference.dual_averaging'), (INF, 'FactoredInference.interior_gradient'),
             (GM, 'GraphicalModel.belief_propagation'), (GM, 'GraphicalModel.mle'), (GM, 'GraphicalModel.project'),
             (GM, 'GraphicalModel.synthetic_data'), (GM, 'variable_elimination_logspace'), (GM, 'GraphicalModel.calculate_many_marginals'),
             ('src/mbi/clique_vector.py', 'CliqueVector.combine'), ('src/mbi/factor.py', 'Factor.active')]

F, CV = 'src/mbi/factor.py', 'src/mbi/clique_vector.py'
# callee half of the allocator contract used at call sites of the functions above: (file, function, kind) — see frames.ReturnsFresh
RETURNS_FRESH = [(F, 'Factor.project', 'fresh'), (F, 'Factor.sum', 'fresh'), (F, 'Factor.logsumexp', 'fresh'), (F, 'Factor.copy', 'fresh'),
                 (F, 'Factor.exp', 'fresh'), (F, 'Factor.log', 'fresh'), (F, 'Factor.expand', 'fresh'), (F, 'Factor.transpose', 'alias'),
                 (F, 'Factor.datavector', 'alias'), (F, 'Factor.zeros', 'fresh'), (F, 'Factor.ones', 'fresh'), (F, 'Factor.uniform', 'fresh'),
                 (F, 'Factor.random', 'fresh'), (F, 'Factor.active', 'fresh'),
                 (GM, 'GraphicalModel.project', 'fresh'), (GM, 'GraphicalModel.belief_propagation', 'fresh'), (GM, 'GraphicalModel.mle', 'fresh'),
                 (GM, 'variable_elimination_logspace', 'fresh'),
                 (CV, 'CliqueVector.exp', 'fresh'), (CV, 'CliqueVector.log', 'fresh'), (CV, 'CliqueVector.zeros', 'fresh'),
                 (CV, 'CliqueVector.ones', 'fresh'), (CV, 'CliqueVector.uniform', 'fresh'), (CV, 'CliqueVector.random', 'fresh')]


def returns_fresh_reports(items):
    reps = []
    for rel, q, kind in items:
        t0 = time.time()
        r = FunctionReport(rel, q + ' [returns-%s]' % kind)
        try:
            rf = frames.ReturnsFresh(rel, q, kind)
            r.obligations = rf.run()
            r.sha = rf.sha
        except frontend.MissingAnchor as e:
            r.undecided = 'anchor missing: %s' % e
        except RecursionError:
            r.undecided = 'ownership analysis did not terminate'
        r.seconds = time.time() - t0
        r.vacuity = []
        reps.append(r)
    return reps


def run(tier):
    reps = []
    t0 = time.time()
    r = FunctionReport(INF, 'FactoredInference.estimate [state that survives between calls]')
    try:
        du = frames.DefUse(INF, 'FactoredInference', 'estimate', 'warm_start', exhaustive_params=('engine',))
        r.obligations = du.run()
        r.sha = du.sha
        r.notes = ['attributes of self assigned outside __init__: %s' % sorted(du.persistent)]
    except frontend.MissingAnchor as e:
        r.undecided = 'anchor missing: %s' % e
    r.seconds = time.time() - t0
    r.vacuity = []
    reps.append(r)
    for rel, q in OWNERSHIP:
        t0 = time.time()
        r = FunctionReport(rel, q)
        try:
            ow = frames.Ownership(rel, q, allowed_param_writes=ALLOWED.get(q, ()))
            r.obligations = ow.run()
            r.sha = ow.sha
        except frontend.MissingAnchor as e:
            r.undecided = 'anchor missing: %s' % e
        except RecursionError:
            r.undecided = 'ownership analysis did not terminate'
        r.seconds = time.time() - t0
        r.vacuity = []
        reps.append(r)
    t0 = time.time()
    r = FunctionReport(INF, 'FactoredInference._setup [the model handed to the caller is a new object in every call]')
    try:
        ef = frames.EscapesFresh(INF, 'FactoredInference._setup', ('model',))
        r.obligations = ef.run()
        r.sha = ef.sha
        # no other method may re-bind self.model
        cls, _, _ = frontend.get_function(INF, 'FactoredInference')
        others = [(f.name, n.lineno) for f in cls.body if isinstance(f, ast.FunctionDef) and f.name not in ('_setup',)
                  for n in ast.walk(f) if isinstance(n, ast.Assign) for t in n.targets if frames.self_attr(t) and t.attr == 'model']
        ef.ob('only-_setup-binds-self.model', not others, dict(other_bindings=others))
    except frontend.MissingAnchor as e:
        r.undecided = 'anchor missing: %s' % e
    r.seconds = time.time() - t0
    r.vacuity = []
    reps.append(r)
    # warm start and cold start optimise over the same support: the potentials _setup installs carry the structural zeros on the
    # warm-start path too (same contract as C10's _setup item; a warm start that skipped them would search a larger set)
    from .. import deductive
    from ..contracts import inference as K
    reps.append(deductive.verify_function(K.REL, 'FactoredInference._setup', K.SETUP_ZEROS, hooks=K.hooks_for(K.SETUP_ZEROS), registry={},
                                          prefix='%s::FactoredInference._setup[warm and cold start share the declared support]' % K.REL))
    return reps + returns_fresh_reports(RETURNS_FRESH)
