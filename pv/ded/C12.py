from .. import deductive


def run(tier):
    return deductive.verify_module('jtree', nproc=3)
