from .. import deductive
from ..contracts import dsproject as DP


def run(tier):
    reps = deductive.verify_module('domain', nproc=12)
    for rel, q, c in DP.ITEMS:
        reps.append(deductive.verify_function(rel, q, c, hooks=DP.hooks_for(c)))
    reps.append(deductive.lemma_report())
    return reps


def replay(prop, ob):
    return DP.replay(ob)
