from .. import deductive


def run(tier):
    return deductive.verify_module('domain', nproc=12)
