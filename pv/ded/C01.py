"""C01 deductive tier: the -inf-aware subtraction used for the reverse message (pointwise extended reals) and the
normalisation of variable elimination; exactness of belief propagation itself is decided by the bounded tier."""
from .. import deductive
from ..contracts import extsub as K
from . import normal_ded


def run(tier):
    return [deductive.verify_function(K.REL, 'Factor.__sub__', K.SUB, hooks=K.CellHooks(), module_env=K.module_env())]
