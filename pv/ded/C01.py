"""C01 deductive tier: the -inf-aware subtraction used for the reverse message (pointwise extended reals) and the final
normalisation of belief propagation under the calibration lemma (L-cal, assumed: it is the sum-product theorem the bounded tier
decides on explicit joints); exactness of belief propagation itself is decided by the bounded tier."""
from .. import deductive
from ..contracts import extsub as K
from ..contracts import normal as N
from ..contracts import gminit as GI
from ..contracts import bpmsg as BM


def run(tier):
    rel, q, c = N.BP_ITEM
    return [deductive.verify_function(K.REL, 'Factor.__sub__', K.SUB, hooks=K.CellHooks(), module_env=K.module_env()),
            deductive.verify_function(rel, q, c, hooks=N.BPHooks(), module_env={'Z_calibrated': N.E.Num(N.z3.Real('Z_calibrated'))}),
            deductive.verify_function(*GI.ITEM),
            deductive.verify_function(BM.ITEM[0], BM.ITEM[1], BM.ITEM[2], hooks=BM.hooks(), prefix='%s::%s[message step]' % BM.ITEM[:2])] + _agg() + \
        [deductive.lemma_report(('bp-edge-calibration',), title='calibration across a tree edge, as a lemma over the verified message-step equations')]


def _agg():
    # "stays finite far outside the range of exp()": messages are aggregated by scipy's max-shifted logsumexp (pv/contracts/aggsite.py)
    from ..contracts import aggsite
    return aggsite.reports(('logsumexp',))
