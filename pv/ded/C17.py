from . import normal_ded
from .. import deductive
from ..contracts import oraclewire as OW


def run(tier):
    reps = list(normal_ded.reports(('C17',)))
    # which routine `belief_propagation` is bound to (convex flag -> Hazan-Peng-Shashua, otherwise generalised propagation)
    for rel, q, c in OW.ITEMS:
        if q == 'RegionGraph.__init__':
            reps.append(deductive.verify_function(rel, q, c, hooks=OW.hooks_for(c), prefix='%s::%s[oracle wiring]' % (rel, q)))
    reps.append(OW.frame_report())
    # the update equations of the convex message passing, value-level (pv/contracts/hps.py)
    from ..contracts import hps as H
    rel, q, c = H.ITEM
    reps.append(deductive.verify_function(rel, q, c, hooks=H.hooks(), prefix='%s::%s[update equations]' % (rel, q)))
    reps.append(H.local_tables_report())
    reps.append(H.fixed_point_report())
    return reps
