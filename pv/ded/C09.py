from .. import deductive
from ..contracts import totals as K


def run(tier):
    return [deductive.verify_function(rel, q, c, hooks=K.hooks_for(c)) for rel, q, c in K.ITEMS]
