from .. import deductive
from ..contracts import totals as K


def run(tier):
    reps = [deductive.verify_function(rel, q, c, hooks=K.hooks_for(c)) for rel, q, c in K.ITEMS]
    # the constructor half of "the installed model carries the total in force": the three model classes store their `total`
    # argument as self.total (GraphicalModel: pv/contracts/gminit.py; RegionGraph, FactorGraph: pv/contracts/oraclewire.py)
    from ..contracts import gminit as GI
    rel, q, c = GI.ITEM
    reps.append(deductive.verify_function(rel, q, c))
    from ..contracts import oraclewire as OW
    for rel, q, c in OW.ITEMS:
        if q.endswith('.__init__'):
            reps.append(deductive.verify_function(rel, q, c, hooks=OW.hooks_for(c), prefix='%s::%s[stores its arguments]' % (rel, q)))
    reps.append(OW.frame_report())
    # LocalInference: estimate -> mirror_descent -> _setup hand the caller's total on unchanged
    for rel, q, c in OW.LI_ITEMS:
        reps.append(deductive.verify_function(rel, q, c, hooks=OW.hooks_for(c), prefix='%s::%s[total handed on]' % (rel, q)))
    reps += OW.fg_frame_reports()
    # lemmas over the verified formula: exact on noise-free answers; minimum variance among linear combinations (instances n = 2, 3)
    reps.append(deductive.lemma_report(('total-estimate-exact-when-noise-free', 'inverse-variance-weights-minimise-the-variance[n=2,3]'),
                                       title='lemmas over the verified total-estimate formula'))
    return reps


def replay(prop, ob):
    """Native replay of the `_setup` / `estimate` obligations about which total the installed model carries: one estimator (warm start on),
    estimate twice over the same cliques with different totals - supplied, then omitted with noise-free answers of N records."""
    if not any(k in ob.name for k in ('installed-model-carries-the-total', 'solver-gets-the-callers-total', 'model-total', 'setup-with-the-callers-total')):
        return None
    import numpy as np
    from .. import env
    env.ensure_repo_importable()
    from mbi import Domain, FactoredInference, LocalInference
    dom = Domain(['a', 'b'], [2, 3])
    local = 'LocalInference' in ob.name or 'local_inference' in ob.name
    rows = []
    bad = False
    try:
        est = LocalInference(dom, iters=2, warm_start=True) if local else FactoredInference(dom, iters=2, warm_start=True)
        for supplied, N in ((400.0, 60), (None, 250), (7.0, 30)):
            x = np.array([0.5, 0.5]) * N
            y2 = np.array([0.2, 0.3, 0.5]) * N
            ms = [(np.eye(2), x, 1.0, ('a',)), (np.eye(3), y2, 1.0, ('b',))]
            model = est.estimate(ms, total=supplied)
            want = supplied if supplied is not None else float(N)
            got = float(model.total)
            rows.append(dict(supplied=supplied, records=N, model_total=got, expected=want))
            bad = bad or abs(got - want) > 1e-6 * max(1.0, want)
    except Exception as e:
        return dict(reproduced=True, inputs=dict(estimator='LocalInference' if local else 'FactoredInference', calls=rows), raised='%s: %s' % (type(e).__name__, e))
    return dict(reproduced=bool(bad), inputs=dict(estimator='LocalInference' if local else 'FactoredInference', warm_start=True, domain='a:2,b:3',
                                                    measurements='identity on (a) and (b), noise-free'), calls=rows)
