from .. import deductive
from ..contracts import totals as K


def run(tier):
    reps = [deductive.verify_function(rel, q, c, hooks=K.hooks_for(c)) for rel, q, c in K.ITEMS]
    # the constructor half of "the installed model carries the total in force": the three model classes store their `total`
    # argument as self.total (GraphicalModel: pv/contracts/gminit.py; RegionGraph, FactorGraph: pv/contracts/oraclewire.py)
    from ..contracts import gminit as GI
    rel, q, c = GI.ITEM
    reps.append(deductive.verify_function(rel, q, c))
    from ..contracts import oraclewire as OW
    for rel, q, c in OW.ITEMS:
        if q.endswith('.__init__'):
            reps.append(deductive.verify_function(rel, q, c, hooks=OW.hooks_for(c), prefix='%s::%s[stores its arguments]' % (rel, q)))
    reps.append(OW.frame_report())
    # LocalInference: estimate -> mirror_descent -> _setup hand the caller's total on unchanged
    for rel, q, c in OW.LI_ITEMS:
        reps.append(deductive.verify_function(rel, q, c, hooks=OW.hooks_for(c), prefix='%s::%s[total handed on]' % (rel, q)))
    reps += OW.fg_frame_reports()
    # lemmas over the verified formula: exact on noise-free answers; minimum variance among linear combinations (instances n = 2, 3)
    reps.append(deductive.lemma_report(('total-estimate-exact-when-noise-free', 'inverse-variance-weights-minimise-the-variance[n=2,3]'),
                                       title='lemmas over the verified total-estimate formula'))
    return reps
