import ast
import time
from .. import deductive
from .. import frontend
from ..vc import solver as S


def domain_iter_report():
    """Factor.condition iterates `self.domain`; its contract reads that as the attribute sequence in order.  Decided on the text of
    Domain.__iter__: it returns the iterator of self.attrs (any other body leaves the wiring UNDECIDED, never a violation)."""
    rel, q = 'src/mbi/domain.py', 'Domain.__iter__'
    r = deductive.FunctionReport(rel, q + ' [iteration order is the attribute order]')
    t0 = time.time()
    try:
        fn, _src, sha = frontend.get_function(rel, q)
        body = [s for s in fn.body if not (isinstance(s, ast.Expr) and isinstance(getattr(s, 'value', None), ast.Constant))]
        text = ast.unparse(body[0]).replace(' ', '') if len(body) == 1 else ''
        ok = text in ('returnself.attrs.__iter__()', 'returniter(self.attrs)')
        ob = S.Obligation('%s::%s/returns-the-iterator-of-self.attrs' % (rel, q), [], None, function='%s::%s' % (rel, q), kind='wiring')
        ob.verdict = 'discharged' if ok else 'unknown'
        ob.backend = 'syntactic (AST match)'
        ob.seconds = 0.0
        ob.reason = '' if ok else 'body is not `return self.attrs.__iter__()`: %s' % text[:80]
        ob.meta = {'base': ob.name}
        r.obligations.append(ob)
        r.sha = sha
    except frontend.MissingAnchor as e:
        r.undecided = 'anchor missing: %s' % e
    r.vacuity = []
    r.seconds = time.time() - t0
    return r


def run(tier):
    from ..contracts import cvec, aggsite
    # "collections of factors combine clique by clique": CliqueVector arithmetic in the one-key view, combine by site contracts
    return deductive.verify_module('factor', nproc=14) + [deductive.lemma_report(), domain_iter_report()] + cvec.reports() + aggsite.reports() + _constant_tables()


def _constant_tables():
    # Factor.zeros / ones / uniform: the tables estimation starts from (on the given domain, of its shape; uniform = ones / number of cells)
    from ..contracts import active
    return [deductive.verify_function(rel, q, c, hooks=active.hooks_for(c), prefix='%s::%s[constant table]' % (rel, q)) for rel, q, c in active.CONST_ITEMS]


def replay(prop, ob):
    from ..contracts import cvec
    return cvec.replay(ob)
