from .. import deductive


def run(tier):
    return deductive.verify_module('factor', nproc=14) + [deductive.lemma_report()]
