"""C03 deductive tier: only the shape of the Armijo acceptance test and the measurement-grouping obligations (every
measurement enters the objective, C04) are within reach; attaining the optimum is decided by the bounded tier."""
from . import infer


def run(tier):
    return infer.c03()
