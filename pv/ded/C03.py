"""C03 deductive tier: the shape of the Armijo acceptance test, and the objective the solvers descend on in its one-cell instance
(loss formula, gradient = derivative of the loss, pv/contracts/lossgrad.py); attaining the optimum is decided by the bounded tier."""
from . import infer
from .. import deductive
from ..contracts import lossgrad as LG


def run(tier):
    reps = infer.c03()
    for rel, q, c, tag in LG.ITEMS:
        if tag == 'C04':
            reps.append(deductive.verify_function(rel, q, c, hooks=LG.OneCellHooks(), module_env=LG.ENV, prefix='%s::%s[one-cell instance]' % (rel, q)))
    # the update equations of the three algorithms, value-level (pv/contracts/solvers.py)
    from ..contracts import solvers as SV
    for q, c, sites in SV.ITEMS:
        reps.append(deductive.verify_function(SV.REL, q, c, hooks=SV.hooks(sites), prefix='%s::%s[update equations]' % (SV.REL, q)))
    # RDA and IG hand back parameters refitted by GraphicalModel.mle, a valid factorisation only for the clique order the junction
    # tree returns: the constructor keeps that order (pv/contracts/gminit.py) and mle is the chain-rule quotient (exactmsg.py)
    from ..contracts import gminit as GI
    rel, q, c = GI.ITEM
    reps.append(deductive.verify_function(rel, q, c))
    from ..contracts import exactmsg as XM
    for rel2, q2, c2, sites, tag in XM.ITEMS:
        if tag == 'C08' and q2.endswith('.mle'):
            reps.append(deductive.verify_function(rel2, q2, c2, hooks=XM.hooks(sites), prefix='%s::%s[update equations]' % (rel2, q2)))
    # "with each of the three engines": estimate runs the solver the caller names, on the normalised measurements (pv/contracts/totals.py)
    from ..contracts import totals as T
    for rel3, q3, c3 in T.ITEMS:
        if q3 == 'FactoredInference.estimate':
            reps.append(deductive.verify_function(rel3, q3, c3, hooks=T.hooks_for(c3), prefix='%s::%s[engine dispatch]' % (rel3, q3)))
    reps += infer.purity_reports()
    return reps


def replay(prop, ob):
    return LG.replay(prop, ob)
