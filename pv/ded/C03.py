"""C03 deductive tier: the shape of the Armijo acceptance test, and the objective the solvers descend on in its one-cell instance
(loss formula, gradient = derivative of the loss, pv/contracts/lossgrad.py); attaining the optimum is decided by the bounded tier."""
from . import infer
from .. import deductive
from ..contracts import lossgrad as LG


def run(tier):
    reps = infer.c03()
    for rel, q, c, tag in LG.ITEMS:
        if tag == 'C04':
            reps.append(deductive.verify_function(rel, q, c, hooks=LG.OneCellHooks(), module_env=LG.ENV, prefix='%s::%s[one-cell instance]' % (rel, q)))
    # the update equations of the three algorithms, value-level (pv/contracts/solvers.py)
    from ..contracts import solvers as SV
    for q, c, sites in SV.ITEMS:
        reps.append(deductive.verify_function(SV.REL, q, c, hooks=SV.hooks(sites), prefix='%s::%s[update equations]' % (SV.REL, q)))
    return reps


def replay(prop, ob):
    return LG.replay(prop, ob)
