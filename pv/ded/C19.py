"""C19 deductive tier: exp-sum loop invariant of entropic mirror descent (weights sum to the total), the total estimate that
feeds it (the public_inference.py copy of estimate_total, same contract as C09), and Dataset.project (the marginal of the public
records is laid out in the order the measurement names its attributes)."""
from .. import deductive
from . import normal_ded
from ..contracts import totals as T
from ..contracts import dsproject as DP


def run(tier):
    reps = list(normal_ded.reports(('C19',)))
    for rel, q, c in T.ITEMS:
        if rel == 'src/mbi/public_inference.py':
            reps.append(deductive.verify_function(rel, q, c, hooks=T.hooks_for(c)))
    for rel, q, c in DP.ITEMS:
        reps.append(deductive.verify_function(rel, q, c, hooks=DP.hooks_for(c)))
    from ..contracts import emd as EM
    for rel, q, c, sites, tag in EM.ITEMS:
        if tag == 'C19':
            reps.append(deductive.verify_function(rel, q, c, hooks=EM.hooks(sites), prefix='%s::%s[update equations]' % (rel, q)))
    from ..contracts import pubwire as PW
    for rel, q, c in PW.ITEMS:
        reps.append(deductive.verify_function(rel, q, c, hooks=PW.hooks_for(c), prefix='%s::%s[wiring]' % (rel, q)))
    from ..contracts import lossgrad as LG
    for rel, q, c, tag in LG.PUBLIC_ITEMS:
        reps.append(deductive.verify_function(rel, q, c, hooks=LG.OneCellHooks(public=True), module_env=LG.ENV, prefix='%s::%s[one-cell instance]' % (rel, q)))
    from ..contracts import lossnd as ND
    for rel, q, c, tag in ND.PUBLIC_ITEMS:
        reps.append(deductive.verify_function(rel, q, c, hooks=ND.hooks(ND.SITES_PUBLIC), prefix='%s::%s[n-dimensional, L2]' % (rel, q)))
    from ..contracts import lossnd as ND1
    for rel, q, c, tag in ND1.L1_ITEMS:
        if tag == 'C19':
            reps.append(deductive.verify_function(rel, q, c, hooks=ND1.hooks(ND1.SITES_L1), prefix='%s::%s[n-dimensional, L1]' % (rel, q)))
    return reps


def replay(prop, ob):
    from ..contracts import lossgrad as LG
    r = LG.replay(prop, ob)
    return r if r is not None else DP.replay(ob)
