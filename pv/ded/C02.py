from .. import deductive
from . import normal_ded


def run(tier):
    return deductive.verify_module('gmquery', nproc=1) + normal_ded.reports(('C02',))
