from .. import deductive
from . import normal_ded
from ..contracts import normal as N


def run(tier):
    rel, q, c = N.DV_ITEM
    return deductive.verify_module('gmquery', nproc=1) + normal_ded.reports(('C02',)) + \
        [deductive.verify_function(rel, q, c, hooks=N.DataVectorHooks(), module_env={})]
