from .. import deductive
from . import normal_ded
from ..contracts import normal as N
from . import C13

# an answer handed to the caller is newly allocated storage (or a view of such): a caller that updates it in place, as the library's
# own synthetic_data does, cannot change what later queries return
FRESH = [x for x in C13.RETURNS_FRESH if x[1] in ('GraphicalModel.project', 'Factor.project', 'Factor.sum', 'Factor.logsumexp', 'Factor.transpose',
                                                   'Factor.datavector', 'variable_elimination_logspace', 'Factor.exp', 'Factor.expand')]


def run(tier):
    rel, q, c = N.DV_ITEM
    rel2, q2, c2 = N.BP_ITEM      # krondot divides by exp(logZ): the logZ=True answer of belief_propagation is log Z (under L-cal)
    return deductive.verify_module('gmquery', nproc=1) + normal_ded.reports(('C02',)) + \
        [deductive.verify_function(rel, q, c, hooks=N.DataVectorHooks(), module_env={}),
         deductive.verify_function(rel2, q2, c2, hooks=N.BPHooks(), module_env={'Z_calibrated': N.E.Num(N.z3.Real('Z_calibrated'))})] + \
        C13.returns_fresh_reports(FRESH) + _ve_step() + _bulk()


def _ve_step():
    from ..contracts import exactmsg as XM
    return [deductive.verify_function(rel, q, c, hooks=XM.hooks(sites), prefix='%s::%s[elimination step]' % (rel, q))
            for rel, q, c, sites, tag in XM.ITEMS if tag == 'C02']


def _bulk():
    """bulk (calculate_many_marginals) and Kronecker-product (krondot) query paths, value-level equations (pv/contracts/bulk.py)"""
    from ..contracts import bulk as BK
    return [deductive.verify_function(rel, q, c, hooks=BK.hooks(sites), prefix='%s::%s[query equations]' % (rel, q)) for rel, q, c, sites in BK.ITEMS]


def replay(prop, ob):
    from ..contracts import bulk as BK
    return BK.replay(ob)
