from .. import deductive
from ..contracts import lossgrad as LG


def run(tier):
    reps = deductive.verify_module('objective', nproc=3)
    for rel, q, c, tag in LG.ITEMS:
        if tag == 'C04':
            reps.append(deductive.verify_function(rel, q, c, hooks=LG.OneCellHooks(), module_env=LG.ENV, prefix='%s::%s[one-cell instance]' % (rel, q)))
    from ..contracts import lossnd as ND
    for rel, q, c, tag in ND.ITEMS:
        if tag == 'C04':
            reps.append(deductive.verify_function(rel, q, c, hooks=ND.hooks(), prefix='%s::%s[n-dimensional, L2]' % (rel, q)))
    from ..contracts import lossnd as ND1
    for rel, q, c, tag in ND1.L1_ITEMS:
        if tag == 'C04':
            reps.append(deductive.verify_function(rel, q, c, hooks=ND1.hooks(ND1.SITES_L1), prefix='%s::%s[n-dimensional, L1]' % (rel, q)))
    return reps


def replay(prop, ob):
    from ..contracts import lossgrad as LG
    return LG.replay(prop, ob)
