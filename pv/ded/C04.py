from .. import deductive


def run(tier):
    return deductive.verify_module('objective', nproc=3)
