"""Shared helpers of the bounded tiers of C01 / C02 / C12.

Everything here is independent of the code under test: the oracle is an explicit joint table over the
full domain built with plain numpy (potentials expanded by attribute NAME), the structure enumerators
are itertools loops, the schedule enumerator is a backtracking search over the dependency relation
taken literally from the property statement.  The only place the repository is touched is
`build_model` / `to_clique_vector`, which construct the objects handed to the code under test.
"""
import itertools
import numpy as np

NAMES = 'abcdefgh'


# ----------------------------------------------------------------------------------------------
# explicit joint oracle
# ----------------------------------------------------------------------------------------------
def expand_by_name(attrs, values, dom_attrs, dom_shape):
    """ndarray whose axes are `attrs` (in that order) -> ndarray broadcastable over the full domain (domain order)."""
    attrs = list(attrs)
    dom_attrs = list(dom_attrs)
    values = np.asarray(values, dtype=float)
    want = tuple(dom_shape[dom_attrs.index(a)] for a in attrs)
    if values.shape != want:
        raise AssertionError('harness: factor over %s has shape %s, expected %s' % (attrs, values.shape, want))
    if len(set(attrs)) != len(attrs):
        raise AssertionError('harness: repeated attribute in %s' % (attrs,))
    perm = sorted(range(len(attrs)), key=lambda k: dom_attrs.index(attrs[k]))
    v = np.transpose(values, perm) if attrs else values
    shape = [dom_shape[i] if a in attrs else 1 for i, a in enumerate(dom_attrs)]
    return v.reshape(shape)


def joint_log(dom_attrs, dom_shape, factors):
    """factors: iterable of (attrs, ndarray of log-potentials) -> unnormalised log joint, full table in domain order."""
    logj = np.zeros(tuple(dom_shape), dtype=float)
    for attrs, vals in factors:
        vals = np.asarray(vals, dtype=float)
        if np.any(np.isnan(vals)) or np.any(vals == np.inf):
            raise AssertionError('harness: potentials must be finite or -inf')
        logj = logj + expand_by_name(attrs, vals, dom_attrs, dom_shape)
    return logj


def normalise(logj, total):
    """-> (P, logZ): P = total * exp(logj) / sum exp(logj), computed after subtracting the max; None when every cell is -inf."""
    m = np.max(logj) if logj.size else -np.inf
    if not np.isfinite(m):
        return None, None
    e = np.exp(logj - m)
    z = e.sum()
    return e * (float(total) / z), float(m + np.log(z))


def marginal(P, dom_attrs, attrs):
    """marginal of the full table P (domain order) onto `attrs`, axes laid out in the order of `attrs`."""
    dom_attrs = list(dom_attrs)
    attrs = list(attrs)
    drop = tuple(i for i, a in enumerate(dom_attrs) if a not in attrs)
    m = P.sum(axis=drop) if drop else P
    kept = [a for a in dom_attrs if a in attrs]
    perm = [kept.index(a) for a in attrs]
    return np.transpose(m, perm) if attrs else np.asarray(m)


def close(got, want, scale, rtol=1e-7, atol_rel=1e-9):
    """elementwise |got - want| <= rtol*|want| + atol_rel*scale, same shape, everything finite."""
    got = np.asarray(got, dtype=float)
    want = np.asarray(want, dtype=float)
    if got.shape != want.shape:
        return False
    if not np.all(np.isfinite(got)):
        return False
    return bool(np.all(np.abs(got - want) <= rtol * np.abs(want) + atol_rel * abs(scale)))


def maxdiff(got, want):
    got = np.asarray(got, dtype=float)
    want = np.asarray(want, dtype=float)
    if got.shape != want.shape:
        return 'shape %s vs %s' % (got.shape, want.shape)
    with np.errstate(all='ignore'):
        d = np.abs(got - want)
    return float(np.nanmax(d)) if d.size else 0.0


def factor_marginal_ok(f, clique, P, dom_attrs, dom_shape, total, rtol=1e-7):
    """Is Factor `f` the marginal of P on `clique` (compared by attribute name)?  -> (ok, detail)"""
    fa = tuple(f.domain.attrs)
    vals = np.asarray(f.values, dtype=float)
    if set(fa) != set(clique) or len(fa) != len(set(fa)):
        return False, dict(why='attribute set differs', got_attrs=list(fa), clique=list(clique))
    want = marginal(P, dom_attrs, fa)
    if vals.shape != want.shape:
        return False, dict(why='shape differs', got_shape=list(vals.shape), want_shape=list(want.shape), attrs=list(fa))
    ok = close(vals, want, total, rtol=rtol)
    return ok, dict(attrs=list(fa), got=vals.tolist(), want=want.tolist(), maxdiff=maxdiff(vals, want))


# ----------------------------------------------------------------------------------------------
# structures
# ----------------------------------------------------------------------------------------------
def all_clique_sets(attrs, max_size=3, max_cliques=4, min_cliques=0):
    """every set of <= max_cliques distinct cliques (non-empty attribute subsets of size <= max_size)."""
    subsets = [c for k in range(1, max_size + 1) for c in itertools.combinations(attrs, k)]
    for m in range(min_cliques, max_cliques + 1):
        for cs in itertools.combinations(subsets, m):
            yield [list(c) for c in cs]


def all_labelled_graphs(attrs):
    """every labelled simple graph on `attrs` as its edge list."""
    pairs = list(itertools.combinations(attrs, 2))
    for mask in range(1 << len(pairs)):
        yield [list(p) for k, p in enumerate(pairs) if mask >> k & 1]


def maximal_cliques_bruteforce(attrs, edges):
    """maximal complete subsets of the graph (attrs, edges), by subset enumeration (small graphs only)."""
    E = {frozenset(e) for e in edges}
    comp = []
    for k in range(1, len(attrs) + 1):
        for s in itertools.combinations(attrs, k):
            if all(frozenset(p) in E for p in itertools.combinations(s, 2)):
                comp.append(frozenset(s))
    return [sorted(s) for s in comp if not any(s < t for t in comp)]


def random_clique_set(rng, attrs, n_cliques, max_size):
    out = []
    for _ in range(n_cliques):
        k = int(rng.randint(1, min(max_size, len(attrs)) + 1))
        out.append([attrs[i] for i in rng.permutation(len(attrs))[:k]])
    return out


def decorate_cliques(rng, cliques, max_cliques=4, p_dup=0.3):
    """shuffle attribute order inside every clique, shuffle the list, sometimes duplicate one clique (in another attribute order)."""
    cl = [[c[i] for i in rng.permutation(len(c))] for c in cliques]
    if cl and len(cl) < max_cliques and rng.rand() < p_dup:
        c = cl[int(rng.randint(len(cl)))]
        cl.append([c[i] for i in rng.permutation(len(c))])
    return [cl[i] for i in rng.permutation(len(cl))]


def all_attr_tuples(attrs):
    """all subsets x orderings of attrs, including () and the full tuples."""
    out = []
    for k in range(len(attrs) + 1):
        out.extend(itertools.permutations(attrs, k))
    return out


# ----------------------------------------------------------------------------------------------
# message schedules
# ----------------------------------------------------------------------------------------------
def message_deps(messages):
    """message (i,j) depends on every (k,i) with k != j  (the statement's dependency order)."""
    deps = {m: set() for m in messages}
    for m1 in messages:
        for m2 in messages:
            if m1[1] == m2[0] and m1[0] != m2[1]:
                deps[m2].add(m1)
    return deps


def is_linear_extension(order, deps):
    pos = {}
    for k, m in enumerate(order):
        if m in pos:
            return False
        pos[m] = k
    if set(pos) != set(deps):
        return False
    return all(pos[d] < pos[m] for m in deps for d in deps[m])


def linear_extensions(items, deps, limit=None):
    """all linear extensions of the partial order `deps` over `items` (backtracking; at most `limit`)."""
    items = list(items)
    n = len(items)
    out = []
    placed = []
    placed_set = set()

    def rec():
        if limit is not None and len(out) >= limit:
            return
        if len(placed) == n:
            out.append(list(placed))
            return
        for m in items:
            if m not in placed_set and deps[m] <= placed_set:
                placed.append(m)
                placed_set.add(m)
                rec()
                placed.pop()
                placed_set.discard(m)
    rec()
    return out


def count_linear_extensions(items, deps, cap=10 ** 6):
    """number of linear extensions (DP over down-sets), capped."""
    items = list(items)
    idx = {m: k for k, m in enumerate(items)}
    need = [sum(1 << idx[d] for d in deps[m]) for m in items]
    full = (1 << len(items)) - 1
    memo = {}

    def f(mask):
        if mask == full:
            return 1
        if mask in memo:
            return memo[mask]
        t = 0
        for k in range(len(items)):
            if not mask >> k & 1 and need[k] & mask == need[k]:
                t += f(mask | 1 << k)
                if t > cap:
                    break
        memo[mask] = t
        return t
    return f(0)


def random_linear_extension(items, deps, rng):
    items = list(items)
    placed, placed_set = [], set()
    while len(placed) < len(items):
        avail = [m for m in items if m not in placed_set and deps[m] <= placed_set]
        m = avail[int(rng.randint(len(avail)))]
        placed.append(m)
        placed_set.add(m)
    return placed


# ----------------------------------------------------------------------------------------------
# model specs (JSON) -> objects of the tree under verification
# ----------------------------------------------------------------------------------------------
def spec_order(spec):
    o = spec.get('order')
    return list(o) if isinstance(o, (list, tuple)) else o


def build_model(spec, order='__spec__'):
    """spec: dict(attrs, sizes, cliques, total, order (None | int | list), npseed, as_list) -> GraphicalModel of the tree under verification."""
    from mbi import Domain, GraphicalModel
    dom = Domain(list(spec['attrs']), list(spec['sizes']))
    cl = [list(c) if spec.get('as_list') else tuple(c) for c in spec['cliques']]
    if order == '__spec__':
        order = spec_order(spec)
    np.random.seed(int(spec.get('npseed', 0)) % (2 ** 32))
    return GraphicalModel(dom, cl, float(spec.get('total', 1.0)), elimination_order=order)


def draw_potentials(rng, attrs, sizes, cliques, mag=1.0, ninf=0.0, slices=False):
    """random log-potentials {clique: ndarray} on `cliques` (axis order = clique order).

    A hidden witness cell of the full domain never receives -inf, so the joint has at least one finite cell.
    """
    size = dict(zip(attrs, sizes))
    witness = {a: int(rng.randint(size[a])) for a in attrs}
    out = {}
    for cl in cliques:
        shape = tuple(size[a] for a in cl)
        v = mag * rng.randn(*shape) if shape else np.asarray(mag * rng.randn())
        v = np.array(v, dtype=float)
        if ninf > 0:
            mask = rng.rand(*shape) < ninf if shape else np.asarray(False)
            if slices and shape and rng.rand() < 0.5:
                ax = int(rng.randint(len(shape)))
                val = int(rng.randint(shape[ax]))
                sl = [slice(None)] * len(shape)
                sl[ax] = val
                mask = np.array(mask)
                mask[tuple(sl)] = True
            mask = np.array(mask)
            mask[tuple(witness[a] for a in cl)] = False
            v = np.where(mask, -np.inf, v)
        out[tuple(cl)] = v
    return out


def to_clique_vector(domain, arrays):
    from mbi import CliqueVector, Factor
    return CliqueVector({cl: Factor(domain.project(cl), np.array(v, dtype=float).reshape(domain.project(cl).shape))
                         for cl, v in arrays.items()})


def factors_of(cv):
    """CliqueVector / dict of Factors -> [(attrs, ndarray copy)] for the oracle (attrs taken from each factor's own domain)."""
    return [(tuple(f.domain.attrs), np.array(f.values, dtype=float)) for f in cv.values()]


def lift(attrs, sizes, base, model_cliques):
    """assign each (attrs, array) of `base` to the first model clique containing it (expanded by name, numpy only)."""
    size = dict(zip(attrs, sizes))
    out = {tuple(cl): np.zeros(tuple(size[a] for a in cl)) for cl in model_cliques}
    for battrs, vals in base:
        home = [cl for cl in model_cliques if set(battrs) <= set(cl)]
        if not home:
            raise AssertionError('harness: no model clique contains %s (cover clause of C12 violated?)' % (battrs,))
        cl = tuple(home[0])
        out[cl] = out[cl] + expand_by_name(battrs, vals, list(cl), [size[a] for a in cl])
    return out
