"""Dict-based factor oracle for the bounded tier of C14 (and the table side of C15).

A factor is a mapping  {frozenset of (attr, value) pairs : float}  over the joint assignments of
its attributes.  Nothing here uses numpy, array axes or axis positions: every operation is
defined on assignments, i.e. by attribute *name*.  `attrs` is carried only to state which
attribute order the real result is expected to report; it never influences a value.

The only place where positions meet names is `to_real` / `compare`, which read or write the
real `Factor.values` one cell at a time and interpret index i of a cell as the value of
`factor.domain.attrs[i]` — exactly the representation invariant under test.
"""
import itertools
import math

NEG = float('-inf')


def assignments(attrs, sizes):
    """All joint assignments of `attrs` (each a frozenset of (attr, value))."""
    attrs = tuple(attrs)
    for vals in itertools.product(*[range(sizes[a]) for a in attrs]):
        yield frozenset(zip(attrs, vals))


class OF:
    """Oracle factor."""

    def __init__(self, attrs, sizes, table):
        self.attrs = tuple(attrs)
        self.aset = frozenset(self.attrs)
        self.sizes = sizes
        self.table = table

    def at(self, x):
        """value at the restriction of assignment x (over a superset of attributes) to this factor"""
        return self.table[frozenset(p for p in x if p[0] in self.aset)]

    def cells(self):
        return len(self.table)


def restrict(x, keep):
    return frozenset(p for p in x if p[0] in keep)


def from_function(attrs, sizes, fn):
    return OF(attrs, sizes, {x: fn(x) for x in assignments(attrs, sizes)})


def merged_attrs(F, G):
    """statement/DESIGN: self's attributes, then other's new ones in other's order"""
    return F.attrs + tuple(b for b in G.attrs if b not in F.aset)


def pointwise(op, F, G, attrs=None):
    attrs = merged_attrs(F, G) if attrs is None else tuple(attrs)
    return OF(attrs, F.sizes, {x: op(F.at(x), G.at(x)) for x in assignments(attrs, F.sizes)})


def fmap(fn, F):
    return OF(F.attrs, F.sizes, {x: fn(v) for x, v in F.table.items()})


def aggregate(F, removed, agg):
    """aggregate away the attributes in `removed`; kept attributes stay in F's order"""
    removed = set(removed)
    keep = tuple(a for a in F.attrs if a not in removed)
    ks = frozenset(keep)
    groups = {}
    for x, v in F.table.items():
        groups.setdefault(restrict(x, ks), []).append(v)
    return OF(keep, F.sizes, {k: agg(vs) for k, vs in groups.items()})


def reorder(F, attrs):
    assert set(attrs) == set(F.attrs)
    return OF(attrs, F.sizes, dict(F.table))


def condition(F, evidence):
    keep = tuple(a for a in F.attrs if a not in evidence)
    ks = frozenset(keep)
    ev = [(a, v) for a, v in evidence.items() if a in F.aset]
    return OF(keep, F.sizes, {restrict(x, ks): v for x, v in F.table.items() if all(p in x for p in ev)})


# ---------------------------------------------------------------- scalar operations (extended reals)
def s_add(x, y):
    return x + y


def s_sub_bp(x, y):
    """Factor.__sub__ (DESIGN C01 BP-safe-sub): self - other, except self where other is -inf"""
    return x if y == NEG else x - y


def s_mul(x, y):
    return x * y


def s_div_guarded(x, y):
    """Factor.__truediv__ by a factor: 0 where the divisor is <= 0"""
    return 0.0 if y <= 0 else x / y


def s_logaddexp(x, y):
    m = max(x, y)
    if m == NEG:
        return NEG
    return m + math.log(math.exp(x - m) + math.exp(y - m))


def a_sum(vs):
    t = 0.0
    for v in vs:
        t += v
    return t


def a_max(vs):
    return max(vs)


def a_logsumexp(vs):
    m = max(vs)
    if m == NEG:
        return NEG
    return m + math.log(a_sum([math.exp(v - m) for v in vs]))


def s_log_eps(v):
    """Factor.log(): log(v + 1e-100)"""
    return math.log(v + 1e-100)


# ---------------------------------------------------------------- comparison of scalars
def same(x, y, rtol=1e-9, atol=1e-12):
    """x (observed) equals y (oracle): exact on nan/inf, relative otherwise"""
    x = float(x)
    y = float(y)
    if y != y:
        return x != x
    if y in (float('inf'), NEG):
        return x == y
    if x != x or x in (float('inf'), NEG):
        return False
    return abs(x - y) <= rtol * max(abs(x), abs(y)) + atol


# ---------------------------------------------------------------- the real side, cell by cell
def to_real(F, attrs=None):
    """Build a real mbi.Factor with the given attribute order holding the oracle's values."""
    import numpy as np
    from mbi import Domain, Factor
    attrs = F.attrs if attrs is None else tuple(attrs)
    dom = Domain(attrs, [F.sizes[a] for a in attrs])
    vals = np.empty(dom.shape, dtype=float)
    for idx in np.ndindex(*dom.shape):
        vals[idx] = F.table[frozenset(zip(attrs, idx))]
    return Factor(dom, vals)


def describe(x):
    return {a: int(v) for a, v in sorted(x)}


def check_domain(real, attrs, sizes):
    """(ok, detail): attrs exactly as expected, domain.shape from the sizes, values.shape == domain.shape"""
    import numpy as np
    attrs = tuple(attrs)
    got_attrs = tuple(real.domain.attrs)
    got_shape = tuple(real.domain.shape)
    vshape = tuple(np.shape(real.values))
    ok = got_attrs == attrs and got_shape == tuple(sizes[a] for a in attrs) and vshape == got_shape
    if ok:
        return True, {}
    return False, dict(expected_attrs=list(attrs), got_attrs=list(got_attrs), got_domain_shape=list(got_shape),
                       expected_shape=[sizes[a] for a in attrs], values_shape=list(vshape))


def check_values(real, O, rtol=1e-9, atol=1e-12):
    """(ok, detail): every cell of the real factor, addressed by real.domain.attrs, equals the oracle"""
    import numpy as np
    got_attrs = tuple(real.domain.attrs)
    vals = np.asarray(real.values)
    if set(got_attrs) != set(O.attrs) or len(got_attrs) != len(O.attrs):
        return False, dict(reason='attribute set differs', got_attrs=list(got_attrs), expected_attrs=list(O.attrs))
    if tuple(vals.shape) != tuple(O.sizes[a] for a in got_attrs):
        return False, dict(reason='values shape does not match the attribute sizes', values_shape=list(vals.shape), got_attrs=list(got_attrs))
    bad = []
    for idx in np.ndindex(*vals.shape):
        x = frozenset(zip(got_attrs, idx))
        if not same(vals[idx], O.table[x], rtol, atol):
            bad.append(dict(assignment=describe(x), got=float(vals[idx]), expected=float(O.table[x])))
    if bad:
        return False, dict(mismatching_cells=len(bad), cells=int(vals.size), first=bad[:3])
    return True, {}


def real_table(real):
    """read a real factor into an oracle table (by its own attribute labels)"""
    import numpy as np
    attrs = tuple(real.domain.attrs)
    vals = np.asarray(real.values)
    return {frozenset(zip(attrs, idx)): float(vals[idx]) for idx in np.ndindex(*vals.shape)}


# ---------------------------------------------------------------- random tables (dyadic values: +,-,* and sums are exact)
def random_table(rng, attrs, sizes, pattern='finite'):
    """pattern: 'finite' dyadic values in [-4,4] with extra zeros; 'neginf' additionally -inf cells
    (p=0.3, or the whole table with p=0.05); 'nonneg' values in [0,4] with zeros; 'pos' values in (0,4]"""
    all_neg = pattern == 'neginf' and rng.rand() < 0.05
    def draw():
        k = int(rng.randint(-64, 65))
        z = rng.rand()
        if pattern == 'nonneg':
            k = abs(k)
        if pattern == 'pos':
            return (abs(k) + 1) / 16.0
        if z < 0.12:
            k = 0
        if pattern == 'neginf' and (all_neg or rng.rand() < 0.3):
            return NEG
        return k / 16.0
    return from_function(attrs, sizes, lambda x: draw())
