"""Shared, repository-independent helpers of the bounded tiers of C03 / C04 / C09.

Nothing in this file imports `mbi`: tables are plain numpy vectors in C order over an explicit
attribute list, marginalisation is a 0/1 matrix assembled by a counting loop, query matrices are
rebuilt deterministically from a JSON-serialisable spec.  The drivers hand the *spelled* query
(dense / sparse / LinearOperator / None) to the code under test and keep the dense matrix for the oracle.
"""
import os
# 16 fork workers x multi-threaded BLAS oversubscribes the machine (measured 4x slowdown): pin BLAS/OpenMP to one
# thread per process.  Effective because this module is imported by the property modules before numpy is.
for _v in ('OMP_NUM_THREADS', 'OPENBLAS_NUM_THREADS', 'MKL_NUM_THREADS'):
    os.environ.setdefault(_v, '1')
import itertools
import numpy as np

# multi-character names on purpose: tuple('age') != ('age',)
ATTR_NAMES = ['age', 'bx', 'c', 'dd0']


def prod(xs):
    r = 1
    for x in xs:
        r *= int(x)
    return r


def marg_matrix(attrs, sizes, proj):
    """0/1 matrix M with  M @ vec_C(table over attrs) == vec_C(marginal over proj, axes in proj order)."""
    attrs = list(attrs)
    sz = dict(zip(attrs, sizes))
    pos = [attrs.index(a) for a in proj]
    psz = [sz[a] for a in proj]
    M = np.zeros((prod(psz), prod(sizes)))
    for j, cell in enumerate(itertools.product(*[range(int(s)) for s in sizes])):
        i = 0
        for p, s in zip(pos, psz):
            i = i * s + cell[p]
        M[i, j] = 1.0
    return M


# ------------------------------------------------------------------------------ query matrices
def make_Q(kind, n, qseed, rows=None):
    """Dense query matrix over n cells, deterministic in (kind, n, qseed, rows)."""
    r = np.random.RandomState(qseed)
    if kind == 'identity':
        return np.eye(n)
    if kind == 'scaled':                      # c * I
        return float(r.choice([0.25, 0.5, 2.0, 3.0, 10.0])) * np.eye(n)
    if kind == 'diag':                        # scaled diagonal with unequal entries
        return np.diag(r.uniform(0.5, 4.0, n) * r.choice([-1.0, 1.0], n))
    if kind == 'prefix':                      # prefix sums / ranges [0..i]
        return np.tril(np.ones((n, n)))
    if kind == 'randsq':                      # random full-rank square (conditioning bounded by the caller)
        return r.randn(n, n)
    if kind == 'tall':                        # more queries than cells, full column rank
        m = rows or (n + 1 + int(r.randint(0, max(2, n // 2))))
        return r.randn(m, n)
    if kind == 'wide':                        # fewer queries than cells (rank deficient)
        m = rows or max(1, n - 1 - int(r.randint(0, max(1, n // 2))))
        return r.randn(m, n)
    if kind == 'sparsefr':                    # sparse full-rank: bidiagonal with random off-diagonal
        Q = np.diag(r.uniform(1.0, 2.0, n))
        for i in range(1, n):
            if r.rand() < 0.7:
                Q[i, i - 1] = r.uniform(-1.0, 1.0)
        for _ in range(n // 3):
            i, j = r.randint(0, n, 2)
            if i != j:
                Q[i, j] = r.uniform(-0.3, 0.3)
        return Q
    if kind == 'deficient':                   # rank deficient, the ones vector is NOT in the row space:
        # rows are orthogonal to a vector w that has positive inner product with 1
        if n == 1:
            return np.zeros((1, 1))
        m = rows or max(1, n - 1)
        B = r.randn(m, n)
        w = np.ones(n) + 0.3 * r.rand(n)
        return B - np.outer(B @ w, w) / (w @ w)
    if kind == 'contrast':                    # differences of neighbouring cells: rows sum to zero
        if n == 1:
            return np.zeros((1, 1))
        Q = np.zeros((n - 1, n))
        for i in range(n - 1):
            Q[i, i], Q[i, i + 1] = 1.0, -1.0
        return Q
    raise ValueError(kind)


def spell_Q(Q, form):
    """The same linear map in one of the spellings accepted by the library."""
    from scipy import sparse
    from scipy.sparse.linalg import aslinearoperator
    if form == 'dense':
        return np.array(Q)
    if form == 'sparse':
        return sparse.csr_matrix(Q)
    if form == 'csc':
        return sparse.csc_matrix(Q)
    if form == 'operator':
        return aslinearoperator(np.array(Q))
    if form == 'sparseop':
        return aslinearoperator(sparse.csr_matrix(Q))
    if form == 'none':
        assert Q.shape[0] == Q.shape[1] and np.array_equal(Q, np.eye(Q.shape[0]))
        return None
    raise ValueError(form)


def spell_proj(proj, how):
    proj = tuple(proj)
    if how == 'tuple':
        return proj
    if how == 'list':
        return list(proj)
    if how == 'str':
        assert len(proj) == 1
        return proj[0]
    raise ValueError(how)


def min_norm_ones(Q):
    """Exact minimum-norm solution v of Q^T v = 1 (dense pseudo-inverse) and the residual max|Q^T v - 1|."""
    Q = np.asarray(Q, dtype=float)
    o = np.ones(Q.shape[1])
    v = np.linalg.pinv(Q.T, rcond=1e-12) @ o
    v2 = np.linalg.lstsq(Q.T, o, rcond=None)[0]
    res = float(np.max(np.abs(Q.T @ v - o)))
    return v, res, float(np.max(np.abs(v - v2)))


# ------------------------------------------------------------------------------ reference optimiser (C03)
def simplex_project(v, T):
    """Euclidean projection of v on {p >= 0, sum p = T} (sort based)."""
    n = v.size
    u = np.sort(v)[::-1]
    css = np.cumsum(u) - T
    k = np.arange(1, n + 1)
    cond = u - css / k > 0
    rho = k[cond][-1]
    tau = css[cond][-1] / rho
    return np.maximum(v - tau, 0.0)


def fw_gap(A, b, p, T):
    """Frank-Wolfe gap of p for 0.5||Ap-b||^2 over {p>=0, sum p = T}: <g,p> - T*min g  (>= L(p) - min L)."""
    g = A.T @ (A @ p - b)
    return float(g @ p - T * g.min())


def ls_loss(A, b, p):
    r = A @ p - b
    return 0.5 * float(r @ r)


def solve_simplex_ls(A, b, T, iters=20000, polish=True):
    """min 0.5||Ap-b||^2 over the scaled simplex by accelerated projected gradient with function restart,
    followed by an optional active-set polish (equality-constrained least squares on the found support).
    Returns (p, loss, fw_gap); the gap certifies the result whatever happened inside."""
    n = A.shape[1]
    H = A.T @ A
    Atb = A.T @ b
    Lc = max(float(np.linalg.eigvalsh(H)[-1]), 1e-300)
    p = np.full(n, T / n)
    z, t = p.copy(), 1.0
    f_prev = ls_loss(A, b, p)
    best, f_best = p.copy(), f_prev
    for k in range(iters):
        g = H @ z - Atb
        p_new = simplex_project(z - g / Lc, T)
        f_new = ls_loss(A, b, p_new)
        if f_new > f_prev:                   # restart momentum
            z, t = p.copy(), 1.0
            g = H @ z - Atb
            p_new = simplex_project(z - g / Lc, T)
            f_new = ls_loss(A, b, p_new)
        t_new = 0.5 * (1 + np.sqrt(1 + 4 * t * t))
        z = p_new + (t - 1) / t_new * (p_new - p)
        p, t, f_prev = p_new, t_new, f_new
        if f_new < f_best:
            best, f_best = p.copy(), f_new
        if k % 200 == 199 and fw_gap(A, b, best, T) <= 1e-13 * (1 + f_best):
            break
    p = best
    cand = [(ls_loss(A, b, p), fw_gap(A, b, p, T), p)]
    if polish:
        S = np.where(p > 1e-12 * T)[0]
        for _ in range(5):
            if S.size == 0:
                break
            # KKT system of  min 0.5||A_S q - b||^2  s.t. 1^T q = T   (minimum-norm solution if singular)
            As = A[:, S]
            K = np.zeros((S.size + 1, S.size + 1))
            K[:S.size, :S.size] = As.T @ As
            K[:S.size, -1] = 1.0
            K[-1, :S.size] = 1.0
            rhs = np.concatenate([As.T @ b, [T]])
            sol = np.linalg.lstsq(K, rhs, rcond=None)[0]
            q = np.zeros(n)
            q[S] = sol[:-1]
            if q.min() >= -1e-12 * T and abs(q.sum() - T) <= 1e-9 * T:
                q = np.maximum(q, 0.0)
                q *= T / q.sum()
                cand.append((ls_loss(A, b, q), fw_gap(A, b, q, T), q))
                break
            S = S[sol[:-1] > 0]
    cand.sort(key=lambda c: c[1])
    f, gap, p = cand[0]
    return p, f, max(gap, 0.0)
